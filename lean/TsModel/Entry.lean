import TsModel.Json
import TsModel.Primitive
/-
  TsModel.Entry — the manifest entry classes of manifest.py and their JSON-object forms.

  * `toValue`   = `dataclasses.asdict` (field order: `type` first, then the subclass' fields in
                  declaration order; `Shard` = offsets, sizes, tensor; `SnapshotMetadata` = version,
                  world_size, manifest)
  * `ofValue`   = the `from_yaml_obj` class methods + the `type` dispatch in
                  `SnapshotMetadata.from_yaml` (manifest.py:449-475)

  Python's readers are untyped (`cls(**yaml_obj)` accepts any value for any field). The model's
  entries are typed, so a field holding a value of another JSON type is answered `Err.illTyped`:
  *outside the modelled domain* (never produced by `to_yaml`; not compared by the harness).
  `Err.reject` is a case in which Python raises (KeyError / TypeError / AttributeError).
-/
namespace Ts.Manifest
open Ts.Json (Str Value)
open Ts.Primitive (PrimType)

inductive Err where
  | json (e : Ts.Json.Err)   -- json.loads raised (the YAML fallback is not modelled)
  | reject                   -- from_yaml raises: missing / unexpected key, wrong container
  | illTyped                 -- outside the model's typed domain
  deriving DecidableEq, Repr

/-! ## Field and type names (code points) -/
def kType : Str := [116, 121, 112, 101]  -- "type"
def kLocation : Str := [108, 111, 99, 97, 116, 105, 111, 110]  -- "location"
def kSerializer : Str := [115, 101, 114, 105, 97, 108, 105, 122, 101, 114]  -- "serializer"
def kDtype : Str := [100, 116, 121, 112, 101]  -- "dtype"
def kShape : Str := [115, 104, 97, 112, 101]  -- "shape"
def kReplicated : Str := [114, 101, 112, 108, 105, 99, 97, 116, 101, 100]  -- "replicated"
def kByteRange : Str := [98, 121, 116, 101, 95, 114, 97, 110, 103, 101]  -- "byte_range"
def kOffsets : Str := [111, 102, 102, 115, 101, 116, 115]  -- "offsets"
def kSizes : Str := [115, 105, 122, 101, 115]  -- "sizes"
def kTensor : Str := [116, 101, 110, 115, 111, 114]  -- "tensor"
def kShards : Str := [115, 104, 97, 114, 100, 115]  -- "shards"
def kChunks : Str := [99, 104, 117, 110, 107, 115]  -- "chunks"
def kMesh : Str := [109, 101, 115, 104]  -- "mesh"
def kDimMap : Str := [100, 105, 109, 95, 109, 97, 112]  -- "dim_map"
def kObjType : Str := [111, 98, 106, 95, 116, 121, 112, 101]  -- "obj_type"
def kKeys : Str := [107, 101, 121, 115]  -- "keys"
def kSerializedValue : Str := [115, 101, 114, 105, 97, 108, 105, 122, 101, 100, 95, 118, 97, 108, 117, 101]  -- "serialized_value"
def kReadable : Str := [114, 101, 97, 100, 97, 98, 108, 101]  -- "readable"
def kReadableValue : Str := [114, 101, 97, 100, 97, 98, 108, 101, 95, 118, 97, 108, 117, 101]  -- "readable_value"
def kVersion : Str := [118, 101, 114, 115, 105, 111, 110]  -- "version"
def kWorldSize : Str := [119, 111, 114, 108, 100, 95, 115, 105, 122, 101]  -- "world_size"
def kManifest : Str := [109, 97, 110, 105, 102, 101, 115, 116]  -- "manifest"
def tTensor : Str := [84, 101, 110, 115, 111, 114]  -- "Tensor"
def tShardedTensor : Str := [83, 104, 97, 114, 100, 101, 100, 84, 101, 110, 115, 111, 114]  -- "ShardedTensor"
def tChunkedTensor : Str := [67, 104, 117, 110, 107, 101, 100, 84, 101, 110, 115, 111, 114]  -- "ChunkedTensor"
def tDTensor : Str := [68, 84, 101, 110, 115, 111, 114]  -- "DTensor"
def tObject : Str := [111, 98, 106, 101, 99, 116]  -- "object"
def tList : Str := [108, 105, 115, 116]  -- "list"
def tDict : Str := [100, 105, 99, 116]  -- "dict"
def tOrderedDict : Str := [79, 114, 100, 101, 114, 101, 100, 68, 105, 99, 116]  -- "OrderedDict"
def tInt : Str := [105, 110, 116]  -- "int"
def tStr : Str := [115, 116, 114]  -- "str"
def tBool : Str := [98, 111, 111, 108]  -- "bool"
def tBytes : Str := [98, 121, 116, 101, 115]  -- "bytes"
def tFloat : Str := [102, 108, 111, 97, 116]  -- "float"

/-! ## Entry classes -/

/-- `TensorEntry` (manifest.py:49-93). -/
structure TensorEntry where
  location : Str
  serializer : Str
  dtype : Str
  shape : List Int
  replicated : Bool
  byteRange : Option (List Int)
  deriving DecidableEq, Repr

/-- `Shard` (manifest.py:96-116). -/
structure Shard where
  offsets : List Int
  sizes : List Int
  tensor : TensorEntry
  deriving DecidableEq, Repr

/-- `NestedList = Union[int, List[NestedList]]` (DTensorEntry.mesh). -/
inductive Nested where
  | int (i : Int)
  | list (l : List Nested)
  deriving Repr

/-- An element of `DictEntry.keys` / `OrderedDictEntry.keys`: `str`, `int` or `bool`. -/
inductive Key where
  | str (s : Str)
  | int (i : Int)
  | bool (b : Bool)
  deriving DecidableEq, Repr

/-- The nine entry kinds (manifest.py:29-418). -/
inductive Entry where
  | tensor (t : TensorEntry)
  | sharded (shards : List Shard)
  | chunked (dtype : Str) (shape : List Int) (chunks : List Shard) (replicated : Bool)
  | dtensor (shards : List Shard) (mesh : Nested) (dimMap : List (List Int))
  | object (location serializer objType : Str) (replicated : Bool)
  | list
  | dict (keys : List Key)
  | odict (keys : List Key)
  | prim (p : Ts.Primitive.PrimEntry)
  deriving Repr

/-- `SnapshotMetadata` (manifest.py:424-440); `manifest` is a Python dict: insertion-ordered,
keys distinct (`manifestWf`). -/
structure SnapshotMetadata where
  version : Str
  worldSize : Int
  manifest : List (Str × Entry)
  deriving Repr

/-! ## asdict -/

def ints (l : List Int) : Value := .arr (l.map .int)

def optInts : Option (List Int) → Value
  | none => .null
  | some l => ints l

def optStr : Option Str → Value
  | none => .null
  | some s => .str s

def primTypeName : PrimType → Str
  | .int => tInt | .str => tStr | .bool => tBool | .bytes => tBytes | .float => tFloat

def TensorEntry.toValue (t : TensorEntry) : Value :=
  .obj [(kType, .str tTensor), (kLocation, .str t.location), (kSerializer, .str t.serializer),
        (kDtype, .str t.dtype), (kShape, ints t.shape), (kReplicated, .bool t.replicated),
        (kByteRange, optInts t.byteRange)]

def Shard.toValue (s : Shard) : Value :=
  .obj [(kOffsets, ints s.offsets), (kSizes, ints s.sizes), (kTensor, s.tensor.toValue)]

def Nested.toValue : Nested → Value
  | .int i => .int i
  | .list l => .arr (toValues l)
where
  toValues : List Nested → List Value
    | [] => []
    | n :: ns => n.toValue :: toValues ns

def Key.toValue : Key → Value
  | .str s => .str s
  | .int i => .int i
  | .bool b => .bool b

def Entry.toValue : Entry → Value
  | .tensor t => t.toValue
  | .sharded shards => .obj [(kType, .str tShardedTensor), (kShards, .arr (shards.map Shard.toValue))]
  | .chunked dtype shape chunks replicated =>
      .obj [(kType, .str tChunkedTensor), (kDtype, .str dtype), (kShape, ints shape),
            (kChunks, .arr (chunks.map Shard.toValue)), (kReplicated, .bool replicated)]
  | .dtensor shards mesh dimMap =>
      .obj [(kType, .str tDTensor), (kShards, .arr (shards.map Shard.toValue)), (kMesh, mesh.toValue),
            (kDimMap, .arr (dimMap.map ints))]
  | .object location serializer objType replicated =>
      .obj [(kType, .str tObject), (kLocation, .str location), (kSerializer, .str serializer),
            (kObjType, .str objType), (kReplicated, .bool replicated)]
  | .list => .obj [(kType, .str tList)]
  | .dict keys => .obj [(kType, .str tDict), (kKeys, .arr (keys.map Key.toValue))]
  | .odict keys => .obj [(kType, .str tOrderedDict), (kKeys, .arr (keys.map Key.toValue))]
  | .prim p =>
      .obj [(kType, .str (primTypeName p.ty)), (kSerializedValue, .str p.serialized),
            (kReplicated, .bool p.replicated), (kReadable, optStr p.readable)]

/-- `asdict(SnapshotMetadata)`. -/
def SnapshotMetadata.toValue (md : SnapshotMetadata) : Value :=
  .obj [(kVersion, .str md.version), (kWorldSize, .int md.worldSize),
        (kManifest, .obj (md.manifest.map (fun pe => (pe.1, pe.2.toValue))))]

/-! ## from_yaml_obj -/

/-- `d[k]` on an association list. -/
def lookup (k : Str) : List (Str × Value) → Option Value
  | [] => none
  | (k', v) :: rest => if k' = k then some v else lookup k rest

/-- `del d[k]` (no-op when absent). -/
def erase (k : Str) : List (Str × Value) → List (Str × Value)
  | [] => []
  | (k', v) :: rest => if k' = k then rest else (k', v) :: erase k rest

/-- `cls(**o)` binds: every key of `o` is a parameter (`required ++ optional`) and every required
parameter is present; otherwise Python raises TypeError. -/
def kwargsOk (o : List (Str × Value)) (required optional : List Str) : Bool :=
  o.all (fun kv => required.contains kv.1 || optional.contains kv.1) &&
  required.all (fun k => (lookup k o).isSome)

def asStr : Value → Except Err Str
  | .str s => .ok s
  | _ => .error .illTyped

def asBool : Value → Except Err Bool
  | .bool b => .ok b
  | _ => .error .illTyped

def asInt : Value → Except Err Int
  | .int i => .ok i
  | _ => .error .illTyped

/-- `[f(x) for x in xs]` where `f` may raise. -/
def mapE {α β : Type} (f : α → Except Err β) : List α → Except Err (List β)
  | [] => .ok []
  | x :: xs =>
    match f x with
    | .error e => .error e
    | .ok y => match mapE f xs with
      | .error e => .error e
      | .ok ys => .ok (y :: ys)

def asInts : Value → Except Err (List Int)
  | .arr vs => mapE asInt vs
  | _ => .error .illTyped

def asOptInts : Value → Except Err (Option (List Int))
  | .null => .ok none
  | v => (asInts v).map some

def asOptStr : Value → Except Err (Option Str)
  | .null => .ok none
  | .str s => .ok (some s)
  | _ => .error .illTyped

def asKey : Value → Except Err Key
  | .str s => .ok (.str s)
  | .int i => .ok (.int i)
  | .bool b => .ok (.bool b)
  | _ => .error .illTyped

def asKeys : Value → Except Err (List Key)
  | .arr vs => mapE asKey vs
  | _ => .error .illTyped

def asIntLists : Value → Except Err (List (List Int))
  | .arr vs => mapE asInts vs
  | _ => .error .illTyped

mutual
def asNested : Value → Except Err Nested
  | .int i => .ok (.int i)
  | .arr vs => (asNesteds vs).map .list
  | _ => .error .illTyped
def asNesteds : List Value → Except Err (List Nested)
  | [] => .ok []
  | v :: vs =>
    match asNested v with
    | .error e => .error e
    | .ok n => match asNesteds vs with
      | .error e => .error e
      | .ok ns => .ok (n :: ns)
end

/-- field access after `kwargsOk` (a missing optional field reads as its default). -/
def field (o : List (Str × Value)) (k : Str) (dflt : Value := .null) : Value :=
  (lookup k o).getD dflt

/-- `TensorEntry.from_yaml_obj` = `Entry.from_yaml_obj` (delete `type` if present, `cls(**obj)`);
`byte_range` has a default. -/
def tensorOfValue : Value → Except Err TensorEntry
  | .obj o0 =>
    let o := erase kType o0
    if kwargsOk o [kLocation, kSerializer, kDtype, kShape, kReplicated] [kByteRange] then do
      let location ← asStr (field o kLocation)
      let serializer ← asStr (field o kSerializer)
      let dtype ← asStr (field o kDtype)
      let shape ← asInts (field o kShape)
      let replicated ← asBool (field o kReplicated)
      let byteRange ← asOptInts (field o kByteRange)
      pure { location, serializer, dtype, shape, replicated, byteRange }
    else .error .reject
  | _ => .error .reject

/-- `Shard.from_yaml_obj`. -/
def shardOfValue : Value → Except Err Shard
  | .obj o =>
    match lookup kTensor o with
    | none => .error .reject
    | some tv => do
      let tensor ← tensorOfValue tv
      if kwargsOk o [kOffsets, kSizes, kTensor] [] then do
        let offsets ← asInts (field o kOffsets)
        let sizes ← asInts (field o kSizes)
        pure { offsets, sizes, tensor }
      else .error .reject
  | _ => .error .reject

/-- `[Shard.from_yaml_obj(shard) for shard in yaml_obj[...]]`; iterating a non-list is outside the
typed domain (Python iterates a `str`/`dict` too). -/
def shardsOfValue : Value → Except Err (List Shard)
  | .arr vs => mapE shardOfValue vs
  | _ => .error .illTyped

/-- `PrimitiveEntry.supported_types` membership, as the enum. -/
def primTypeOfName (s : Str) : Option PrimType :=
  if s = tInt then some .int else if s = tStr then some .str else if s = tBool then some .bool
  else if s = tBytes then some .bytes else if s = tFloat then some .float else none

/-- The `type` dispatch of `SnapshotMetadata.from_yaml` applied to one manifest value:
`none` = no branch matches and the entry is silently skipped (there is no `else`). -/
def entryOfValue : Value → Except Err (Option Entry)
  | .obj o0 =>
    match lookup kType o0 with
    | none => .error .reject                      -- yaml_obj["type"] → KeyError
    | some (.str ty) =>
      let o := erase kType o0
      if ty = tList then
        (if kwargsOk o [] [] then .ok (some .list) else .error .reject)
      else if ty = tDict then
        (if kwargsOk o [kKeys] [] then (asKeys (field o kKeys)).map (fun ks => some (.dict ks)) else .error .reject)
      else if ty = tOrderedDict then
        (if kwargsOk o [kKeys] [] then (asKeys (field o kKeys)).map (fun ks => some (.odict ks)) else .error .reject)
      else match primTypeOfName ty with
      | some pt =>
        -- PrimitiveEntry.from_yaml_obj: `del yaml_obj["readable"]`, then cls(**yaml_obj) with `type` kept
        (match lookup kReadable o with
         | none => .error .reject
         | some _ =>
           let o' := erase kReadable o
           if kwargsOk o' [kSerializedValue, kReplicated] [kReadableValue] then do
             let serialized ← asStr (field o' kSerializedValue)
             let replicated ← asBool (field o' kReplicated)
             let readable ← asOptStr (field o' kReadableValue)
             pure (some (.prim { ty := pt, serialized, replicated, readable }))
           else .error .reject)
      | none =>
        if ty = tTensor then (tensorOfValue (.obj o0)).map (fun t => some (.tensor t))
        else if ty = tShardedTensor then
          (match lookup kShards o with
           | none => .error .reject
           | some sv => do
             let shards ← shardsOfValue sv
             if kwargsOk o [kShards] [] then pure (some (.sharded shards)) else .error .reject)
        else if ty = tChunkedTensor then
          (match lookup kChunks o with
           | none => .error .reject
           | some sv => do
             let chunks ← shardsOfValue sv
             if kwargsOk o [kDtype, kShape, kChunks, kReplicated] [] then do
               let dtype ← asStr (field o kDtype)
               let shape ← asInts (field o kShape)
               let replicated ← asBool (field o kReplicated)
               pure (some (.chunked dtype shape chunks replicated))
             else .error .reject)
        else if ty = tDTensor then
          (match lookup kShards o with
           | none => .error .reject
           | some sv => do
             let shards ← shardsOfValue sv
             if kwargsOk o [kShards, kMesh, kDimMap] [] then do
               let mesh ← asNested (field o kMesh)
               let dimMap ← asIntLists (field o kDimMap)
               pure (some (.dtensor shards mesh dimMap))
             else .error .reject)
        else if ty = tObject then
          (if kwargsOk o [kLocation, kSerializer, kObjType, kReplicated] [] then do
             let location ← asStr (field o kLocation)
             let serializer ← asStr (field o kSerializer)
             let objType ← asStr (field o kObjType)
             let replicated ← asBool (field o kReplicated)
             pure (some (.object location serializer objType replicated))
           else .error .reject)
        else .ok none
    | some _ => .ok none                           -- a non-str `type` equals no branch
  | _ => .error .reject                             -- yaml_obj["type"] on a non-dict → TypeError

/-- The manifest loop of `from_yaml`. -/
def manifestOfPairs : List (Str × Value) → Except Err (List (Str × Entry))
  | [] => .ok []
  | (path, v) :: rest =>
    match entryOfValue v with
    | .error e => .error e
    | .ok oe =>
      match manifestOfPairs rest with
      | .error e => .error e
      | .ok m => .ok (match oe with | some e => (path, e) :: m | none => m)

/-- `SnapshotMetadata.from_yaml` after `json.loads`: `d["manifest"].items()` loop, then `cls(**d)`. -/
def metadataOfValue : Value → Except Err SnapshotMetadata
  | .obj d =>
    match lookup kManifest d with
    | some (.obj ms) => do
      let manifest ← manifestOfPairs ms
      if kwargsOk d [kVersion, kWorldSize, kManifest] [] then do
        let version ← asStr (field d kVersion)
        let worldSize ← asInt (field d kWorldSize)
        pure { version, worldSize, manifest }
      else .error .reject
    | _ => .error .reject
  | _ => .error .reject

/-! ## Well-formedness (what the theorems assume about a metadata object) -/

def TensorEntry.strs (t : TensorEntry) : List Str := [t.location, t.serializer, t.dtype]

def Key.strs : Key → List Str
  | .str s => [s]
  | _ => []

/-- Every `str` an entry holds. -/
def Entry.strs : Entry → List Str
  | .tensor t => t.strs
  | .sharded shards => shards.flatMap (fun s => s.tensor.strs)
  | .chunked dtype _ chunks _ => dtype :: chunks.flatMap (fun s => s.tensor.strs)
  | .dtensor shards _ _ => shards.flatMap (fun s => s.tensor.strs)
  | .object location serializer objType _ => [location, serializer, objType]
  | .list => []
  | .dict keys => keys.flatMap Key.strs
  | .odict keys => keys.flatMap Key.strs
  | .prim p => p.serialized :: (match p.readable with | some r => [r] | none => [])

/-- Every `str` the document carries: version, logical paths, entry fields, dict keys, primitives. -/
def SnapshotMetadata.strs (md : SnapshotMetadata) : List Str :=
  md.version :: md.manifest.flatMap (fun pe => pe.1 :: pe.2.strs)

/-- The manifest is a dict (paths pairwise distinct) and every string is a sequence of code points
without a high surrogate immediately followed by a low one (`goodStr`; the excluded class is D17). -/
def SnapshotMetadata.wf (md : SnapshotMetadata) : Bool :=
  md.strs.all Ts.Json.goodStr && decide ((md.manifest.map Prod.fst).Nodup)

/-! ## The document -/

/-- `SnapshotMetadata.to_yaml()`. -/
def printMetadata (md : SnapshotMetadata) : List Nat := Ts.Json.print md.toValue

/-- `SnapshotMetadata.from_yaml(text)` on its `json.loads` path. -/
def readMetadata (text : List Nat) : Except Err SnapshotMetadata :=
  match Ts.Json.parse text with
  | .error e => .error (.json e)
  | .ok v => metadataOfValue v

/-- The reader discards `readable` by design (`del yaml_obj["readable"]`). -/
def Entry.eraseReadable : Entry → Entry
  | .prim p => .prim { p with readable := none }
  | e => e

def SnapshotMetadata.eraseReadable (md : SnapshotMetadata) : SnapshotMetadata :=
  { md with manifest := md.manifest.map (fun pe => (pe.1, pe.2.eraseReadable)) }

end Ts.Manifest
