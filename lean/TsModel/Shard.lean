/-
  TsModel.Shard — model of `io_preparers/sharded_tensor.py` (resharding kernel, C08):
  boxes, torch's pair-overlap predicate, `_shards_get_overlap_region_wrt_saved_tensor`,
  `subdivide_shard`, `torch.narrow` views, `_OverlappingRegion.get_views`, `tensor_copy`,
  `ShardedTensorIOPreparer.prepare_write` / `prepare_read` + `ShardedTensorBufferConsumer`.
  `io_preparers/dtensor.py:237-275` calls the very same kernel
  (`ShardedTensorIOPreparer._shards_get_overlap_region_wrt_saved_tensor` + `_OverlappingRegion`).

  Conventions: an n-d index is a `List Nat` (one coordinate per dimension, any n); a tensor is its
  `sizes` and a total function from *local* index to value (row-major (de)linearisation of the
  contiguous bytes is torch's job, DESIGN §4; `toFlat`/`ofFlat` below give the driver that view);
  a narrow view is a per-dimension start offset into its base plus sizes.  Dimensions are
  non-negative (Python's negative `dim` is not modelled).  `math.floor(a / b)`, `math.ceil(a / b)`
  are exact integer division (operands < 2^53).
-/
namespace Ts.Shard

inductive Err where
  | valueError      -- subdivide_shard: max_shard_sz_bytes <= 0
  | typeError       -- reduce(mul, []) of an empty size list
  | indexError      -- list index out of range (sizes[dim], shard2.shard_offsets[i], …)
  | zeroDivision    -- `// sizes[dim]` or `/ slice_sz` with a zero divisor (empty shard, D16)
  | narrowError     -- torch.narrow: dim / start / length out of range
  | shapeMismatch   -- Tensor.copy_ between views of different shapes (broadcast not modelled)
  | assertionError  -- get_tensor_shape: `assert len(self.shards) > 0`
  deriving DecidableEq, Repr

/-- `ShardMetadata(shard_offsets, shard_sizes)` / `manifest.Shard(offsets, sizes)`.
`ShardMetadata.__post_init__` enforces `len(offsets) == len(sizes)` (see `Box.WF`). -/
structure Box where
  offsets : List Nat
  sizes : List Nat
  deriving DecidableEq, Repr

def Box.rank (b : Box) : Nat := b.offsets.length

/-! ## index vectors -/

/-- pointwise sum of two index vectors -/
def vadd (a b : List Nat) : List Nat := List.zipWith (· + ·) a b
/-- pointwise (truncated) difference -/
def vsub (a b : List Nat) : List Nat := List.zipWith (· - ·) a b

/-- `idx` has one coordinate per dimension and `start[k] ≤ idx[k] < start[k] + sizes[k]`. -/
def inRange : List Nat → List Nat → List Nat → Bool
  | [], [], [] => true
  | o :: os, s :: ss, i :: is => decide (o ≤ i) && decide (i < o + s) && inRange os ss is
  | _, _, _ => false

/-- `idx` is a valid local index of a tensor of shape `sizes`. -/
def inSizes : List Nat → List Nat → Bool
  | [], [] => true
  | s :: ss, i :: is => decide (i < s) && inSizes ss is
  | _, _ => false

/-- the global index `g` lies in the box -/
def Box.contains (b : Box) (g : List Nat) : Bool := inRange b.offsets b.sizes g

/-! ## torch `_check_shard_metadata_pair_overlap(shard1, shard2)` -/

/-- `for i in range(len(shard1.shard_offsets))`: two early `return False`s, `IndexError` when the
other lists are shorter (impossible between well-formed boxes of equal rank). -/
def overlapsAux : List Nat → List Nat → List Nat → List Nat → Except Err Bool
  | [], _, _, _ => .ok true
  | o1 :: os1, s1 :: ss1, o2 :: os2, s2 :: ss2 =>
      if o1 ≥ o2 + s2 then .ok false
      else if o2 ≥ o1 + s1 then .ok false
      else overlapsAux os1 ss1 os2 ss2
  | _ :: _, _, _, _ => .error .indexError

def overlaps (shard1 shard2 : Box) : Except Err Bool :=
  overlapsAux shard1.offsets shard1.sizes shard2.offsets shard2.sizes

/-! ## `_shards_get_overlap_region_wrt_saved_tensor` (sharded_tensor.py:80-127) -/

/-- one tuple `(dim, offset_for_saved_tensor, offset_for_current_tensor, length)`; `length` is a
Python int and is negative / zero for boxes that do not overlap in that dimension. -/
structure Narrow where
  dim : Nat
  srcOff : Nat
  dstOff : Nat
  len : Int
  deriving DecidableEq, Repr

/-- the loop body over `enumerate(zip(saved.offsets, current.offsets, saved.sizes, current.sizes))`;
`zip` stops at the shortest list. -/
def regionAux : Nat → List Nat → List Nat → List Nat → List Nat → List Narrow
  | k, so :: sos, co :: cos, ss :: sss, cs :: css =>
      let minRangeEnd := min (so + ss) (co + cs)
      let length : Int := (minRangeEnd : Int) - ((max co so : Nat) : Int)
      (if so > co then ⟨k, 0, so - co, length⟩ else ⟨k, co - so, 0, length⟩)
        :: regionAux (k + 1) sos cos sss css
  | _, _, _, _, _ => []

def overlapRegion (saved current : Box) : List Narrow :=
  regionAux 0 saved.offsets current.offsets saved.sizes current.sizes

/-! ## `subdivide_shard` (sharded_tensor.py:48-78) -/

/-- `reduce(mul, sizes)` for a non-empty list -/
def prod (l : List Nat) : Nat := l.foldl (· * ·) 1

/-- one element of the returned list: `torch.narrow(shard, dim, start, len)`, sub-offsets, sub-sizes -/
structure Sub where
  start : Nat
  len : Nat
  box : Box
  deriving DecidableEq, Repr

def subdivide (elemSize : Nat) (b : Box) (dim : Nat) (maxShardSzBytes : Int) :
    Except Err (List Sub) :=
  if maxShardSzBytes ≤ 0 then .error .valueError else
  if b.sizes = [] then .error .typeError else
  match b.sizes[dim]? with
  | none => .error .indexError
  | some sz =>
    if sz = 0 then .error .zeroDivision else
    let sliceSz := prod b.sizes / sz * elemSize
    if sliceSz = 0 then .error .zeroDivision else
    let chunkLength := max (maxShardSzBytes.toNat / sliceSz) 1
    let nChunks := (sz + chunkLength - 1) / chunkLength
    match b.offsets[dim]? with
    | none => .error .indexError
    | some off =>
      .ok ((List.range nChunks).map fun i =>
        let start := i * chunkLength
        let length := min ((i + 1) * chunkLength) sz - i * chunkLength
        { start := start, len := length,
          box := { offsets := b.offsets.set dim (off + start), sizes := b.sizes.set dim length } })

/-! ## tensors, narrow views, copy -/

/-- a dense tensor: shape and value at each local index (only indices with `inSizes sizes i` matter) -/
structure Tensor (α : Type) where
  sizes : List Nat
  get : List Nat → α

/-- a view obtained from a base tensor by successive `torch.narrow`s:
element `v` of the view is element `start + v` of the base. -/
structure View where
  start : List Nat
  sizes : List Nat
  deriving DecidableEq, Repr

/-- the tensor itself seen as a view -/
def View.full (sizes : List Nat) : View := ⟨List.replicate sizes.length 0, sizes⟩

/-- `torch.narrow(view, dim, start, length)`: requires `dim < ndim`, `length ≥ 0`,
`start + length ≤ size[dim]`. -/
def View.narrow (v : View) (dim start : Nat) (len : Int) : Except Err View :=
  match v.start[dim]?, v.sizes[dim]? with
  | some st, some sz =>
    if len < 0 ∨ (start : Int) + len > (sz : Int) then .error .narrowError
    else .ok ⟨v.start.set dim (st + start), v.sizes.set dim len.toNat⟩
  | _, _ => .error .narrowError

def View.contains (v : View) (j : List Nat) : Bool := inRange v.start v.sizes j

/-- `_OverlappingRegion.get_views` (sharded_tensor.py:292-298): narrow source and destination
dimension by dimension. -/
def getViews : List Narrow → View → View → Except Err (View × View)
  | [], sv, dv => .ok (sv, dv)
  | n :: r, sv, dv =>
    match sv.narrow n.dim n.srcOff n.len with
    | .error e => .error e
    | .ok sv' =>
      match dv.narrow n.dim n.dstOff n.len with
      | .error e => .error e
      | .ok dv' => getViews r sv' dv'

/-- the contents of a view as a tensor of its own (`contiguous()` of a narrowed tensor) -/
def Tensor.ofView {α} (t : Tensor α) (v : View) : Tensor α :=
  ⟨v.sizes, fun i => t.get (vadd v.start i)⟩

/-- `tensor_copy(dst_view, src_view)` = `dst_view.copy_(src_view)`: every element of `dst` inside
the destination view receives the element of `src` at the same view position; the rest of `dst`
is untouched. -/
def copy {α} (dst : Tensor α) (dv : View) (src : Tensor α) (sv : View) : Except Err (Tensor α) :=
  if sv.sizes ≠ dv.sizes then .error .shapeMismatch
  else .ok ⟨dst.sizes, fun j =>
    if dv.contains j then src.get (vadd sv.start (vsub j dv.start)) else dst.get j⟩

/-! ## prepare_write (sharded_tensor.py:129-172) -/

/-- a local shard of a ShardedTensor (`Shard(tensor, metadata)`); also one persisted shard
(`manifest.Shard(offsets, sizes, tensor)` + the bytes it points to, deserialised). -/
structure Shard (α : Type) where
  box : Box
  tensor : Tensor α

def writeSubs {α} (t : Tensor α) (dim : Nat) : List Sub → Except Err (List (Shard α))
  | [] => .ok []
  | sub :: r =>
    match (View.full t.sizes).narrow dim sub.start sub.len with
    | .error e => .error e
    | .ok v =>
      match writeSubs t dim r with
      | .error e => .error e
      | .ok out => .ok (⟨sub.box, t.ofView v⟩ :: out)

/-- the body of the `for shard in obj.local_shards()` loop: subdivide, persist each sub-view -/
def writeShard {α} (elemSize dim : Nat) (maxShardSzBytes : Int) (l : Shard α) :
    Except Err (List (Shard α)) :=
  match subdivide elemSize l.box dim maxShardSzBytes with
  | .error e => .error e
  | .ok subs => writeSubs l.tensor dim subs

/-- `prepare_write` followed by executing its write requests: the persisted shards, in entry order -/
def prepareWrite {α} (elemSize dim : Nat) (maxShardSzBytes : Int) :
    List (Shard α) → Except Err (List (Shard α))
  | [] => .ok []
  | l :: r =>
    match writeShard elemSize dim maxShardSzBytes l with
    | .error e => .error e
    | .ok a =>
      match prepareWrite elemSize dim maxShardSzBytes r with
      | .error e => .error e
      | .ok b => .ok (a ++ b)

/-! ## prepare_read + ShardedTensorBufferConsumer (sharded_tensor.py:197-323) -/

/-- one (local shard, persisted shard) pair: overlap test (local first, as the code calls it),
region, views, copy. `t` is the current contents of the local shard's tensor. -/
def loadOne {α} (s : Shard α) (d : Box) (t : Tensor α) : Except Err (Tensor α) :=
  match overlaps d s.box with
  | .error e => .error e
  | .ok false => .ok t
  | .ok true =>
    match getViews (overlapRegion s.box d) (View.full s.tensor.sizes) (View.full t.sizes) with
    | .error e => .error e
    | .ok (sv, dv) => copy t dv s.tensor sv

/-- all persisted shards into one local shard. The code iterates persisted shards in the outer loop
and local shards inside; local shard tensors are distinct objects, so the per-local-shard order of
copies is the entry order, which is what this fold performs. -/
def loadInto {α} (d : Box) : List (Shard α) → Tensor α → Except Err (Tensor α)
  | [], t => .ok t
  | s :: r, t =>
    match loadOne s d t with
    | .error e => .error e
    | .ok t' => loadInto d r t'

/-- `prepare_read(entry, obj_out : ShardedTensor)` + executing every read request -/
def reshard {α} (saved : List (Shard α)) : List (Shard α) → Except Err (List (Shard α))
  | [] => .ok []
  | d :: r =>
    match loadInto d.box saved d.tensor with
    | .error e => .error e
    | .ok t =>
      match reshard saved r with
      | .error e => .error e
      | .ok out => .ok (⟨d.box, t⟩ :: out)

/-- `prepare_read(entry, obj_out : torch.Tensor)`: one local shard at the origin (lines 214-224) -/
def denseBox (sizes : List Nat) : Box := ⟨List.replicate sizes.length 0, sizes⟩

def loadDense {α} (saved : List (Shard α)) (t : Tensor α) : Except Err (Tensor α) :=
  loadInto (denseBox t.sizes) saved t

/-- which persisted shards write destination element `j` of local shard `d` (ghost observation:
`j` lies in the destination view of that pair) -/
def wrote (s d : Box) (dsizes : List Nat) (j : List Nat) : Bool :=
  match overlaps d s with
  | .ok true =>
    match getViews (overlapRegion s d) (View.full s.sizes) (View.full dsizes) with
    | .ok (_, dv) => dv.contains j
    | .error _ => false
  | _ => false

/-! ## `ShardedTensorEntry.get_tensor_shape` (manifest.py:142-168)

It fixes the shape of the dense tensor that `prepare_read(entry, obj_out=None)` creates
(`empty_tensor_from_sharded_tensor_entry`). `_get_global_shape` (sharded_tensor.py:174-182) only
feeds a log warning and is not modelled. -/

/-- `all(x >= y for x, y in zip(candidate_shape, shape))` -/
def geAll : List Nat → List Nat → Bool
  | x :: xs, y :: ys => decide (x ≥ y) && geAll xs ys
  | _, _ => true

/-- `[size + offset for size, offset in zip(sizes, offsets)]` -/
def farCorner (b : Box) : List Nat := vadd b.sizes b.offsets

def tensorShape : List Box → Except Err (List Nat)
  | [] => .error .assertionError
  | b0 :: rest =>
    .ok (rest.foldl (fun shape b => if geAll (farCorner b) shape then farCorner b else shape)
          (farCorner b0))

/-! ## row-major flat view for the driver (torch contiguous layout; trusted, DESIGN §4) -/

/-- all indices of a shape in row-major order -/
def indices : List Nat → List (List Nat)
  | [] => [[]]
  | n :: ns => (List.range n).flatMap fun i => (indices ns).map (i :: ·)

def linIdx : List Nat → List Nat → Nat
  | _ :: ss, i :: is => i * prod ss + linIdx ss is
  | _, _ => 0

def Tensor.toFlat {α} (t : Tensor α) : List α := (indices t.sizes).map t.get

def Tensor.ofFlat {α} (sizes : List Nat) (data : List α) (dflt : α) : Tensor α :=
  ⟨sizes, fun i => match data[linIdx sizes i]? with | some v => v | none => dflt⟩

end Ts.Shard
