/-
  TsModel.Storage — byte-level model of `storage_plugins/fs.py` (FSStoragePlugin.write/read)
  and of `memoryview_stream.py` (MemoryviewStream), plus an independent `BytesIO` specification.

  Conventions: a byte string is `List Nat` (elements are bytes; nothing below depends on `< 256`),
  a store is a function-free association list keyed by the *joined* path string.
-/
namespace Ts.Storage

abbrev Bytes := List Nat

inductive Err where
  | fileNotFound      -- open() of a missing path (FileNotFoundError)
  | valueError        -- ValueError raised by seek()
  deriving DecidableEq, Repr

/-- The file store: newest binding first; `write` replaces the whole object (`open(path, "wb+")`). -/
structure FS where
  files : List (String × Bytes)
  deriving Repr

def FS.empty : FS := ⟨[]⟩

def FS.lookup (fs : FS) (p : String) : Option Bytes :=
  (fs.files.find? (fun e => e.1 == p)).map (·.2)

/-- `FSStoragePlugin.write`: create-or-truncate, then write the whole buffer. -/
def FS.write (fs : FS) (p : String) (b : Bytes) : FS :=
  ⟨(p, b) :: fs.files.filter (fun e => !(e.1 == p))⟩

/-- Python `f.seek(a); f.read(n)` on a regular file opened "rb": `n < 0` reads to EOF. -/
def seekRead (b : Bytes) (a : Nat) (n : Int) : Bytes :=
  if n < 0 then b.drop a else (b.drop a).take n.toNat

/-- `FSStoragePlugin.read`: whole file when `byte_range is None`, else seek+read(size). -/
def FS.read (fs : FS) (p : String) (range : Option (Nat × Nat)) : Except Err Bytes :=
  match fs.lookup p with
  | none => .error .fileNotFound
  | some b =>
    match range with
    | none => .ok b
    | some (lo, hi) => .ok (seekRead b lo ((hi : Int) - (lo : Int)))

/-- Python slice `b[lo:hi]` for non-negative bounds. -/
def slice (b : Bytes) (lo hi : Nat) : Bytes := (b.drop lo).take (hi - lo)

/-! ## MemoryviewStream (memoryview_stream.py), line by line -/

structure MvStream where
  mv  : Bytes
  pos : Nat
  deriving Repr, DecidableEq

def MvStream.init (b : Bytes) : MvStream := ⟨b, 0⟩

/-- `read(size)`; `none` models `size=None`. Returns (new state, bytes). -/
def MvStream.read (s : MvStream) (size : Option Int) : MvStream × Bytes :=
  let size : Int := match size with | none => -1 | some n => n
  let size : Int := if size < 0 then (s.mv.length : Int) else size
  if s.mv.length ≤ s.pos then (s, [])
  else
    let newpos := min s.mv.length (s.pos + size.toNat)
    ({ s with pos := newpos }, (s.mv.drop s.pos).take (newpos - s.pos))

/-- `seek(pos, whence)`. -/
def MvStream.seek (s : MvStream) (pos : Int) (whence : Int) : Except Err (MvStream × Nat) :=
  if whence = 0 then
    if pos < 0 then .error .valueError
    else .ok ({ s with pos := pos.toNat }, pos.toNat)
  else if whence = 1 then
    let p := (max 0 ((s.pos : Int) + pos)).toNat
    .ok ({ s with pos := p }, p)
  else if whence = 2 then
    let p := (max 0 ((s.mv.length : Int) + pos)).toNat
    .ok ({ s with pos := p }, p)
  else .error .valueError

def MvStream.tell (s : MvStream) : Nat := s.pos

/-! ## BytesIO specification (CPython `Modules/_io/bytesio.c`, read-only use) -/

structure BytesIO where
  buf : Bytes
  pos : Nat
  deriving Repr, DecidableEq

def BytesIO.init (b : Bytes) : BytesIO := ⟨b, 0⟩

/-- `_io_BytesIO_read_impl`: `n = len - pos` if size is None/negative or larger; `n < 0 → 0`. -/
def BytesIO.read (s : BytesIO) (size : Option Int) : BytesIO × Bytes :=
  let avail : Int := (s.buf.length : Int) - (s.pos : Int)
  let n : Int := match size with
    | none => avail
    | some k => if k < 0 ∨ k > avail then avail else k
  let n : Nat := if n < 0 then 0 else n.toNat
  ({ s with pos := s.pos + n }, slice s.buf s.pos (s.pos + n))

/-- `_io_BytesIO_seek_impl`. -/
def BytesIO.seek (s : BytesIO) (pos : Int) (whence : Int) : Except Err (BytesIO × Nat) :=
  if whence = 0 then
    if pos < 0 then .error .valueError else .ok ({ s with pos := pos.toNat }, pos.toNat)
  else if whence = 1 ∨ whence = 2 then
    let base : Int := if whence = 1 then s.pos else s.buf.length
    let p : Int := base + pos
    let p : Nat := if p < 0 then 0 else p.toNat
    .ok ({ s with pos := p }, p)
  else .error .valueError

def BytesIO.tell (s : BytesIO) : Nat := s.pos

/-! ## Call sequences (what the property quantifies over) -/

inductive Call where
  | read (size : Option Int)
  | seek (pos whence : Int)
  | tell
  deriving Repr, DecidableEq

inductive Out where
  | bytes (b : Bytes)
  | pos (n : Nat)
  | err (e : Err)
  deriving Repr, DecidableEq

def MvStream.step (s : MvStream) : Call → MvStream × Out
  | .read n => let (s', b) := s.read n; (s', .bytes b)
  | .seek p w => match s.seek p w with
      | .ok (s', n) => (s', .pos n)
      | .error e => (s, .err e)
  | .tell => (s, .pos s.tell)

def BytesIO.step (s : BytesIO) : Call → BytesIO × Out
  | .read n => let (s', b) := s.read n; (s', .bytes b)
  | .seek p w => match s.seek p w with
      | .ok (s', n) => (s', .pos n)
      | .error e => (s, .err e)
  | .tell => (s, .pos s.tell)

def MvStream.run (s : MvStream) : List Call → List Out
  | [] => []
  | c :: cs => let (s', o) := s.step c; o :: MvStream.run s' cs

def BytesIO.run (s : BytesIO) : List Call → List Out
  | [] => []
  | c :: cs => let (s', o) := s.step c; o :: BytesIO.run s' cs

end Ts.Storage

/-! ## The write path down to write(2): short writes

`FSStoragePlugin.write` opens the file with `aiofiles.open(path, "wb+")` — a *buffered* binary writer — and calls
`write(buf)` once, then closes.  CPython's `BufferedWriter` hands the data to the raw file and **loops**
(`_bufferedwriter_flush_unlocked` / the large-write path of `_io__Buffered_write_impl`): each raw `write(2)` may
accept fewer bytes than offered (disk filling up, quota, `RLIMIT_FSIZE`, > 2 GiB buffers), the writer advances by
the accepted count and tries again until everything is written or the OS reports an error, which is raised.
An *unbuffered* file (`buffering=0`, a raw `FileIO`) performs one `write(2)` and returns its count. -/
namespace Ts.Storage

/-- what one `write(2)` call does when `offered` bytes are offered at file offset `off` -/
inductive OsWrite where
  | accepted (n : Nat)      -- wrote the first `n` of the offered bytes (1 ≤ n ≤ offered for a lawful OS)
  | failed                  -- -1 with errno (EFBIG, ENOSPC, EDQUOT, EIO …)
  deriving DecidableEq, Repr

/-- the operating system as seen by one open file: any function of (file offset, bytes offered) -/
abbrev Os := Nat → Nat → OsWrite

/-- offered at least one byte, an OS never accepts nothing or more than it was offered -/
def Os.Lawful (os : Os) : Prop := ∀ off k n, 1 ≤ k → os off k = .accepted n → 1 ≤ n ∧ n ≤ k

inductive WErr where
  | osError           -- the raw write failed: BufferedWriter / FileIO raise OSError
  deriving DecidableEq, Repr

/-- `BufferedWriter.write(data); close()` on a file just truncated: loop until all bytes are accepted or the OS fails.
Returns the file's final content in both cases (`.error` carries what was written before the failure: the file
stays on disk). `fuel` bounds the loop (each lawful step accepts ≥ 1 byte, so `data.length + 1` suffices). -/
def bufferedWrite (os : Os) : Nat → Bytes → Bytes → Except (WErr × Bytes) Bytes
  | _, file, [] => .ok file
  | 0, file, _ :: _ => .error (.osError, file)
  | fuel + 1, file, d :: ds =>
    match os file.length (d :: ds).length with
    | .failed => .error (.osError, file)
    | .accepted n => bufferedWrite os fuel (file ++ (d :: ds).take n) ((d :: ds).drop n)

/-- `FSStoragePlugin.write` down to the OS: buffered writer on an empty (truncated) file -/
def pluginWrite (os : Os) (data : Bytes) : Except (WErr × Bytes) Bytes :=
  bufferedWrite os (data.length + 1) [] data

/-- one raw `FileIO.write` whose return value nobody looks at (what `buffering=0` would do) -/
def rawWriteUnchecked (os : Os) (data : Bytes) : Except (WErr × Bytes) Bytes :=
  match data with
  | [] => .ok []
  | _ =>
    match os 0 data.length with
    | .failed => .error (.osError, [])
    | .accepted n => .ok (data.take n)

/-- the OS of a process whose file-size limit is `limit` bytes (`RLIMIT_FSIZE`, SIGXFSZ ignored): writes are cut at the
limit, and a write starting at or beyond it fails with EFBIG -/
def osLimit (limit : Nat) : Os := fun off k =>
  if off ≥ limit then .failed else .accepted (min k (limit - off))

end Ts.Storage
