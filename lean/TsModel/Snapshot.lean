/-
  TsModel.Snapshot — the data plane of one rank's `Snapshot.take` / `restore`, composed from the
  kernels:  leaf -> write requests (`io_preparer.prepare_write`: plain / chunked tensor / object)
            -> slab placement (`batch_write_requests`)  -> storage
            -> manifest entries (location, byte range, chunk table)
            -> reads -> `tensor_from_memoryview` / chunk re-assembly (`prepare_read` + consumers).

  Mirrors snapshot.py `_take_impl` (lines 599-630: prepare_write per flattened leaf, then
  batch_write_requests) and `_get_state_dict_for_manifest` (prepare_read per entry, consumers).
  Flatten/inflate (C15), the metadata document (C14), who-loads-what (C07), scheduling (C10/C11) and
  location naming (C05) are separate models; this file is about bytes.
-/
import TsModel.Serial
import TsModel.Chunk
import TsModel.Slab

namespace Ts.Snapshot
open Ts.Storage (Bytes slice)
open Ts.Chunk (planTensorWrite pieces pieceBytes pieceRange rowBytes)
open Ts.Slab (WReq Place Loc place)

/-- The knobs that influence the data plane. -/
structure Cfg where
  chunk : Nat        -- get_max_chunk_size_bytes()
  slab : Nat         -- get_slab_size_threshold_bytes()
  batching : Bool    -- not is_batching_disabled()
  deriving Repr

/-- A flattened leaf that needs storage (primitives are inlined in the manifest and never get here). -/
inductive Leaf where
  | tensor (t : Ts.Serial.Tensor)   -- buffer-protocol dtype: raw row-major export
  | blob (payload : Bytes)          -- object or torch_save tensor: the codec's output, opaque here
  deriving Repr, DecidableEq

/-- Identity of a write unit: index of the leaf and, for a chunk, its dim-0 piece (offset, size). -/
abbrev UnitId := Nat × Option (Nat × Nat)

inductive Err where
  | chunk (e : Ts.Chunk.Err)
  | unknownDtype
  | serial (e : Ts.Serial.Err)
  | slab (e : Ts.Slab.Err)
  | missing                  -- a location named by the manifest is not in storage
  | badEntry
  deriving Repr, DecidableEq

/-- `prepare_write` for one leaf: its write requests, each with the bytes its stager exports.
Plain tensor: one request; chunked tensor: one per dim-0 piece (`ChunkedTensorIOPreparer.prepare_write`);
object: one request that the slab batcher never touches (`ObjectBufferStager`). -/
def leafWrites (cfg : Cfg) (i : Nat) : Leaf → Except Err (List (WReq UnitId × Bytes))
  | .blob p => .ok [(⟨(i, none), false, false, false, p.length⟩, p)]
  | .tensor t =>
    match Ts.Serial.torchItemsize t.dtype, Ts.Serial.asMemoryview t with
    | none, _ => .error .unknownDtype
    | _, .error e => .error (.serial e)
    | some es, .ok b =>            -- `b` = what `tensor_as_memoryview` exports for the whole tensor
      match planTensorWrite t.shape es cfg.chunk with
      | .error e => .error (.chunk e)
      | .ok none => .ok [(⟨(i, none), true, true, false, Ts.Chunk.numel t.shape * es⟩, b)]
      | .ok (some _) =>
        match pieces t.shape es cfg.chunk with
        | .error e => .error (.chunk e)
        | .ok ps => .ok (ps.map (fun p =>
            (⟨(i, some p), true, true, false, p.2 * rowBytes t.shape es⟩, pieceBytes t.shape es b p)))

/-- `prepare_write` for every flattened leaf, in order (`for logical_path, obj in flattened.items()`):
each leaf with its own write requests. -/
def perLeaf (cfg : Cfg) : Nat → List Leaf → Except Err (List (Leaf × List (WReq UnitId × Bytes)))
  | _, [] => .ok []
  | i, l :: ls =>
    match leafWrites cfg i l, perLeaf cfg (i + 1) ls with
    | .ok a, .ok b => .ok ((l, a) :: b)
    | .error e, _ => .error e
    | _, .error e => .error e

/-- All write requests of the rank, in leaf order. -/
def allWrites (pw : List (Leaf × List (WReq UnitId × Bytes))) : List (WReq UnitId × Bytes) :=
  (pw.map (·.2)).flatten

/-- Slab placement of the requests (`batch_write_requests`), or none at all when batching is disabled. -/
def placements (cfg : Cfg) (wb : List (WReq UnitId × Bytes)) : List (Option Place) :=
  if cfg.batching then place cfg.slab (wb.map (·.1)) 0 0 else wb.map (fun _ => none)

/-- What the manifest records for one unit after relocation: location and byte range. The location type `L`
is a parameter: `Loc UnitId` for one rank's own storage view, `Nat × Loc UnitId` (writer rank, location) for the
job-wide store of `TsModel/World.lean`. -/
abbrev ULoc (L : Type) := L × Option (Nat × Nat)

abbrev UnitLoc := ULoc (Loc UnitId)

def unitLoc (r : WReq UnitId) : Option Place → UnitLoc
  | none => (.orig r.path, none)
  | some p => (.slab p.slab, some (p.lo, p.hi))

/-- Manifest entry of a leaf (TensorEntry / ChunkedTensorEntry / ObjectEntry), data-plane fields only. -/
inductive LeafEntryG (L : Type) where
  | tensor (dtype : String) (shape : List Nat) (u : ULoc L)
  | chunked (dtype : String) (shape : List Nat) (chunks : List ((Nat × Nat) × ULoc L))  -- (dim-0 offset, size)
  | blob (u : ULoc L)
  deriving Repr

abbrev LeafEntry := LeafEntryG (Loc UnitId)

/-- The entry recorded for a leaf whose write units are recorded at the locations `units` (generic in the
location type; `entryOfLeaf` below is the one-rank instance, `World.worldEntry` the job-wide one). -/
def entryOfUnits {L : Type} : Leaf → List ((WReq UnitId × Bytes) × ULoc L) → Except Err (LeafEntryG L)
  | .blob _, [e] => .ok (.blob e.2)
  | .blob _, _ => .error .badEntry
  | .tensor _, [] => .error .badEntry
  | .tensor t, e :: es =>
    match e.1.1.path.2, es with
    | none, [] => .ok (.tensor t.dtype t.shape e.2)
    | none, _ :: _ => .error .badEntry
    | some _, _ =>
      .ok (.chunked t.dtype t.shape ((e :: es).map (fun x => (x.1.1.path.2.getD (0, 0), x.2))))

/-- The entry recorded for a leaf whose write units got the placements `units`. -/
def entryOfLeaf : Leaf → List ((WReq UnitId × Bytes) × Option Place) → Except Err LeafEntry
  | .blob _, [e] => .ok (.blob (unitLoc e.1.1 e.2))
  | .blob _, _ => .error .badEntry
  | .tensor _, [] => .error .badEntry
  | .tensor t, e :: es =>
    match e.1.1.path.2, es with
    | none, [] => .ok (.tensor t.dtype t.shape (unitLoc e.1.1 e.2))
    | none, _ :: _ => .error .badEntry
    | some _, _ =>
      .ok (.chunked t.dtype t.shape ((e :: es).map (fun x => (x.1.1.path.2.getD (0, 0), unitLoc x.1.1 x.2))))

/-- Walk the leaves in order, giving each its share of the placement list. -/
def entriesWalk : List (Leaf × List (WReq UnitId × Bytes)) → List (Option Place) → Except Err (List LeafEntry)
  | [], _ => .ok []
  | (l, ws) :: rest, pl =>
    match entryOfLeaf l (ws.zip (pl.take ws.length)), entriesWalk rest (pl.drop ws.length) with
    | .ok e, .ok es => .ok (e :: es)
    | .error e, _ => .error e
    | _, .error e => .error e

/-- Reading one recorded `(location, byte range)` from storage (`StoragePlugin.read`). -/
def readUnit {L : Type} (store : L → Option Bytes) (u : ULoc L) : Except Err Bytes :=
  match store u.1 with
  | none => .error .missing
  | some f => match u.2 with
    | none => .ok f
    | some (lo, hi) => .ok (slice f lo hi)

def mapE {α β : Type} (f : α → Except Err β) : List α → Except Err (List β)
  | [] => .ok []
  | x :: xs => match f x, mapE f xs with
    | .ok y, .ok ys => .ok (y :: ys)
    | .error e, _ => .error e
    | _, .error e => .error e

/-- `prepare_read` + consumers for one entry, with the unit reader `rd es shape u` as a parameter (plain
ranged read, or the tiled read of `read_object(memory_budget_bytes=…)`). Objects are never tiled. A chunked
tensor is re-assembled by writing every chunk's bytes at its dim-0 position of the output tensor, in the
completion order `order` of the chunk consumers (any permutation of the chunk list); `Slab.stage` is that
"write each piece at its range" loop. -/
def restoreLeafWith {L : Type} (store : L → Option Bytes) (rd : Nat → List Nat → ULoc L → Except Err Bytes)
    (order : List ((Nat × Nat) × ULoc L) → List ((Nat × Nat) × ULoc L)) :
    LeafEntryG L → Except Err Leaf
  | .blob u => (readUnit store u).map .blob
  | .tensor dtype shape u =>
    match Ts.Serial.torchItemsize dtype with
    | none => .error .unknownDtype
    | some es =>
      match rd es shape u with
      | .error e => .error e
      | .ok buf => match Ts.Serial.fromMemoryview dtype shape buf with
        | .ok t => .ok (.tensor t)
        | .error e => .error (.serial e)
  | .chunked dtype shape chunks =>
    match Ts.Serial.torchItemsize dtype with
    | none => .error .unknownDtype
    | some es =>
      match mapE (fun c => (rd es (c.1.2 :: (Ts.Chunk.normShape shape).2) c.2).map (fun b => (pieceRange shape es c.1, b)))
          (order chunks) with
      | .error e => .error e
      | .ok done =>
        match Ts.Slab.stage (Ts.Chunk.numel shape * es) done with
        | .error e => .error (.slab e)
        | .ok buf => match Ts.Serial.fromMemoryview dtype shape buf with
          | .ok t => .ok (.tensor t)
          | .error e => .error (.serial e)

/-- The output tensor `prepare_read` works on (`can_load_inplace`, tensor.py 103-104 / chunked_tensor.py 117-120): the
caller's tensor when its dtype and shape equal the entry's, else a fresh `empty_tensor_from_entry` (zeros here). Only
its bytes matter below. -/
def destBytes (dtype : String) (shape : List Nat) (es : Nat) (dst : Option Ts.Serial.Tensor) : Bytes :=
  match dst with
  | some t => if t.dtype = dtype ∧ t.shape = shape then t.bytes else List.replicate (Ts.Chunk.numel shape * es) 0
  | none => List.replicate (Ts.Chunk.numel shape * es) 0

/-- `restoreLeafWith` with the restore target made explicit: `dst = none` (allocate), a pre-allocated tensor of the
entry's dtype and shape (filled in place: a plain tensor is overwritten as a whole by `copy_`, a chunked one chunk by
chunk through dim-0 views, in completion order), or a mismatching tensor (replaced by a fresh one). -/
def restoreLeafInto {L : Type} (store : L → Option Bytes) (rd : Nat → List Nat → ULoc L → Except Err Bytes)
    (order : List ((Nat × Nat) × ULoc L) → List ((Nat × Nat) × ULoc L)) (dst : Option Ts.Serial.Tensor) :
    LeafEntryG L → Except Err Leaf
  | .blob u => (readUnit store u).map .blob
  | .tensor dtype shape u =>
    match Ts.Serial.torchItemsize dtype with
    | none => .error .unknownDtype
    | some es =>
      match rd es shape u with
      | .error e => .error e
      | .ok buf => match Ts.Serial.fromMemoryview dtype shape buf with
        | .ok t => .ok (.tensor t)            -- `dst.copy_(loaded)`: every element of the destination is overwritten
        | .error e => .error (.serial e)
  | .chunked dtype shape chunks =>
    match Ts.Serial.torchItemsize dtype with
    | none => .error .unknownDtype
    | some es =>
      match mapE (fun c => (rd es (c.1.2 :: (Ts.Chunk.normShape shape).2) c.2).map (fun b => (pieceRange shape es c.1, b)))
          (order chunks) with
      | .error e => .error e
      | .ok done =>
        match Ts.Slab.stageOnto (destBytes dtype shape es dst) done with
        | .error e => .error (.slab e)
        | .ok buf => match Ts.Serial.fromMemoryview dtype shape buf with
          | .ok t => .ok (.tensor t)
          | .error e => .error (.serial e)

/-- `restore`: every unit is read with one ranged read. -/
def restoreLeaf {L : Type} (store : L → Option Bytes) (order : List ((Nat × Nat) × ULoc L) → List ((Nat × Nat) × ULoc L)) :=
  restoreLeafWith store (fun _ _ u => readUnit store u) order

/-- `prepare_read_tiled` + `TensorBufferConsumer`s on the flattened output: the unit's stored range is read in
tiles of at most `limit` bytes (`Chunk.tile`) which are laid out one after the other. -/
def readTiled {L : Type} (store : L → Option Bytes) (limit : Nat) (es : Nat) (shape : List Nat) (u : ULoc L) : Except Err Bytes :=
  match Ts.Chunk.tile shape true es limit u.2 with
  | .error e => .error (.chunk e)
  | .ok tiles => (mapE (fun t => readUnit store (u.1, some (t.lo, t.hi))) tiles).map List.flatten

/-- `read_object(path, memory_budget_bytes = limit)` for a tensor / chunked-tensor / object entry. -/
def readObjectBudget {L : Type} (store : L → Option Bytes) (limit : Nat)
    (order : List ((Nat × Nat) × ULoc L) → List ((Nat × Nat) × ULoc L)) :=
  restoreLeafWith store (readTiled store limit) order

end Ts.Snapshot
