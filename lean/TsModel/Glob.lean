/-
  TsModel.Glob — `fnmatch.fnmatch(path, pattern)` as used by `Snapshot._calculate_replicated_entries`
  (snapshot.py 637-670): which flattened paths a replication glob selects.

  Python's `fnmatch.translate`: `*` matches any run of characters (including '/'), consecutive `*` are one, `?`
  matches exactly one character, `[seq]` / `[!seq]` one character in / not in `seq`, an unclosed `[` is a literal,
  every other character matches itself; the whole name must match (`\Z`), DOTALL.  `os.path.normcase` is the identity
  on POSIX.  Character classes are modelled in their plain form only (no ranges `-`, no backslash, no leading `]`,
  `^` or `[`, non-empty): everything else is reported as `none` (outside the model) by `parse`.
-/
namespace Ts.Glob

abbrev Str := List Nat

inductive Pat where
  | lit (c : Nat)
  | any                       -- ?
  | star                      -- * (a run of them)
  | set (neg : Bool) (cs : List Nat)
  deriving DecidableEq, Repr

/-- does some suffix of the string satisfy `k`? -/
def anySuffix (k : Str → Bool) : Str → Bool
  | [] => k []
  | c :: t => k (c :: t) || anySuffix k t

/-- full match of a parsed pattern -/
def matchPat : List Pat → Str → Bool
  | [] => fun s => s.isEmpty
  | .star :: ps => anySuffix (matchPat ps)
  | .any :: ps => fun s => match s with | [] => false | _ :: t => matchPat ps t
  | .lit c :: ps => fun s => match s with | [] => false | d :: t => c == d && matchPat ps t
  | .set neg cs :: ps => fun s => match s with | [] => false | d :: t => (cs.contains d != neg) && matchPat ps t

/-- characters that make a bracket expression leave the modelled fragment -/
def plainClassChar (c : Nat) : Bool := c != 45 && c != 92 && c != 91 && c != 93      -- not - \ [ ]

/-- `[` seen, `rest` follows: a plain class `cs]` (optionally negated with `!`), an unclosed bracket (literal `[`), or
something outside the model -/
def parseClass (rest : Str) : Option (Pat × Str) :=
  if !(rest.contains 93) then some (.lit 91, rest)          -- no `]` anywhere: '[' is a literal
  else
    let (neg, body) := match rest with
      | 33 :: r => (true, r)                                -- '!'
      | r => (false, r)
    let cs := body.takeWhile (· != 93)
    let after := (body.dropWhile (· != 93)).drop 1
    if cs.isEmpty || !(cs.all plainClassChar) || cs.head? == some 94 || cs.head? == some 33 then none
    else some (.set neg cs, after)

/-- `fnmatch.translate` up to the regular expression: the parsed pattern (fuel = pattern length) -/
def parseAux : Nat → Str → Option (List Pat)
  | _, [] => some []
  | 0, _ :: _ => none
  | fuel + 1, 42 :: r => (parseAux fuel r).map (fun ps => match ps with | .star :: _ => ps | _ => .star :: ps)   -- '*'
  | fuel + 1, 63 :: r => (parseAux fuel r).map (Pat.any :: ·)                                                   -- '?'
  | fuel + 1, 91 :: r =>                                                                                         -- '['
    match parseClass r with
    | none => none
    | some (p, after) => if after.length ≤ r.length then (parseAux fuel after).map (p :: ·) else none
  | fuel + 1, c :: r => (parseAux fuel r).map (Pat.lit c :: ·)

def parse (pat : Str) : Option (List Pat) := parseAux pat.length pat

/-- `fnmatch.fnmatch(name, pat)`; `none` = the pattern is outside the modelled fragment -/
def fnmatch (name pat : Str) : Option Bool := (parse pat).map (fun ps => matchPat ps name)

/-- `any(fnmatch.fnmatch(path, p) for p in replicated)` -/
def matchesAny (globs : List Str) (path : Str) : Option Bool :=
  globs.foldr (fun g acc => match fnmatch path g, acc with
    | some a, some b => some (a || b)
    | _, _ => none) (some false)

/-- one rank's `replicated_paths` before the all-ranks filter: its glob-matched, non-sharded paths, in order
(`none` = some glob is outside the model) -/
def candM (globs : List Str) (r : List (Str × Bool)) : Option (List Str) :=
  r.foldr (fun pv acc => match matchesAny globs pv.1, acc with
    | some m, some l => some (if m && !pv.2 then pv.1 :: l else l)
    | _, _ => none) (some [])

def allCands (globs : List Str) (perRank : List (List (Str × Bool))) : Option (List (List Str)) :=
  perRank.foldr (fun r acc => match candM globs r, acc with
    | some c, some l => some (c :: l)
    | _, _ => none) (some [])

/-- `_calculate_replicated_entries`: a path of this rank is replicated iff it matches a glob, its value is not sharded
and every rank reported it (path_count == world_size). `perRank` = each rank's list of (path, sharded?). -/
def replicatedPaths (globs : List Str) (perRank : List (List (Str × Bool))) : Option (List Str) :=
  match perRank with
  | [] => some []
  | r0 :: _ =>
    match allCands globs perRank, candM globs r0 with
    | some cands, some c0 => some (c0.filter (fun p => (cands.map (fun c => c.count p)).sum == perRank.length))
    | _, _ => none

end Ts.Glob
