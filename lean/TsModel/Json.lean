/-
  TsModel.Json — the JSON layer under `SnapshotMetadata.to_yaml` / `from_yaml` (manifest.py:442-475).

  * writer  = CPython `json.dumps(obj, sort_keys=False, indent=2)` (ensure_ascii=True):
              `json/encoder.py` `py_encode_basestring_ascii` / `_make_iterencode`
  * reader  = CPython 3.12 `json.loads` (strict=True): `Modules/_json.c` `scanstring_unicode`,
              `_parse_object_unicode`, `_parse_array_unicode`, `_match_number_unicode`,
              `json/decoder.py` `JSONDecoder.decode`

  A Python `str` is a `List Nat` of code points (`< 0x110000`, surrogates allowed). A JSON text is
  a `List Nat` of code points as well (what `to_yaml` emits is pure ASCII, so the UTF-8 step in
  `snapshot.py:_write_snapshot_metadata/_read_snapshot_metadata` is the identity on it).

  Floats never occur: every field that `asdict(SnapshotMetadata)` can reach is `str`, `int`, `bool`,
  `None`, a list or a dict of those (floats are stored as base64 text by `PrimitiveEntry`), so the
  value AST has no float constructor and the reader answers `Err.float` ("outside the modelled
  subset") on a float / NaN / Infinity literal.
-/
namespace Ts.Json

/-- A Python `str`: code points. -/
abbrev Str := List Nat

inductive Err where
  | eof          -- input ended inside a value, a string, an escape or a literal
  | badChar      -- unexpected character ("Expecting value", "Expecting ',' delimiter", …)
  | badEscape    -- "Invalid \\escape" / "Invalid \\uXXXX escape"
  | control      -- raw control character inside a string (strict mode)
  | extraData    -- "Extra data" after the top-level value
  | bom          -- "Unexpected UTF-8 BOM"
  | float        -- float / NaN / Infinity literal: outside the modelled subset (never compared)
  | fuel         -- internal recursion budget exhausted (never returned by `parse`: TsProofs.Json.parse_ne_fuel)
  deriving DecidableEq, Repr

instance {α : Type} [DecidableEq α] : DecidableEq (Except Err α)
  | .ok a, .ok b => if h : a = b then isTrue (by rw [h]) else isFalse (fun e => h (by cases e; rfl))
  | .error a, .error b => if h : a = b then isTrue (by rw [h]) else isFalse (fun e => h (by cases e; rfl))
  | .ok _, .error _ => isFalse (fun e => by cases e)
  | .error _, .ok _ => isFalse (fun e => by cases e)

/-! ## Strings: `json.dumps`' ASCII encoder and `json.loads`' string scanner -/

/-- `Py_UNICODE_IS_HIGH_SURROGATE`. -/
def isHigh (c : Nat) : Bool := decide (0xD800 ≤ c) && decide (c ≤ 0xDBFF)
/-- `Py_UNICODE_IS_LOW_SURROGATE`. -/
def isLow (c : Nat) : Bool := decide (0xDC00 ≤ c) && decide (c ≤ 0xDFFF)

/-- One lowercase hex digit (`'{0:04x}'.format`). -/
def hexDigit (n : Nat) : Nat := if n < 10 then 48 + n else 87 + n

/-- `'{0:04x}'.format(n)` for `n < 0x10000`. -/
def hex4 (n : Nat) : List Nat :=
  [hexDigit (n / 4096 % 16), hexDigit (n / 256 % 16), hexDigit (n / 16 % 16), hexDigit (n % 16)]

/-- `'\\u{0:04x}'.format(n)`. -/
def uEsc (n : Nat) : List Nat := 0x5c :: 0x75 :: hex4 n

/-- encoder.py `py_encode_basestring_ascii.replace` (= `ESCAPE_DCT` lookup, else `\uXXXX`, else a
surrogate pair): the image of one code point. `ESCAPE_ASCII = ([\\"]|[^\ -~])`. -/
def escChar (c : Nat) : List Nat :=
  if c = 0x22 then [0x5c, 0x22]
  else if c = 0x5c then [0x5c, 0x5c]
  else if c = 0x0a then [0x5c, 0x6e]
  else if c = 0x0d then [0x5c, 0x72]
  else if c = 0x09 then [0x5c, 0x74]
  else if c = 0x08 then [0x5c, 0x62]
  else if c = 0x0c then [0x5c, 0x66]
  else if 0x20 ≤ c ∧ c ≤ 0x7e then [c]
  else if c < 0x10000 then uEsc c
  else uEsc (0xD800 + (c - 0x10000) / 1024 % 1024) ++ uEsc (0xDC00 + (c - 0x10000) % 1024)

/-- Body of `json.dumps(s)` without the surrounding quotes. -/
def escape : Str → List Nat
  | [] => []
  | c :: cs => escChar c ++ escape cs

/-- `json.dumps(s)` for a `str`. -/
def quote (s : Str) : List Nat := 0x22 :: (escape s ++ [0x22])

/-- One hex digit of a `\uXXXX` escape (`_json.c`: `0-9a-fA-F`). -/
def unhexDigit (c : Nat) : Option Nat :=
  if 48 ≤ c ∧ c ≤ 57 then some (c - 48)
  else if 97 ≤ c ∧ c ≤ 102 then some (c - 87)
  else if 65 ≤ c ∧ c ≤ 70 then some (c - 55)
  else none

def unhex4 (a b c d : Nat) : Option Nat :=
  match unhexDigit a, unhexDigit b, unhexDigit c, unhexDigit d with
  | some a, some b, some c, some d => some (((a * 16 + b) * 16 + c) * 16 + d)
  | _, _, _, _ => none

/-- `BACKSLASH` table of decoder.py / the `switch` in `scanstring_unicode`. -/
def simpleEsc (e : Nat) : Option Nat :=
  if e = 0x22 then some 0x22
  else if e = 0x5c then some 0x5c
  else if e = 0x2f then some 0x2f
  else if e = 0x62 then some 0x08
  else if e = 0x66 then some 0x0c
  else if e = 0x6e then some 0x0a
  else if e = 0x72 then some 0x0d
  else if e = 0x74 then some 0x09
  else none

/-- `Py_UNICODE_JOIN_SURROGATES`. -/
def joinSurr (hi lo : Nat) : Nat := 0x10000 + (hi - 0xD800) * 1024 + (lo - 0xDC00)

def consChar (c : Nat) : Except Err (Str × List Nat) → Except Err (Str × List Nat)
  | .ok (s, r) => .ok (c :: s, r)
  | .error e => .error e

/-- Emit a pending (unpaired) high-surrogate escape before `r`'s characters. -/
def flushPending (p : Option Nat) (r : Except Err (Str × List Nat)) : Except Err (Str × List Nat) :=
  match p with
  | none => r
  | some hi => consChar hi r

/-- `scanstring_unicode` (strict), as a one-pass machine: input is the text *after* the opening quote;
returns the decoded string and the text after the closing quote. `p` holds a `\uD800`–`\uDBFF` escape
just read and not yet emitted: C looks ahead for an immediately following `\uXXXX` escape and joins the
two when the second is a low surrogate (`Py_UNICODE_JOIN_SURROGATES`), otherwise emits the first alone
and scans the second afresh; anything other than a `\u` escape after it emits it alone. An escape with
non-hex digits is an error wherever it stands (as in C); raw characters `≥ 0x20` are copied verbatim. -/
def scanAux : Option Nat → List Nat → Except Err (Str × List Nat)
  | _, [] => .error .eof
  | p, c :: cs =>
    if c = 0x22 then flushPending p (.ok ([], cs))
    else if c = 0x5c then
      match cs with
      | [] => .error .eof
      | e :: cs1 =>
        if e = 0x75 then
          match cs1 with
          | a :: b :: c2 :: d :: cs2 =>
            match unhex4 a b c2 d with
            | none => .error .badEscape
            | some u =>
              match p with
              | some hi =>
                if isLow u then consChar (joinSurr hi u) (scanAux none cs2)
                else if isHigh u then consChar hi (scanAux (some u) cs2)
                else consChar hi (consChar u (scanAux none cs2))
              | none =>
                if isHigh u then scanAux (some u) cs2
                else consChar u (scanAux none cs2)
          | _ => .error .eof
        else
          match simpleEsc e with
          | some x => flushPending p (consChar x (scanAux none cs1))
          | none => .error .badEscape
    else if c < 0x20 then .error .control
    else flushPending p (consChar c (scanAux none cs))

/-- `scanstring(s, end)` right after the opening quote. -/
def scanStr (s : List Nat) : Except Err (Str × List Nat) := scanAux none s

/-- The string scanner applied to a bare string body (no quotes): what `json.loads('"' + b + '"')`
returns. -/
def unescape (body : List Nat) : Except Err Str :=
  match scanStr (body ++ [0x22]) with
  | .ok (s, []) => .ok s
  | .ok (_, _ :: _) => .error .extraData
  | .error e => .error e

/-- No high surrogate immediately followed by a low surrogate (the D17 class is its negation). -/
def noAdjSurr : Str → Bool
  | a :: b :: rest => !(isHigh a && isLow b) && noAdjSurr (b :: rest)
  | _ => true

/-- Every element is a code point. -/
def validStr (s : Str) : Bool := s.all (fun c => decide (c < 0x110000))

/-- A string the JSON layer carries faithfully. -/
def goodStr (s : Str) : Bool := validStr s && noAdjSurr s

/-! ## Values -/

/-- What `asdict(SnapshotMetadata)` can contain / what `json.loads` returns on the float-free subset.
`obj` is a Python `dict` (insertion-ordered association list). -/
inductive Value where
  | null
  | bool (b : Bool)
  | int (i : Int)
  | str (s : Str)
  | arr (vs : List Value)
  | obj (kvs : List (Str × Value))
  deriving Repr

mutual
/-- A value the JSON text carries faithfully: every string and key is `goodStr`, and every `obj` is a
dict (keys pairwise distinct). -/
def goodV : Value → Bool
  | .str s => goodStr s
  | .arr vs => goodVs vs
  | .obj ms => goodMs ms && decide ((ms.map Prod.fst).Nodup)
  | _ => true
def goodVs : List Value → Bool
  | [] => true
  | v :: vs => goodV v && goodVs vs
def goodMs : List (Str × Value) → Bool
  | [] => true
  | (k, v) :: ms => goodStr k && goodV v && goodMs ms
end

/-! ## Printer: `json.dumps(v, indent=2)` (`_make_iterencode`) -/

/-- `'\n' + ' ' * (2 * level)`. -/
def nl (d : Nat) : List Nat := 0x0a :: List.replicate (2 * d) 0x20

/-- `int.__repr__` of a natural number. -/
def natDigits (n : Nat) : List Nat :=
  if h : n < 10 then [48 + n] else natDigits (n / 10) ++ [48 + n % 10]
termination_by n
decreasing_by omega

/-- `int.__repr__`. -/
def intDigits : Int → List Nat
  | .ofNat n => natDigits n
  | .negSucc n => 0x2d :: natDigits (n + 1)

def litNull : List Nat := [0x6e, 0x75, 0x6c, 0x6c]
def litTrue : List Nat := [0x74, 0x72, 0x75, 0x65]
def litFalse : List Nat := [0x66, 0x61, 0x6c, 0x73, 0x65]

mutual
/-- `_iterencode` at indentation level `d`. -/
def printV (d : Nat) : Value → List Nat
  | .null => litNull
  | .bool true => litTrue
  | .bool false => litFalse
  | .int i => intDigits i
  | .str s => quote s
  | .arr [] => [0x5b, 0x5d]
  | .arr (v :: vs) => 0x5b :: (nl (d + 1) ++ (printV (d + 1) v ++ (printRest (d + 1) vs ++ (nl d ++ [0x5d]))))
  | .obj [] => [0x7b, 0x7d]
  | .obj ((k, v) :: ms) =>
      0x7b :: (nl (d + 1) ++ (quote k ++ (0x3a :: 0x20 :: (printV (d + 1) v ++ (printMembers (d + 1) ms ++ (nl d ++ [0x7d]))))))
/-- `_iterencode_list`: the elements after the first, each preceded by `',' + newline_indent`. -/
def printRest (d : Nat) : List Value → List Nat
  | [] => []
  | v :: vs => 0x2c :: (nl d ++ (printV d v ++ printRest d vs))
/-- `_iterencode_dict`: the members after the first. -/
def printMembers (d : Nat) : List (Str × Value) → List Nat
  | [] => []
  | (k, v) :: ms => 0x2c :: (nl d ++ (quote k ++ (0x3a :: 0x20 :: (printV d v ++ printMembers d ms))))
end

/-- `json.dumps(v, sort_keys=False, indent=2)`. -/
def print (v : Value) : List Nat := printV 0 v

/-! ## Reader: `json.loads` -/

/-- decoder.py `WHITESPACE = [ \t\n\r]*`. -/
def isWs (c : Nat) : Bool := c == 0x20 || c == 0x09 || c == 0x0a || c == 0x0d

def skipWs : List Nat → List Nat
  | [] => []
  | c :: cs => if isWs c then skipWs cs else c :: cs

def isDigit (c : Nat) : Bool := decide (48 ≤ c) && decide (c ≤ 57)

/-- Leading ASCII digits and the rest. -/
def spanDigits : List Nat → List Nat × List Nat
  | [] => ([], [])
  | c :: cs => if isDigit c then ((spanDigits cs).1 |> (c :: ·), (spanDigits cs).2) else ([], c :: cs)

/-- Decimal value of a digit string. -/
def ofDigits (ds : List Nat) : Nat := ds.foldl (fun acc d => acc * 10 + (d - 48)) 0

/-- Does a fraction or an exponent follow (`_match_number_unicode`: `.` + digit, or `e`/`E` +
optional sign + digit)? -/
def floatFollows : List Nat → Bool
  | [] => false
  | e :: rest =>
    if e = 0x2e then
      match rest with
      | c :: _ => isDigit c
      | [] => false
    else if e = 0x65 ∨ e = 0x45 then
      match rest with
      | s :: c :: _ => if s = 0x2b ∨ s = 0x2d then isDigit c else isDigit s
      | [s] => isDigit s
      | [] => false
    else false

/-- `_match_number_unicode` after the optional sign: `0 | [1-9][0-9]*`. -/
def scanNat : List Nat → Except Err (Nat × List Nat)
  | [] => .error .eof
  | c :: cs =>
    if c = 48 then (if floatFollows cs then .error .float else .ok (0, cs))
    else if isDigit c then
      let p := spanDigits cs
      if floatFollows p.2 then .error .float else .ok (ofDigits (c :: p.1), p.2)
    else .error .badChar

/-- Match the remaining letters of `null` / `true` / `false` (input ending early is `eof`). -/
def expectLit : List Nat → List Nat → Except Err (List Nat)
  | [], s => .ok s
  | _ :: _, [] => .error .eof
  | l :: ls, c :: cs => if c = l then expectLit ls cs else .error .badChar

/-- Python `dict.__setitem__` on an association list: overwrite in place or append. -/
def dictSet (d : List (Str × Value)) (k : Str) (v : Value) : List (Str × Value) :=
  match d with
  | [] => [(k, v)]
  | (k', v') :: rest => if k' = k then (k', v) :: rest else (k', v') :: dictSet rest k v

/-- `dict(pairs)`: first position, last value. -/
def dictOf (ps : List (Str × Value)) : List (Str × Value) :=
  ps.foldl (fun d kv => dictSet d kv.1 kv.2) []

mutual
/-- `scan_once` (`_json.c scan_once_unicode`) at the head of the input; the `Nat` is a recursion
budget (seeded with `2·len+2` by `parse`, never exhausted). -/
def parseV : Nat → List Nat → Except Err (Value × List Nat)
  | 0, _ => .error .fuel
  | _ + 1, [] => .error .eof
  | f + 1, c :: cs =>
    if c = 0x22 then
      match scanStr cs with
      | .ok (s, r) => .ok (.str s, r)
      | .error e => .error e
    else if c = 0x7b then
      match skipWs cs with
      | [] => .error .eof
      | c2 :: r =>
        if c2 = 0x7d then .ok (.obj [], r)
        else match parseMembers f (c2 :: r) with
          | .ok (ms, r') => .ok (.obj (dictOf ms), r')
          | .error e => .error e
    else if c = 0x5b then
      match skipWs cs with
      | [] => .error .eof
      | c2 :: r =>
        if c2 = 0x5d then .ok (.arr [], r)
        else match parseElems f (c2 :: r) with
          | .ok (vs, r') => .ok (.arr vs, r')
          | .error e => .error e
    else if c = 0x6e then
      match expectLit [0x75, 0x6c, 0x6c] cs with
      | .ok r => .ok (.null, r)
      | .error e => .error e
    else if c = 0x74 then
      match expectLit [0x72, 0x75, 0x65] cs with
      | .ok r => .ok (.bool true, r)
      | .error e => .error e
    else if c = 0x66 then
      match expectLit [0x61, 0x6c, 0x73, 0x65] cs with
      | .ok r => .ok (.bool false, r)
      | .error e => .error e
    else if c = 0x4e then  -- NaN
      match expectLit [0x61, 0x4e] cs with
      | .ok _ => .error .float
      | .error e => .error e
    else if c = 0x49 then  -- Infinity
      match expectLit [0x6e, 0x66, 0x69, 0x6e, 0x69, 0x74, 0x79] cs with
      | .ok _ => .error .float
      | .error e => .error e
    else if c = 0x2d then
      match cs with
      | [] => .error .eof
      | c2 :: cs2 =>
        if c2 = 0x49 then
          match expectLit [0x6e, 0x66, 0x69, 0x6e, 0x69, 0x74, 0x79] cs2 with
          | .ok _ => .error .float
          | .error e => .error e
        else match scanNat (c2 :: cs2) with
          | .ok (n, r) => .ok (.int (-(n : Int)), r)
          | .error e => .error e
    else if isDigit c then
      match scanNat (c :: cs) with
      | .ok (n, r) => .ok (.int (n : Int), r)
      | .error e => .error e
    else .error .badChar
/-- `_parse_array_unicode` after the first `skip whitespace`, array known to be non-empty. -/
def parseElems : Nat → List Nat → Except Err (List Value × List Nat)
  | 0, _ => .error .fuel
  | f + 1, s =>
    match parseV f s with
    | .error e => .error e
    | .ok (v, r) =>
      match skipWs r with
      | [] => .error .eof
      | c :: r' =>
        if c = 0x2c then
          match parseElems f (skipWs r') with
          | .ok (vs, r'') => .ok (v :: vs, r'')
          | .error e => .error e
        else if c = 0x5d then .ok ([v], r')
        else .error .badChar
/-- `_parse_object_unicode` after the first `skip whitespace`, object known to be non-empty. -/
def parseMembers : Nat → List Nat → Except Err (List (Str × Value) × List Nat)
  | 0, _ => .error .fuel
  | _ + 1, [] => .error .eof
  | f + 1, c :: cs =>
    if c = 0x22 then
      match scanStr cs with
      | .error e => .error e
      | .ok (k, r) =>
        match skipWs r with
        | [] => .error .eof
        | c2 :: r2 =>
          if c2 = 0x3a then
            match parseV f (skipWs r2) with
            | .error e => .error e
            | .ok (v, r3) =>
              match skipWs r3 with
              | [] => .error .eof
              | c3 :: r4 =>
                if c3 = 0x2c then
                  match parseMembers f (skipWs r4) with
                  | .ok (ms, r5) => .ok ((k, v) :: ms, r5)
                  | .error e => .error e
                else if c3 = 0x7d then .ok ([(k, v)], r4)
                else .error .badChar
          else .error .badChar
    else .error .badChar
end

/-- `json.loads(s)` (`JSONDecoder.decode`): BOM check, leading whitespace, one value, trailing
whitespace, nothing else. -/
def parse (s : List Nat) : Except Err Value :=
  match s with
  | c :: _ =>
    if c = 0xFEFF then .error .bom
    else match parseV (2 * s.length + 2) (skipWs s) with
      | .error e => .error e
      | .ok (v, r) => if skipWs r = [] then .ok v else .error .extraData
  | [] => .error .eof

end Ts.Json
