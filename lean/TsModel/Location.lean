/-
  TsModel.Location — where bytes land in storage.

  Mirrors:
    * `io_preparer.get_storage_path`                       (rank | "replicated" | "sharded" prefix + logical path)
    * `ChunkedTensorIOPreparer.prepare_write`              (chunk location = `f"{storage_path}_{'_'.join(offsets)}"`)
    * `ShardedTensorIOPreparer.prepare_write`              (same naming for shards)
    * `FSStoragePlugin.write/read`                         (`os.path.join(root, path)`, then the OS resolves it:
                                                            without symlinks that is `posixpath.normpath`)
    * `posixpath.join`, `posixpath.normpath` (CPython), line by line.

  Strings are lists of code points.
-/
namespace Ts.Location

abbrev Str := List Nat

def cSlash : Nat := 47   -- '/'
def cDot   : Nat := 46   -- '.'
def cUnder : Nat := 95   -- '_'

def dotStr : Str := [cDot]
def dotdotStr : Str := [cDot, cDot]

/-- `s.split('/')` : always at least one component. -/
def splitSlash : Str → List Str
  | [] => [[]]
  | c :: cs =>
    if c = cSlash then [] :: splitSlash cs
    else match splitSlash cs with
      | [] => [[c]]               -- unreachable (splitSlash is never empty); kept total
      | h :: t => (c :: h) :: t

/-- `'/'.join(comps)` -/
def joinSlash : List Str → Str
  | [] => []
  | [c] => c
  | c :: cs => c ++ cSlash :: joinSlash cs

/-- `posixpath.join(a, b)` for two arguments. -/
def pjoin (a b : Str) : Str :=
  match b with
  | c :: _ => if c = cSlash then b
              else if a = [] ∨ a.getLast? = some cSlash then a ++ b else a ++ cSlash :: b
  | [] => if a = [] ∨ a.getLast? = some cSlash then a else a ++ [cSlash]

/-- The component loop of `posixpath.normpath`: `acc` is `new_comps` (in order). -/
def normComps (initialSlashes : Bool) : List Str → List Str → List Str
  | acc, [] => acc
  | acc, comp :: rest =>
    if comp = [] ∨ comp = dotStr then normComps initialSlashes acc rest
    else if comp ≠ dotdotStr ∨ (!initialSlashes ∧ acc = []) ∨ (acc ≠ [] ∧ acc.getLast? = some dotdotStr)
      then normComps initialSlashes (acc ++ [comp]) rest
    else if acc ≠ [] then normComps initialSlashes acc.dropLast rest
    else normComps initialSlashes acc rest

/-- number of leading slashes kept by normpath: 0, 1, or 2 (exactly two leading slashes). -/
def initialSlashes (p : Str) : Nat :=
  match p with
  | a :: b :: c :: _ => if a = cSlash then (if b = cSlash ∧ c ≠ cSlash then 2 else 1) else 0
  | [a, b] => if a = cSlash then (if b = cSlash then 2 else 1) else 0
  | [a] => if a = cSlash then 1 else 0
  | [] => 0

/-- `posixpath.normpath(path)` -/
def normpath (p : Str) : Str :=
  if p = [] then dotStr else
  let k := initialSlashes p
  let comps := normComps (k != 0) [] (splitSlash p)
  let body := joinSlash comps
  let res := List.replicate k cSlash ++ body
  if res = [] then dotStr else res

/-- What the filesystem plugin opens for a storage path `p` under snapshot root `root`. -/
def fsPath (root p : Str) : Str := normpath (pjoin root p)

/-! ## Location naming -/

/-- `str(n)` for a natural number: decimal digits, most significant first. -/
def natStr (n : Nat) : Str := (Nat.toDigits 10 n).map Char.toNat

inductive Owner where
  | rank (r : Nat)       -- per-rank private object
  | replicated
  | sharded
  | replicatedSharded
  deriving DecidableEq, Repr

def replicatedStr : Str := [114, 101, 112, 108, 105, 99, 97, 116, 101, 100]          -- "replicated"
def shardedStr : Str := [115, 104, 97, 114, 100, 101, 100]                      -- "sharded"
def replicatedShardedStr : Str := [114, 101, 112, 108, 105, 99, 97, 116, 101, 100, 95, 115, 104, 97, 114, 100, 101, 100] -- "replicated_sharded"
def batchedStr : Str := [98, 97, 116, 99, 104, 101, 100]                      -- "batched" (slab directory, batcher.Slab)

def ownerStr : Owner → Str
  | .rank r => natStr r
  | .replicated => replicatedStr
  | .sharded => shardedStr
  | .replicatedSharded => replicatedShardedStr

/-- `get_storage_path(obj, logical_path, rank, replicated)` -/
def storagePath (o : Owner) (logical : Str) : Str := pjoin (ownerStr o) logical

/-- `"_".join(str(x) for x in offsets)` -/
def offsetSuffix : List Nat → Str
  | [] => []
  | [x] => natStr x
  | x :: xs => natStr x ++ cUnder :: offsetSuffix xs

/-- location of a write unit: the object itself (`none`) or a chunk / shard at `offsets`. -/
def unitLocation (base : Str) : Option (List Nat) → Str
  | none => base
  | some offs => base ++ cUnder :: offsetSuffix offs

/-! ## Decidable key-safety predicates (the hypotheses of C05) -/

def safeComp (c : Str) : Bool := c ≠ [] ∧ c ≠ dotStr ∧ c ≠ dotdotStr

/-- every '/'-separated component of a relative path is non-empty and neither "." nor "..". -/
def safePath (p : Str) : Bool := (splitSlash p).all safeComp

def isSuffixChar (c : Nat) : Bool := c = cUnder ∨ (48 ≤ c ∧ c ≤ 57)

/-- `q = p ++ "_" ++ s` with `s` over `[0-9_]*`: q could be mistaken for a chunk/shard of p. -/
def suffixAlias (p q : Str) : Bool :=
  p.isPrefixOf q && (match q.drop p.length with
    | c :: s => c = cUnder ∧ s.all isSuffixChar
    | [] => false)

def noSuffixAlias (paths : List Str) : Bool :=
  paths.all (fun p => paths.all (fun q => !suffixAlias p q))


/-- One storage write of a take: the object itself (`offs = none`) or one chunk / shard of it. -/
structure WriteUnit where
  owner   : Owner
  logical : Str                  -- logical path as produced by flatten (components already escaped)
  offs    : Option (List Nat)    -- chunk / shard offsets
  bytes   : List Nat             -- staged contents
  deriving Repr

def WriteUnit.base (u : WriteUnit) : Str := storagePath u.owner u.logical
def WriteUnit.location (u : WriteUnit) : Str := unitLocation u.base u.offs
def WriteUnit.key (u : WriteUnit) : Owner × Str × Option (List Nat) := (u.owner, u.logical, u.offs)

/-- Contents of path `p` after the writes `ws` completed in list order (whole-object replace). -/
def storeAfter (ws : List (Str × List Nat)) (p : Str) : Option (List Nat) :=
  (ws.reverse.find? (fun w => w.1 = p)).map (·.2)

end Ts.Location
