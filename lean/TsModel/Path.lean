/-
  TsModel.Path — path strings of `torchsnapshot/flatten.py`.

  A Python `str` is a `List Nat` of code points (`< 0x110000`, surrogates allowed; nothing below
  depends on the bound).  Mirrors `_encode` / `_decode` (flatten.py:213-226), `str.split("/")`,
  `"/".join(...)`, `k.split("/")[0]`, `str(int)` for non-negative ints and `int(str)`.
-/
namespace Ts.Path

abbrev Str := List Nat

/-- Code points used below: `%` = 37, `/` = 47, `+` = 43, `-` = 45, `_` = 95, `0` = 48. -/
def cPercent : Nat := 37
def cSlash : Nat := 47

inductive Err where
  | outOfDomain   -- the model does not describe Python's behaviour on this input (never compared)
  | valueError    -- `int(s)` raised ValueError
  | keyError      -- `containers[path]` for a path that is not a container (inflate)
  | absent        -- AssertionError: prefix absent in both manifest and flattened (inflate)
  | assertion     -- AssertionError "Invalid path" (inflate; defensive branch)
  | fuel          -- recursion fuel exhausted (unreachable with the fuel `inflate` passes)
  deriving DecidableEq, Repr

/-- `s.replace(chr c, rep)` for a one-character pattern. -/
def replace1 (c : Nat) (rep : Str) (s : Str) : Str :=
  s.flatMap (fun x => if x = c then rep else [x])

/-- `_encode` (flatten.py:213-221): `s.replace("%", "%25").replace("/", "%2F")`, two passes. -/
def encode (s : Str) : Str :=
  replace1 47 [37, 50, 70] (replace1 37 [37, 50, 53] s)

/-- Value of an ASCII hex digit (`urllib.parse._hextobyte` keys: both cases). -/
def hexVal (c : Nat) : Option Nat :=
  if 48 ≤ c ∧ c ≤ 57 then some (c - 48)
  else if 65 ≤ c ∧ c ≤ 70 then some (c - 55)
  else if 97 ≤ c ∧ c ≤ 102 then some (c - 87)
  else none

/-- `_decode` = `urllib.parse.unquote(s)` (utf-8, errors="replace"), flatten.py:224-226.
`%XY` with two ASCII hex digits and value `< 0x80` becomes that code point; a `%` not followed by
two hex digits stays; every other code point stays.  An escape `≥ 0x80` would need UTF-8 decoding
with replacement characters: the model answers `outOfDomain` (such strings are not in the image of
`encode`). -/
def decode : Str → Except Err Str
  | [] => .ok []
  | c :: rest =>
    if c = 37 then
      match rest with
      | a :: b :: rest' =>
        match hexVal a, hexVal b with
        | some x, some y =>
          if 16 * x + y < 128 then (decode rest').map (fun r => (16 * x + y) :: r)
          else .error .outOfDomain
        | _, _ => (decode (a :: b :: rest')).map (fun r => 37 :: r)
      | rest => (decode rest).map (fun r => 37 :: r)
    else (decode rest).map (fun r => c :: r)

/-- `s.split("/")` (never empty: `"".split("/") == [""]`). -/
def splitSlash : Str → List Str
  | [] => [[]]
  | c :: s =>
    if c = 47 then [] :: splitSlash s
    else match splitSlash s with
      | [] => [[c]]           -- unreachable: `splitSlash` never returns `[]`
      | h :: t => (c :: h) :: t

/-- `"/".join(l)`. -/
def joinSlash : List Str → Str
  | [] => []
  | [a] => a
  | a :: b :: r => a ++ 47 :: joinSlash (b :: r)

/-- `k.split("/")[0]`: everything before the first `/`. -/
def firstTok (s : Str) : Str := s.takeWhile (fun c => c ≠ 47)

/-- ASCII decimal digit. -/
def isAsciiDigit (c : Nat) : Bool := 48 ≤ c && c ≤ 57

/-- `str(n)` for a non-negative Python int: decimal digits, most significant first. -/
def natStr (n : Nat) : Str :=
  if n < 10 then [48 + n] else natStr (n / 10) ++ [48 + n % 10]
termination_by n
decreasing_by omega

/-- Value of a string of ASCII decimal digits. -/
def digitsVal (ds : Str) : Nat := ds.foldl (fun acc d => acc * 10 + (d - 48)) 0

/-- `int(s)` on the sub-domain the model describes: strings made only of printable non-space
ASCII without `_` (so no whitespace stripping, digit grouping or non-ASCII decimal digits apply):
accepted iff `[+-]?[0-9]+`.  Anything else is `outOfDomain`. -/
def pyInt (s : Str) : Except Err Int :=
  if s.all (fun c => 33 ≤ c && c ≤ 126 && c != 95) then
    let unsigned (ds : Str) : Except Err Nat :=
      if ds ≠ [] ∧ ds.all isAsciiDigit then .ok (digitsVal ds) else .error .valueError
    match s with
    | 43 :: ds => (unsigned ds).map (fun n => (n : Int))
    | 45 :: ds => (unsigned ds).map (fun n => - (n : Int))
    | ds => (unsigned ds).map (fun n => (n : Int))
  else .error .outOfDomain

/-- Code-point ranges on which Python 3.12's `str.isdigit` holds for a single character
(Numeric_Type = Digit or Decimal).  Checked exhaustively against the interpreter by the harness. -/
def isdigitRanges : List (Nat × Nat) := [
  (48, 57), (178, 179), (185, 185), (1632, 1641), (1776, 1785), (1984, 1993),
  (2406, 2415), (2534, 2543), (2662, 2671), (2790, 2799), (2918, 2927), (3046, 3055),
  (3174, 3183), (3302, 3311), (3430, 3439), (3558, 3567), (3664, 3673), (3792, 3801),
  (3872, 3881), (4160, 4169), (4240, 4249), (4969, 4977), (6112, 6121), (6160, 6169),
  (6470, 6479), (6608, 6618), (6784, 6793), (6800, 6809), (6992, 7001), (7088, 7097),
  (7232, 7241), (7248, 7257), (8304, 8304), (8308, 8313), (8320, 8329), (9312, 9320),
  (9332, 9340), (9352, 9360), (9450, 9450), (9461, 9469), (9471, 9471), (10102, 10110),
  (10112, 10120), (10122, 10130), (42528, 42537), (43216, 43225), (43264, 43273), (43472, 43481),
  (43504, 43513), (43600, 43609), (44016, 44025), (65296, 65305), (66720, 66729), (68160, 68163),
  (68912, 68921), (69216, 69224), (69714, 69722), (69734, 69743), (69872, 69881), (69942, 69951),
  (70096, 70105), (70384, 70393), (70736, 70745), (70864, 70873), (71248, 71257), (71360, 71369),
  (71472, 71481), (71904, 71913), (72016, 72025), (72784, 72793), (73040, 73049), (73120, 73129),
  (73552, 73561), (92768, 92777), (92864, 92873), (93008, 93017), (120782, 120831), (123200, 123209),
  (123632, 123641), (124144, 124153), (125264, 125273), (127232, 127242), (130032, 130041)
]

def isDigitCp (c : Nat) : Bool := isdigitRanges.any (fun r => r.1 ≤ c && c ≤ r.2)

/-- `s.isdigit()`: non-empty and every character is a digit. -/
def isdigit (s : Str) : Bool := s ≠ [] && s.all isDigitCp

/-- `_check_int` (flatten.py:204-210). -/
def checkInt (s : Str) : Bool :=
  if isdigit s then true
  else match s with
    | c :: rest => if rest ≠ [] ∧ (c = 45 ∨ c = 43) then isdigit rest else false
    | [] => false

end Ts.Path
