import TsModel.Storage
/-
  TsModel.Damage — reading back payload that was deleted or truncated (C04).

  Mirrors:
    * `FSStoragePlugin.read` (missing file -> FileNotFoundError; ranged read past EOF -> short buffer, no error)
      via `Ts.Storage.seekRead`
    * `TensorBufferConsumer.consume_buffer` -> `tensor_from_memoryview(buf, dtype, shape)`: torch.frombuffer +
      reshape reject a buffer whose length is not `element_size * numel` (trusted torch check, sampled by C17)
    * `ObjectBufferConsumer.consume_buffer` -> `torch.load`: ASSUMED to reject every strict prefix of a
      `torch.save` stream (trusted base)
    * `batch_read_requests` / `BatchedBufferConsumer.consume_buffer` (after fix D1: sub-consumer errors surface)
    * `_ReadPipeline` / `execute_read_reqs`: the first consumer error aborts the restore
-/
namespace Ts.Damage
open Ts.Storage

inductive Damage where
  | deleted
  | truncated (n : Nat)     -- the object now holds only its first `n` bytes
  deriving Repr, DecidableEq

/-- The stored object after the damage. -/
def applyDamage (b : Bytes) : Damage → Option Bytes
  | .deleted => none
  | .truncated n => some (b.take n)

inductive RErr where
  | missing        -- FileNotFoundError from the plugin
  | badBuffer      -- consumer rejected the buffer (wrong length / undecodable)
  deriving Repr, DecidableEq

/-- `FSStoragePlugin.read` on an optional file. -/
def readObj (f : Option Bytes) (range : Option (Nat × Nat)) : Except RErr Bytes :=
  match f with
  | none => .error .missing
  | some b => match range with
    | none => .ok b
    | some (lo, hi) => .ok (seekRead b lo ((hi : Int) - (lo : Int)))

/-- What a consumer does with the buffer it is handed. `expect` is the byte string that was staged for
this entry at take time. -/
inductive Consumer where
  | raw (len : Nat)          -- buffer-protocol tensor: needs exactly `len = es * numel` bytes
  | codec                    -- torch_save tensor / object: decodes the original stream, rejects strict prefixes
  deriving Repr, DecidableEq

def consume (c : Consumer) (expect buf : Bytes) : Except RErr Bytes :=
  match c with
  | .raw len => if buf.length = len then .ok buf else .error .badBuffer
  | .codec => if buf = expect then .ok buf else .error .badBuffer

/-- One un-batched read request against one stored object whose undamaged contents are `orig`. -/
structure Req where
  range : Option (Nat × Nat)
  consumer : Consumer
  deriving Repr

/-- the bytes the request is meant to deliver -/
def Req.want (orig : Bytes) (r : Req) : Bytes :=
  match r.range with
  | none => orig
  | some (lo, hi) => slice orig lo hi

def runReq (orig : Bytes) (f : Option Bytes) (r : Req) : Except RErr Bytes := do
  let buf ← readObj f r.range
  consume r.consumer (r.want orig) buf

/-- `batch_read_requests` for the ranged requests of one location + `BatchedBufferConsumer`:
one read of the spanning range, then each sub-consumer gets `buf[lo - base : hi - base]`;
any sub-consumer error fails the whole request. -/
def spanLo (rs : List (Nat × Nat)) : Nat := rs.foldl (fun m r => min m r.1) (rs.headD (0, 0)).1
def spanHi (rs : List (Nat × Nat)) : Nat := rs.foldl (fun m r => max m r.2) (rs.headD (0, 0)).2

def runBatched (orig : Bytes) (f : Option Bytes) (subs : List ((Nat × Nat) × Consumer)) :
    Except RErr (List Bytes) := do
  let ranges := subs.map (·.1)
  let base := spanLo ranges
  let buf ← readObj f (some (base, spanHi ranges))
  subs.mapM (fun s => consume s.2 (slice orig s.1.1 s.1.2) (slice buf (s.1.1 - base) (s.1.2 - base)))

end Ts.Damage
