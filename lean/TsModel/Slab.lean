/-
  TsModel.Slab — `batch_write_requests`, `Slab`, `BatchedBufferStager`, `_check_byte_ranges_contiguous`,
  `is_batchable` (batcher.py:33-101, 176-355, 473-478). CPU slabs only (GPU staging is not modelled).

  Paths are of an arbitrary type `α` (the driver uses `String`). A slab's location
  `batched/<uuid4>` is `Loc.slab k` (k = creation order): the freshness of uuid4 names (distinct from each
  other and from every request path) is thereby an assumption of the model, stated in the check.
-/
import TsModel.Storage

namespace Ts.Slab
open Ts.Storage (Bytes slice)

inductive Err where
  | notContiguous     -- AssertionError("The byte ranges are not consecutive.")
  | sizeMismatch      -- AssertionError: staged buffer length ≠ byte range length
  | entryMissing      -- RuntimeError: "The tensor entry with the location … is not passed to batch_write."
  | stopIteration     -- `next()` on an empty iterator in `_check_byte_ranges_contiguous`
  deriving DecidableEq, Repr

/-! ### Python `dict` (insertion-ordered; assigning to an existing key keeps its position) -/

def dictInsert {κ ν : Type} [BEq κ] : List (κ × ν) → κ → ν → List (κ × ν)
  | [], k, v => [(k, v)]
  | (k', v') :: t, k, v => if k' == k then (k', v) :: t else (k', v') :: dictInsert t k v

/-- `dict(pairs)` / a sequence of `d[k] = v`. -/
def dictOfList {κ ν : Type} [BEq κ] (l : List (κ × ν)) : List (κ × ν) :=
  l.foldl (fun d kv => dictInsert d kv.1 kv.2) []

def dictGet {κ ν : Type} [BEq κ] (d : List (κ × ν)) (k : κ) : Option ν :=
  (d.find? (fun e => e.1 == k)).map (·.2)

/-! ### Write requests -/

/-- What `batch_write_requests` looks at in a `WriteReq`. -/
structure WReq (α : Type) where
  path : α
  isTensor : Bool     -- isinstance(wr.buffer_stager, TensorBufferStager)
  bufProto : Bool     -- buffer_stager.entry.serializer == Serializer.BUFFER_PROTOCOL.value
  prepFunc : Bool     -- buffer_stager._tensor_prepare_func is not None
  size : Nat          -- tensor.nelement() * tensor.element_size()
  deriving Repr

/-- `is_batchable` (batcher.py:473-478) together with the isinstance test at batcher.py:281. -/
def batchable {α : Type} (r : WReq α) : Bool := r.isTensor && r.bufProto && !r.prepFunc

/-- Where a request's bytes go: slab number and byte range inside the slab. -/
structure Place where
  slab : Nat
  lo : Nat
  hi : Nat
  deriving DecidableEq, Repr

/-- The grouping loop (batcher.py:277-320). State: index `k` of the current (last) slab and its
`sz_bytes = cur`. `none` = appended to `batched_write_reqs` unchanged. -/
def place {α : Type} (thr : Nat) : List (WReq α) → Nat → Nat → List (Option Place)
  | [], _, _ => []
  | r :: rs, k, cur =>
    if !batchable r || r.size ≥ thr then none :: place thr rs k cur
    else if cur + r.size ≥ thr then
      some ⟨k + 1, 0, r.size⟩ :: place thr rs (k + 1) r.size
    else
      some ⟨k, cur, cur + r.size⟩ :: place thr rs k (cur + r.size)

/-- `_check_byte_ranges_contiguous` (batcher.py:33-49): end of the last range. The first range's start is
not examined. -/
def checkContiguous : List (Nat × Nat) → Except Err Nat
  | [] => .error .stopIteration
  | r :: rs => go r.2 rs
where
  go (e : Nat) : List (Nat × Nat) → Except Err Nat
    | [] => .ok e
    | r :: rs => if r.1 ≠ e then .error .notContiguous else go r.2 rs

/-- A built `BatchedBufferStager`: `byte_range_to_buffer_stager` (a dict; sub-stagers are named by the index
of their request) and `slab_sz_bytes`. -/
structure SlabReq where
  slab : Nat
  members : List ((Nat × Nat) × Nat)
  size : Nat
  deriving DecidableEq, Repr

/-- `Slab.byte_ranges` / `Slab.buffer_stagers` of slab `k`: the requests placed there, in order. -/
def slabMembers (pl : List (Option Place × Nat)) (k : Nat) : List ((Nat × Nat) × Nat) :=
  pl.filterMap (fun e => match e.1 with
    | some p => if p.slab = k then some ((p.lo, p.hi), e.2) else none
    | none => none)

/-- `Slab.build` (batcher.py:190-201): `dict(zip(byte_ranges, buffer_stagers))`, then the contiguity check of
`BatchedBufferStager.__init__`. -/
def buildSlab (k : Nat) (ms : List ((Nat × Nat) × Nat)) : Except Err SlabReq :=
  let d := dictOfList ms
  match checkContiguous (d.map (·.1)) with
  | .error e => .error e
  | .ok sz => .ok ⟨k, d, sz⟩

/-- Index of the last slab created (`len(cpu_slabs) - 1`). -/
def lastSlab : List (Option Place) → Nat
  | [] => 0
  | none :: ps => lastSlab ps
  | some p :: ps => max p.slab (lastSlab ps)

/-- The loop "Convert each slab to a batched write request" (batcher.py:322-332): empty slabs are skipped. -/
def buildSlabs (pl : List (Option Place × Nat)) : List Nat → Except Err (List SlabReq)
  | [] => .ok []
  | k :: ks =>
    let ms := slabMembers pl k
    if ms.isEmpty then buildSlabs pl ks
    else
      match buildSlab k ms with
      | .error e => .error e
      | .ok s =>
        match buildSlabs pl ks with
        | .error e => .error e
        | .ok ss => .ok (s :: ss)

/-! ### Entries -/

/-- A location after batching: an original storage path or the k-th slab file. -/
inductive Loc (α : Type) where
  | orig (p : α)
  | slab (k : Nat)
  deriving DecidableEq, Repr

/-- The two fields of a `TensorEntry` that batching rewrites. -/
structure TEntry (l : Type) where
  loc : l
  range : Option (Nat × Nat)
  deriving DecidableEq, Repr

/-- Entry kinds as seen by the loop at batcher.py:337-346. -/
inductive Entry (l : Type) where
  | tensor (t : TEntry l)
  | chunked (chunks : List (TEntry l))          -- ChunkedTensorEntry.chunks[i].tensor
  | sharded (shards : List (TEntry l))          -- ShardedTensorEntry / DTensorEntry .shards[i].tensor
  | other                                        -- ObjectEntry, PrimitiveEntry, containers: ignored
  deriving Repr

/-- Tensor entries in the order the loop at batcher.py:337-346 visits them. -/
def slots {l : Type} : List (Entry l) → List (TEntry l)
  | [] => []
  | .tensor t :: es => t :: slots es
  | .chunked cs :: es => cs ++ slots es
  | .sharded ss :: es => ss ++ slots es
  | .other :: es => slots es

def mapFrom {a b : Type} (f : Nat → TEntry a → TEntry b) : Nat → List (TEntry a) → List (TEntry b)
  | _, [] => []
  | i, t :: ts => f i t :: mapFrom f (i + 1) ts

/-- Rewrite every tensor entry, `f` receiving its position in `slots`. -/
def mapEntries {a b : Type} (f : Nat → TEntry a → TEntry b) : Nat → List (Entry a) → List (Entry b)
  | _, [] => []
  | i, .tensor t :: es => .tensor (f i t) :: mapEntries f (i + 1) es
  | i, .chunked cs :: es => .chunked (mapFrom f i cs) :: mapEntries f (i + cs.length) es
  | i, .sharded ss :: es => .sharded (mapFrom f i ss) :: mapEntries f (i + ss.length) es
  | i, .other :: es => .other :: mapEntries f i es

/-- `relocation[wr.path] = (slab.location, lo, hi)` (batcher.py:317-320): a dict keyed by path. -/
def relocation {α : Type} [BEq α] (reqs : List (WReq α)) (pl : List (Option Place)) : List (α × Place) :=
  dictOfList ((reqs.zip pl).filterMap (fun e => e.2.map (fun p => (e.1.path, p))))

/-- For every relocation item the entry *object* to mutate: `location_to_entry[location]` (a dict keyed by
location, so the last entry with that location wins), or RuntimeError (batcher.py:349-353). Entry objects are
named by their position in `slots`. -/
def targets {α : Type} [BEq α] (l2e : List (α × Nat)) : List (α × Place) → Except Err (List (Nat × Place))
  | [] => .ok []
  | (p, pl) :: rest =>
    match dictGet l2e p with
    | none => .error .entryMissing
    | some i =>
      match targets l2e rest with
      | .error e => .error e
      | .ok ts => .ok ((i, pl) :: ts)

/-- The mutation at batcher.py:354-355 seen from one entry object. -/
def rewrite {α : Type} (ts : List (Nat × Place)) (i : Nat) (t : TEntry α) : TEntry (Loc α) :=
  match dictGet ts i with
  | some p => ⟨.slab p.slab, some (p.lo, p.hi)⟩
  | none => ⟨.orig t.loc, t.range⟩

/-- An element of the returned `batched_write_reqs`. -/
inductive OutReq (α : Type) where
  | pass (idx : Nat) (r : WReq α)     -- the `idx`-th input request, untouched
  | slab (s : SlabReq)                -- WriteReq(path = slab.location, buffer_stager = slab.build())
  deriving Repr

/-- `batch_write_requests(entries, write_reqs, slab_size_threshold_bytes)` (batcher.py:204-357);
`thr` is the resolved `slab_size_threshold_bytes or get_slab_size_threshold_bytes()`. -/
def batchWrite {α : Type} [BEq α] (entries : List (Entry α)) (reqs : List (WReq α)) (thr : Nat) :
    Except Err (List (Entry (Loc α)) × List (OutReq α)) :=
  let pl := place thr reqs 0 0
  let ipl := pl.zipIdx
  let passes := (reqs.zipIdx.zip pl).filterMap
    (fun e => match e.2 with | none => some (OutReq.pass e.1.2 e.1.1) | some _ => none)
  match buildSlabs ipl (List.range (lastSlab pl + 1)) with
  | .error e => .error e
  | .ok slabs =>
    let l2e := dictOfList ((slots entries).zipIdx.map (fun e => (e.1.loc, e.2)))
    match targets l2e (relocation reqs pl) with
    | .error e => .error e
    | .ok ts => .ok (mapEntries (rewrite ts) 0 entries, passes ++ slabs.map OutReq.slab)

/-! ### Staging a slab -/

/-- `slab[lo:hi] = buf` on a bytearray (Python slice assignment; an inverted slice is empty at `lo`). -/
def blit (slab : Bytes) (lo hi : Nat) (buf : Bytes) : Bytes :=
  slab.take lo ++ buf ++ slab.drop (max lo hi)

/-- `BatchedBufferStager.stage_buffer` (batcher.py:68-93): `bytearray(slab_sz_bytes)` (zeros), then for each
finished sub-stager, in completion order, the length check and the slice assignment. -/
def stage (size : Nat) (done : List ((Nat × Nat) × Bytes)) : Except Err Bytes :=
  done.foldlM (fun slab m =>
    if m.2.length + m.1.1 ≠ m.1.2 then .error .sizeMismatch
    else .ok (blit slab m.1.1 m.1.2 m.2)) (List.replicate size 0)

/-- the same slice assignments onto an existing buffer (`ChunkedTensorIOPreparer.prepare_read`: every chunk is read
into its dim-0 view of the output tensor, which may be a pre-allocated tensor with old contents) -/
def stageOnto (init : Bytes) (done : List ((Nat × Nat) × Bytes)) : Except Err Bytes :=
  done.foldlM (fun slab m =>
    if m.2.length + m.1.1 ≠ m.1.2 then .error .sizeMismatch
    else .ok (blit slab m.1.1 m.1.2 m.2)) init

end Ts.Slab
