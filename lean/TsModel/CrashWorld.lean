/-
  TsModel.CrashWorld — the job-wide store at a crash instant.

  Joins the commit protocol (`TsModel/Commit.lean`: which storage writes have begun / returned at a cut of a run,
  with in-flight writes resolved adversarially) with the job's data plane (`TsModel/World.lean`: which objects each
  rank writes and what they contain).  Payload write `w` of rank `q` in the protocol model is the `w`-th storage
  object of that rank's write plan.
-/
import TsModel.World
import TsModel.Commit

namespace Ts.World
open Ts.Storage (Bytes)
open Ts.Slab (WReq Place Loc)
open Ts.Snapshot
open Ts.Commit (Ev Resolve Content payloadAt)

def dedupLocs : List (Loc UnitId) → List (Loc UnitId)
  | [] => []
  | a :: l => if a ∈ dedupLocs l then dedupLocs l else a :: dedupLocs l

/-- The storage objects rank `q` writes: one per slab, one per request that was not batched. -/
def objectsOf (j : Job) (q : Nat) : List (Loc UnitId) :=
  match keptOf j q with
  | .ok k => dedupLocs ((k.zip (placements j.cfg k)).map (fun e => (unitLoc e.1.1 e.2).1))
  | .error _ => []

def indexIn (a : Loc UnitId) : List (Loc UnitId) → Option Nat
  | [] => none
  | b :: l => if a = b then some 0 else (indexIn a l).map (· + 1)

/-- The job-wide store when every process is killed at `cut`: an object whose write has returned is complete, one
whose write is in flight is absent, torn (any prefix, `tornLen`) or complete as the adversary `res` decides, one whose
write never began is absent.  Locations that are not objects of this snapshot are left as in the fault-free store
(nothing in the manifest names them). -/
def storeAtCut (j : Job) (cut : List Ev) (res : Resolve) (tornLen : Nat → Nat → Nat) : WLoc → Option Bytes := fun ql =>
  match indexIn ql.2 (objectsOf j ql.1) with
  | none => wstore j ql
  | some w =>
    match payloadAt cut res ql.1 w with
    | .complete => wstore j ql
    | .torn => (wstore j ql).map (fun b => b.take (tornLen ql.1 w))
    | .absent => none

end Ts.World
