/-
  TsModel.Rng — what `Snapshot.take` / `async_take` / `restore` do to the *global torch RNG state*
  (snapshot.py `_take_impl`, `restore`, `_load_stateful`, `_pop_rng_state`, `_gather_keys`;
  rng_state.py `RNGState`), and what the write path does to the application's leaf buffers
  (io_preparers/tensor.py `TensorBufferStager.stage_buffer`).

  Conventions
  * the global RNG state is an abstract type `σ`; nothing below inspects it;
  * a stateful object is, as far as the RNG is concerned, a pair of *arbitrary* functions
    `sdDraw loadDraw : σ → σ` (what a call of its `state_dict()` / `load_state_dict()` does to the
    global RNG), or the special `RNGState` object whose `state_dict()` reads the RNG
    (`torch.get_rng_state()`) and whose `load_state_dict()` overwrites it (`torch.set_rng_state`);
  * `app_state` (a Python `dict`) is an association list in insertion order; well-formedness (keys
    pairwise distinct) is the explicit predicate `WF`;
  * a Python `str` key is the list of its code points, compared lexicographically (= Python `<` on `str`);
  * torchsnapshot's own steps (flatten, prepare_write, partitioning, staging, storage I/O; ids come
    from Python's `random`, not torch) are RNG-neutral: they do not occur as state changes.
-/
namespace Ts.Rng

/-- A Python `str` as its code points; `<` on `List Nat` is lexicographic, like Python's `str.__lt__`. -/
abbrev Key := List Nat

/-! ## `sorted(set(keys))` (snapshot.py `_gather_keys`, last line) -/

/-- Insert into a strictly ascending list, dropping duplicates. -/
def insertKey (k : Key) : List Key → List Key
  | [] => [k]
  | h :: t => if k < h then k :: h :: t else if k = h then h :: t else h :: insertKey k t

/-- `sorted(set(ks))`. -/
def sortKeys (ks : List Key) : List Key := ks.foldr insertKey []

/-! ## Stateful objects, application state, events -/

inductive Err where
  | multipleRng     -- `_pop_rng_state`: RuntimeError("Multiple RNGState objects in app state")
  | notInSnapshot   -- `restore` of a key this rank did not save (AssertionError out of `inflate`)
  deriving DecidableEq, Repr

/-- A value of `app_state`, seen from the global RNG. -/
inductive Stateful (σ : Type) where
  | rng                                   -- rng_state.py `RNGState`
  | other (sdDraw loadDraw : σ → σ)       -- any other Stateful: arbitrary effect on the RNG per call

def Stateful.isRng {σ : Type} : Stateful σ → Bool
  | .rng => true
  | .other _ _ => false

/-- `app_state: Dict[str, Stateful]` in insertion order. -/
abbrev App (σ : Type) := List (Key × Stateful σ)

/-- Python dict invariant: keys pairwise distinct. -/
def WF {σ : Type} (app : App σ) : Prop := (app.map (·.1)).Nodup

instance {σ : Type} (app : App σ) : Decidable (WF app) := by unfold WF; exact inferInstance

/-- Observable calls, in program order (what the harness records on the real code). -/
inductive Ev where
  | sd (k : Key)      -- `app_state[k].state_dict()` entered
  | load (k : Key)    -- `app_state[k].load_state_dict(..)` entered
  | getRng            -- `torch.get_rng_state()`
  | setRng            -- `torch.set_rng_state(..)`
  deriving DecidableEq, Repr

/-- Global RNG state + the calls made so far. -/
structure Run (σ : Type) where
  rng : σ
  evs : List Ev

/-- What a snapshot remembers, as far as this model is concerned (per rank). -/
structure Snap (σ : Type) where
  keys : List Key           -- keys of the non-RNG statefuls this rank saved
  rng : Option (Key × σ)    -- key of the RNGState and the RNG state captured for it

structure TakeResult (σ : Type) where
  run : Run σ
  snap : Snap σ

/-- snapshot.py `_pop_rng_state`: find the RNGState items; more than one raises; exactly one is
removed from the (copied) dict with `del app_state[key]`. -/
def popRng {σ : Type} (app : App σ) : Except Err (Option Key × App σ) :=
  match app.filter (fun kv => kv.2.isRng) with
  | [] => .ok (none, app)
  | [(k, _)] => .ok (some k, app.filter (fun kv => kv.1 != k))
  | _ :: _ :: _ => .error .multipleRng

/-- One iteration of the `for key in global_keys` loop of `_take_impl` (snapshot.py:577-583):
`if key in app_state: app_state[key].state_dict()`. (The barrier is `Ts.Collective`'s subject.) -/
def sdStep {σ : Type} (others : App σ) (r : Run σ) (k : Key) : Run σ :=
  match others.lookup k with
  | none => r
  | some (.other sd _) => ⟨sd r.rng, r.evs ++ [.sd k]⟩
  | some .rng => ⟨r.rng, r.evs ++ [.sd k, .getRng]⟩   -- RNGState.state_dict only reads the RNG

/-- Specification helper: the RNG effect of `app[k].state_dict()` (identity if `k` is not
registered or is the RNGState, whose `state_dict` only reads). -/
def sdDrawOf {σ : Type} (app : App σ) (k : Key) : σ → σ :=
  match app.lookup k with
  | some (.other sd _) => sd
  | _ => id

/-- The whole loop. -/
def sdLoop {σ : Type} (others : App σ) (gkeys : List Key) (r : Run σ) : Run σ :=
  gkeys.foldl (sdStep others) r

/-- snapshot.py `_take_impl`, RNG-relevant part, in the exact order of the code.
`extra` = the keys gathered from the *other* ranks (`_gather_keys` returns
`sorted(set(own keys ++ extra))`); `[]` for a single rank.
1. pop the RNGState (on a copy of the dict);
2. if present: `rng_state_dict = stateful.state_dict()` — captures the RNG *first*;
3. the other statefuls' `state_dict()` in global sorted key order;
4. if present: `stateful.load_state_dict(rng_state_dict)` — re-applies the captured state;
5. everything after (replication, prepare_write, partition, batching, gather manifest, budget,
   staging and I/O) does not touch the RNG. -/
def take {σ : Type} (extra : List Key) (app : App σ) (s : σ) : Except Err (TakeResult σ) :=
  match popRng app with
  | .error e => .error e
  | .ok (rk, others) =>
    let gkeys := sortKeys (others.map (·.1) ++ extra)
    match rk with
    | none =>
      let r := sdLoop others gkeys ⟨s, []⟩
      .ok ⟨r, ⟨others.map (·.1), none⟩⟩
    | some k =>
      let captured := s
      let r1 : Run σ := ⟨s, [.sd k, .getRng]⟩
      let r2 := sdLoop others gkeys r1
      let r3 : Run σ := ⟨captured, r2.evs ++ [.load k, .setRng]⟩
      .ok ⟨r3, ⟨others.map (·.1), some (k, captured)⟩⟩

/-- snapshot.py `_load_stateful` for one (key, stateful): `stateful.state_dict()` is called
*first* (to load in place into its tensors), then the saved state is read and
`stateful.load_state_dict(..)` is called. For the RNGState the loaded value is the captured RNG. -/
def loadStateful {σ : Type} (snap : Snap σ) (k : Key) (st : Stateful σ) (r : Run σ) : Except Err (Run σ) :=
  match st with
  | .other sd ld =>
    if k ∈ snap.keys then .ok ⟨ld (sd r.rng), r.evs ++ [.sd k, .load k]⟩ else .error .notInSnapshot
  | .rng =>
    match snap.rng with
    | some (k', saved) =>
      if k' = k then .ok ⟨saved, r.evs ++ [.sd k, .getRng, .load k, .setRng]⟩ else .error .notInSnapshot
    | none => .error .notInSnapshot

/-- The `for key in global_keys` loop of `restore` (snapshot.py:371-381):
`_load_stateful(key, app_state.get(key))`, which returns at once when the rank lacks the key. -/
def loadLoop {σ : Type} (snap : Snap σ) (others : App σ) : List Key → Run σ → Except Err (Run σ)
  | [], r => .ok r
  | k :: ks, r =>
    match others.lookup k with
    | none => loadLoop snap others ks r
    | some st =>
      match loadStateful snap k st r with
      | .error e => .error e
      | .ok r' => loadLoop snap others ks r'

/-- snapshot.py `restore`, RNG-relevant part: pop the RNGState; load the others in global sorted
key order; load the RNGState *last*. -/
def restore {σ : Type} (snap : Snap σ) (extra : List Key) (app : App σ) (s : σ) : Except Err (Run σ) :=
  match popRng app with
  | .error e => .error e
  | .ok (rk, others) =>
    let gkeys := sortKeys (others.map (·.1) ++ extra)
    match loadLoop snap others gkeys ⟨s, []⟩ with
    | .error e => .error e
    | .ok r =>
      match rk with
      | none => .ok r
      | some k => loadStateful snap k .rng r

/-! ## Leaf buffers: what staging does to application memory

`TensorBufferStager.stage_buffer` (CPU path): sync take hands the storage plugin a
`memoryview` of the tensor's own storage (a *read* through a view); `async_take` (and
non-contiguous tensors) first `clone()`s into a fresh buffer and views that. Objects are
`torch.save`d into a fresh `BytesIO`. Nothing writes to an application buffer. -/

abbrev Addr := Nat
abbrev Bytes := List Nat

/-- Memory: address ↦ contents (newest binding first). -/
abbrev Heap := List (Addr × Bytes)

def Heap.get (h : Heap) (a : Addr) : Option Bytes := h.lookup a

/-- What staging does for one leaf. -/
inductive LeafOp where
  | view (a : Addr)                  -- `tensor_as_memoryview(tensor)` / `torch.save(obj, buf)`: read `a`
  | cloneThenView (a fresh : Addr)   -- `cpu_tensor = cpu_tensor.clone()`; then read the clone

/-- Run one staging op: new heap and the bytes handed to the storage plugin. -/
def stageLeaf (h : Heap) : LeafOp → Heap × Option Bytes
  | .view a => (h, h.get a)
  | .cloneThenView a fresh =>
    match h.get a with
    | none => (h, none)
    | some b => ((fresh, b) :: h, some b)

/-- Stage a list of leaves in any order the scheduler picks (`ops` is that order). -/
def stageAll (h : Heap) : List LeafOp → Heap × List (Option Bytes)
  | [] => (h, [])
  | op :: ops =>
    let (h1, b) := stageLeaf h op
    let (h2, bs) := stageAll h1 ops
    (h2, b :: bs)

/-- The application buffer an op reads. -/
def LeafOp.src : LeafOp → Addr
  | .view a => a
  | .cloneThenView a _ => a

/-- `_should_copy_cpu_tensor`: the staging op chosen for a leaf at address `a`. -/
def leafOpFor (isAsync contiguous : Bool) (a fresh : Addr) : LeafOp :=
  if isAsync || !contiguous then .cloneThenView a fresh else .view a

end Ts.Rng
