/-
  TsModel.Sched — the write pipeline (`execute_write_reqs` + `PendingIOWork.complete`) and the read
  pipeline (`execute_read_reqs`) of `torchsnapshot/scheduler.py` as transition systems over request
  ids, and `get_process_memory_budget_bytes`.

  Conventions.
  * A request is `(cost, buf)`: `cost` = `get_staging_cost_bytes()` / `get_consuming_cost_bytes()`,
    `buf` = `len(buf)` of the buffer produced by `stage_buffer` / `storage.read`.
  * The pipeline's *sets* (`ready_for_staging`, `staging_tasks`, `ready_for_io`, `io_tasks`;
    `pending_ids`, `io_tasks`, `consuming_tasks`) are represented by their characteristic function:
    one stage per request id (`slots[r].stage`).  Python's set iteration order is therefore not
    represented at all: every order is a behaviour of the model.
  * An event is what the *scheduler coroutine* does: it creates a task (`stageStart` = admission, `ioStart`) or it
    processes a finished task returned by `asyncio.wait` (`stageDone`, `ioDone`, `consumeDone`, and
    the `…Fail` variants where `d.result()` raises).
  * `memory_budget_bytes` is a Python `int` and does go negative (oversized request admitted from the
    empty pipeline; `buf > cost`), hence `Int`.
  * Maximal progress is part of the guards: the scheduler only reaches `asyncio.wait` after its
    dispatch loops ran to their end, so a completion is processed only in a *quiescent* state.
-/
import TsGen.Tables
namespace Ts.Sched

/-- One write/read request as the scheduler sees it. -/
structure Req where
  cost : Nat    -- declared cost
  buf  : Nat    -- size of the buffer that is actually produced
  deriving DecidableEq, Repr

inductive Err where
  | badId          -- no such request
  | notEnabled     -- wrong stage, or the admission / concurrency guard is false
  | notQuiescent   -- a completion is processed although a dispatch loop could still start something
  | finished       -- the pipeline has already raised
  | zeroDivision   -- `available // local_world_size` with local_world_size = 0
  deriving DecidableEq, Repr

inductive Outcome where
  | running | ok | error
  deriving DecidableEq, Repr

/-- `Σ g` over a list (all counters and byte totals below are instances). -/
def sumBy {α : Type} (g : α → Nat) : List α → Nat
  | [] => 0
  | a :: l => g a + sumBy g l

/-! ## Write pipeline — scheduler.py:222-339 (`execute_write_reqs`) and 196-216 (`PendingIOWork.complete`) -/

/-- Where a `_WritePipeline` object currently is (scheduler.py:231-235). -/
inductive WStage where
  | rfs    -- in `ready_for_staging`
  | stg    -- its `stage_buffer` task is in `staging_tasks`
  | rfi    -- in `ready_for_io`
  | io     -- its `write_buffer` task is in `io_tasks`
  | done
  deriving DecidableEq, Repr

structure WSlot where
  req : Req
  stage : WStage
  deriving DecidableEq, Repr

structure WState where
  slots  : List WSlot
  budget : Int          -- `memory_budget_bytes`
  failed : Bool         -- a `d.result()` raised; the coroutine has terminated with that exception
  deriving DecidableEq, Repr

inductive WKind where
  | stageStart      -- dispatch_staging: `create_task(p.stage_buffer(executor))`   (266-276)
  | stageDone  -- `d in staging_tasks` branch                                 (304-314)
  | ioStart    -- dispatch_io / complete(): `create_task(p.write_buffer())`   (285-290, 208-213)
  | ioDone     -- `d in io_tasks` branch / complete()                         (316-320, 201-207)
  | stageFail  -- `d.result()` raises for a staging task                      (306)
  | ioFail     -- `d.result()` raises for a write task                        (318, 202)
  deriving DecidableEq, Repr

structure WEvent where
  kind : WKind
  req  : Nat
  deriving DecidableEq, Repr

/-- Stage a request must be in for the event. -/
def WKind.src : WKind → WStage
  | .stageStart => .rfs | .stageDone => .stg | .ioStart => .rfi | .ioDone => .io
  | .stageFail => .stg | .ioFail => .io

/-- Stage the request moves to; `none` = the event makes the coroutine raise. -/
def WKind.dst : WKind → Option WStage
  | .stageStart => some .stg | .stageDone => some .rfi | .ioStart => some .io | .ioDone => some .done
  | .stageFail => none | .ioFail => none

/-- 1 for the stages counted by `len(staging_tasks) + len(ready_for_io) + len(io_tasks)` (270). -/
def WStage.live : WStage → Nat
  | .stg => 1 | .rfi => 1 | .io => 1 | _ => 0

def WStage.isRfi : WStage → Nat
  | .rfi => 1 | _ => 0

def WStage.isIo : WStage → Nat
  | .io => 1 | _ => 0

/-- Bytes accounted to a request: declared cost while staging, buffer size until written. -/
def WSlot.held (sl : WSlot) : Nat :=
  match sl.stage with
  | .stg => sl.req.cost
  | .rfi => sl.req.buf
  | .io => sl.req.buf
  | _ => 0

def WState.inflight (s : WState) : Nat := sumBy (fun sl => sl.stage.live) s.slots
def WState.nRfi (s : WState) : Nat := sumBy (fun sl => sl.stage.isRfi) s.slots
def WState.nIo (s : WState) : Nat := sumBy (fun sl => sl.stage.isIo) s.slots
def WState.accounted (s : WState) : Nat := sumBy WSlot.held s.slots

/-- The admission test of `dispatch_staging` (269-272): nothing in flight, or `cost < budget`
(strict). -/
def WState.admissible (s : WState) (sl : WSlot) : Prop :=
  s.inflight = 0 ∨ (sl.req.cost : Int) < s.budget

instance (s : WState) (sl : WSlot) : Decidable (s.admissible sl) := by
  unfold WState.admissible; exact inferInstance

/-- `dispatch_io` ran to its end (285-290): nothing left in `ready_for_io`, or
`len(io_tasks) >= get_max_per_rank_io_concurrency()`. -/
def WState.ioSaturated (cap : Nat) (s : WState) : Prop := s.nRfi = 0 ∨ cap ≤ s.nIo

instance (cap : Nat) (s : WState) : Decidable (s.ioSaturated cap) := by
  unfold WState.ioSaturated; exact inferInstance

/-- `dispatch_staging` ran to its end (266-276; it scans every element, no `break`): no request of
`ready_for_staging` passes the admission test. (The test is antitone along the scan, so "rejected
when visited" = "rejected at the end".) -/
def WState.stSaturated (s : WState) : Prop :=
  ∀ sl ∈ s.slots, sl.stage = .rfs → ¬ s.admissible sl

instance (s : WState) : Decidable s.stSaturated := by
  unfold WState.stSaturated; exact inferInstance

/-- State in which the coroutine sits in `asyncio.wait` (300, 198): both dispatch loops done. -/
def WState.quiescent (cap : Nat) (s : WState) : Prop := s.ioSaturated cap ∧ s.stSaturated

instance (cap : Nat) (s : WState) : Decidable (s.quiescent cap) := by
  unfold WState.quiescent; exact inferInstance

/-- Guard of each event. `dispatch_io` precedes `dispatch_staging` (325-331), so an admission
happens only once `dispatch_io` is done; a write starts only below the cap (286 / 209: `>=` breaks);
completions are processed only from `asyncio.wait`. -/
def wguard (cap : Nat) (s : WState) (sl : WSlot) : WKind → Prop
  | .stageStart => s.ioSaturated cap ∧ s.admissible sl
  | .ioStart => s.nIo < cap
  | _ => s.quiescent cap

instance (cap : Nat) (s : WState) (sl : WSlot) (k : WKind) : Decidable (wguard cap s sl k) := by
  cases k <;> (unfold wguard; exact inferInstance)

/-- Error reported when the guard is false. -/
def WKind.guardErr : WKind → Err
  | .stageStart => .notEnabled | .ioStart => .notEnabled | _ => .notQuiescent

/-- Budget update of each event: 273 (`-= cost`), 311-312 (`+= cost; -= buf_sz`), 319 / 203
(`+= buf_sz`). -/
def wdelta (sl : WSlot) : WKind → Int
  | .stageStart => - (sl.req.cost : Int)
  | .stageDone => (sl.req.cost : Int) - (sl.req.buf : Int)
  | .ioDone => (sl.req.buf : Int)
  | _ => 0

/-- One scheduler action. -/
def wstep (cap : Nat) (s : WState) (e : WEvent) : Except Err WState :=
  if s.failed then .error .finished else
  match s.slots[e.req]? with
  | none => .error .badId
  | some sl =>
    if sl.stage ≠ e.kind.src then .error .notEnabled
    else if ¬ wguard cap s sl e.kind then .error e.kind.guardErr
    else match e.kind.dst with
      | none => .ok { s with failed := true }
      | some d => .ok { slots := s.slots.set e.req { sl with stage := d },
                        budget := s.budget + wdelta sl e.kind, failed := false }

def wrun (cap : Nat) : WState → List WEvent → Except Err WState
  | s, [] => .ok s
  | s, e :: tr =>
    match wstep cap s e with
    | .ok s' => wrun cap s' tr
    | .error x => .error x

/-- A pipeline instance: the request list, the initial `memory_budget_bytes`, and
`get_max_per_rank_io_concurrency()`. -/
structure Config where
  reqs   : List Req
  budget : Int
  cap    : Nat
  deriving Repr

/-- scheduler.py:239-242: everything in `ready_for_staging`. -/
def wInit (cfg : Config) : WState :=
  { slots := cfg.reqs.map (fun r => ⟨r, .rfs⟩), budget := cfg.budget, failed := false }

def WStage.isDone : WStage → Bool
  | .done => true | _ => false

def WState.allDone (s : WState) : Bool := s.slots.all (fun sl => sl.stage.isDone)

/-- What `execute_write_reqs(...)` followed by `PendingIOWork.complete()` has done so far. -/
def WState.outcome (s : WState) : Outcome :=
  if s.failed then .error else if s.allDone then .ok else .running

/-- Trace acceptor: every event of the observed trace is enabled when it happens. -/
def waccepts (cfg : Config) (tr : List WEvent) : Bool :=
  match wrun cfg.cap (wInit cfg) tr with
  | .ok _ => true
  | .error _ => false

/-- Termination measure: 4/3/2/1/0 per request in rfs/stg/rfi/io/done, plus one while not failed. -/
def WStage.weight : WStage → Nat
  | .rfs => 4 | .stg => 3 | .rfi => 2 | .io => 1 | .done => 0

def WState.measure (s : WState) : Nat :=
  if s.failed then 0 else 1 + sumBy (fun sl => sl.stage.weight) s.slots

/-- Candidate non-failure events, in the order the greedy scheduler tries them. -/
def wCandidates (n : Nat) : List WEvent :=
  (List.range n).map (fun r => ⟨.ioStart, r⟩) ++ (List.range n).map (fun r => ⟨.stageStart, r⟩)
  ++ (List.range n).map (fun r => ⟨.stageDone, r⟩) ++ (List.range n).map (fun r => ⟨.ioDone, r⟩)

def isOk {ε α : Type} : Except ε α → Bool
  | .ok _ => true
  | .error _ => false

def wGreedyNext (cap : Nat) (s : WState) : Option WEvent :=
  (wCandidates s.slots.length).find? (fun e => isOk (wstep cap s e))

/-- Deterministic scheduler: always the first enabled candidate; `fuel` = the measure. -/
def wRunGreedyAux (cap : Nat) : Nat → WState → List WEvent × WState
  | 0, s => ([], s)
  | fuel + 1, s =>
    match wGreedyNext cap s with
    | none => ([], s)
    | some e =>
      match wstep cap s e with
      | .ok s' => let r := wRunGreedyAux cap fuel s'; (e :: r.1, r.2)
      | .error _ => ([], s)

def wRunGreedy (cfg : Config) : List WEvent × WState :=
  wRunGreedyAux cfg.cap (wInit cfg).measure (wInit cfg)

/-! ## Read pipeline — scheduler.py:386-446 (`execute_read_reqs`) -/

inductive RStage where
  | pending    -- index in `pending_ids`
  | io         -- its `read_buffer` task is in `io_tasks`
  | consuming  -- its `consume_buffer` task is in `consuming_tasks`
  | done
  deriving DecidableEq, Repr

structure RSlot where
  req : Req
  stage : RStage
  deriving DecidableEq, Repr

structure RState where
  slots    : List RSlot
  budget   : Int
  failed   : Bool
  /-- `true` from the first admission of a dispatch scan (403-416) until the next completion is
  processed; `false` while the `for d in done` loop (429-441) runs. Initially `true`. -/
  scanning : Bool
  deriving DecidableEq, Repr

inductive RKind where
  | ioStart      -- 408-415: `memory_budget_bytes -= cost; create_task(read_buffer())`
  | ioDone       -- 430-436: read finished, `create_task(consume_buffer(executor))`
  | consumeDone  -- 437-441: `memory_budget_bytes += cost`
  | ioFail       -- 432: `d.result()` raises
  | consumeFail  -- 439: `d.result()` raises
  deriving DecidableEq, Repr

structure REvent where
  kind : RKind
  req  : Nat
  deriving DecidableEq, Repr

def RKind.src : RKind → RStage
  | .ioStart => .pending | .ioDone => .io | .consumeDone => .consuming
  | .ioFail => .io | .consumeFail => .consuming

def RKind.dst : RKind → Option RStage
  | .ioStart => some .io | .ioDone => some .consuming | .consumeDone => some .done
  | .ioFail => none | .consumeFail => none

/-- 1 for the stages counted by `len(io_tasks) + len(consuming_tasks)` (409, after the D5 repair). -/
def RStage.live : RStage → Nat
  | .io => 1 | .consuming => 1 | _ => 0

def RStage.isIo : RStage → Nat
  | .io => 1 | _ => 0

/-- The scheduler's own accounting: the declared cost from admission until consumption ends. -/
def RSlot.held (sl : RSlot) : Nat :=
  match sl.stage with
  | .io => sl.req.cost
  | .consuming => sl.req.cost
  | _ => 0

/-- The property's accounting: declared cost until the buffer exists, buffer size until consumed. -/
def RSlot.heldReal (sl : RSlot) : Nat :=
  match sl.stage with
  | .io => sl.req.cost
  | .consuming => sl.req.buf
  | _ => 0

def RState.inflight (s : RState) : Nat := sumBy (fun sl => sl.stage.live) s.slots
def RState.nIo (s : RState) : Nat := sumBy (fun sl => sl.stage.isIo) s.slots
def RState.accounted (s : RState) : Nat := sumBy RSlot.held s.slots
def RState.accountedReal (s : RState) : Nat := sumBy RSlot.heldReal s.slots

/-- Admission test (408-411): `len(io_tasks) + len(consuming_tasks) == 0 or cost < budget`. -/
def RState.admissible (s : RState) (sl : RSlot) : Prop :=
  s.inflight = 0 ∨ (sl.req.cost : Int) < s.budget

instance (s : RState) (sl : RSlot) : Decidable (s.admissible sl) := by
  unfold RState.admissible; exact inferInstance

/-- The dispatch scan (403-416) is over: it hit the cap (`len(io_tasks) >= cap` → wait, `break`) or
it visited every pending id and none of the remaining ones passes the admission test. -/
def RState.saturated (cap : Nat) (s : RState) : Prop :=
  cap ≤ s.nIo ∨ ∀ sl ∈ s.slots, sl.stage = .pending → ¬ s.admissible sl

instance (cap : Nat) (s : RState) : Decidable (s.saturated cap) := by
  unfold RState.saturated; exact inferInstance

/-- Guards. A read starts below the cap (404: `>=` breaks) if admissible. The first completion
after a scan is processed only when the scan is over; further completions of the same `done` set
(429) are processed without a dispatch in between. -/
def rguard (cap : Nat) (s : RState) (sl : RSlot) : RKind → Prop
  | .ioStart => s.nIo < cap ∧ s.admissible sl
  | _ => s.scanning = true → s.saturated cap

instance (cap : Nat) (s : RState) (sl : RSlot) (k : RKind) : Decidable (rguard cap s sl k) := by
  cases k <;> (unfold rguard; exact inferInstance)

def RKind.guardErr : RKind → Err
  | .ioStart => .notEnabled | _ => .notQuiescent

/-- Budget update: 412 (`-= cost`), 440 (`+= cost`); nothing when the read finishes. -/
def rdelta (sl : RSlot) : RKind → Int
  | .ioStart => - (sl.req.cost : Int)
  | .consumeDone => (sl.req.cost : Int)
  | _ => 0

def RKind.isStart : RKind → Bool
  | .ioStart => true | _ => false

def rstep (cap : Nat) (s : RState) (e : REvent) : Except Err RState :=
  if s.failed then .error .finished else
  match s.slots[e.req]? with
  | none => .error .badId
  | some sl =>
    if sl.stage ≠ e.kind.src then .error .notEnabled
    else if ¬ rguard cap s sl e.kind then .error e.kind.guardErr
    else match e.kind.dst with
      | none => .ok { s with failed := true }
      | some d => .ok { slots := s.slots.set e.req { sl with stage := d },
                        budget := s.budget + rdelta sl e.kind, failed := false,
                        scanning := e.kind.isStart }

def rrun (cap : Nat) : RState → List REvent → Except Err RState
  | s, [] => .ok s
  | s, e :: tr =>
    match rstep cap s e with
    | .ok s' => rrun cap s' tr
    | .error x => .error x

/-- scheduler.py:392-395. -/
def rInit (cfg : Config) : RState :=
  { slots := cfg.reqs.map (fun r => ⟨r, .pending⟩), budget := cfg.budget, failed := false,
    scanning := true }

def RStage.isDone : RStage → Bool
  | .done => true | _ => false

def RState.allDone (s : RState) : Bool := s.slots.all (fun sl => sl.stage.isDone)

def RState.outcome (s : RState) : Outcome :=
  if s.failed then .error else if s.allDone then .ok else .running

def raccepts (cfg : Config) (tr : List REvent) : Bool :=
  match rrun cfg.cap (rInit cfg) tr with
  | .ok _ => true
  | .error _ => false

def RStage.weight : RStage → Nat
  | .pending => 3 | .io => 2 | .consuming => 1 | .done => 0

def RState.measure (s : RState) : Nat :=
  if s.failed then 0 else 1 + sumBy (fun sl => sl.stage.weight) s.slots

def rCandidates (n : Nat) : List REvent :=
  (List.range n).map (fun r => ⟨.ioStart, r⟩) ++ (List.range n).map (fun r => ⟨.ioDone, r⟩)
  ++ (List.range n).map (fun r => ⟨.consumeDone, r⟩)

def rGreedyNext (cap : Nat) (s : RState) : Option REvent :=
  (rCandidates s.slots.length).find? (fun e => isOk (rstep cap s e))

def rRunGreedyAux (cap : Nat) : Nat → RState → List REvent × RState
  | 0, s => ([], s)
  | fuel + 1, s =>
    match rGreedyNext cap s with
    | none => ([], s)
    | some e =>
      match rstep cap s e with
      | .ok s' => let r := rRunGreedyAux cap fuel s'; (e :: r.1, r.2)
      | .error _ => ([], s)

def rRunGreedy (cfg : Config) : List REvent × RState :=
  rRunGreedyAux cfg.cap (rInit cfg).measure (rInit cfg)

/-! ## Batched sub-tasks — batcher.py:66-93 (`BatchedBufferStager.stage_buffer`) and 367-381
(`BatchedBufferConsumer.consume_buffer`, after the D1 repair): the composite operation retrieves
the result of every sub-task, so it succeeds iff every sub-operation succeeds. -/
def batchSucceeds (subOk : List Bool) : Bool := subOk.all id

/-! ## Memory budget — scheduler.py:35-67 -/
namespace Budget

/-- `int(psutil.virtual_memory().available * _AVAILABLE_MEMORY_MULTIPLIER)` in exact arithmetic
(the float product has the same integer part for `available < 2^50`; sampled by the harness). -/
def availableShare (avail : Nat) : Nat :=
  avail * Ts.Gen.availableMemoryMultiplierNum / Ts.Gen.availableMemoryMultiplierDen

/-- scheduler.py:63-65 for a non-zero local world size. -/
def autoVal (avail lws : Nat) : Nat :=
  min (availableShare avail / lws) Ts.Gen.maxPerRankMemoryBudgetBytes

/-- scheduler.py:59-65; `//` by zero raises. -/
def auto (avail lws : Nat) : Except Err Nat :=
  if lws = 0 then .error .zeroDivision else .ok (autoVal avail lws)

/-- `get_local_world_size` (35-44): how many gathered hostnames equal this rank's. -/
def localWorldSize {α : Type} [DecidableEq α] (hostnames : List α) (mine : α) : Nat :=
  hostnames.count mine

/-- The environment variable `TORCHSNAPSHOT_PER_RANK_MEMORY_BUDGET_BYTES`. -/
inductive Override where
  | absent
  | unparseable          -- `int(...)` raises: a warning is logged and the automatic rule applies
  | value (v : Int)
  deriving DecidableEq, Repr

/-- `get_process_memory_budget_bytes` (47-67). -/
def processBudget {α : Type} [DecidableEq α] (ov : Override) (avail : Nat) (hostnames : List α)
    (mine : α) : Except Err Int :=
  match ov with
  | .value v => .ok v
  | _ => match auto avail (localWorldSize hostnames mine) with
    | .ok v => .ok (v : Int)
    | .error e => .error e

end Budget

end Ts.Sched
