/-
  TsModel.BatchRead — `batch_read_requests` and `BatchedBufferConsumer` (batcher.py:358-470), plus the
  execution of a read plan against a file store (what `FSStoragePlugin.read` hands to `consume_buffer`).
  Consumers are named by a `Nat` id.
-/
import TsModel.Storage
import TsModel.Slab

namespace Ts.BatchRead
open Ts.Storage (Bytes slice seekRead)
open Ts.Slab (dictOfList)

/-- `ReadReq(path, buffer_consumer, byte_range)`. -/
structure RReq (α : Type) where
  path : α
  range : Option (Nat × Nat)
  consumer : Nat
  deriving DecidableEq, Repr

/-- An element of the returned `batched_read_reqs`. -/
inductive OutRR (α : Type) where
  | pass (r : RReq α)                                  -- whole-object read, untouched
  | merged (path : α) (range : Nat × Nat)              -- the spanning range
           (subs : List ((Int × Int) × Nat))           -- byte_range_to_buffer_consumer (a dict)
           (bufSz : Int)                               -- buf_sz_bytes (taken from the *last* request's range)
  deriving Repr

/-- First-appearance order of the keys of `location_to_ranged_read_reqs` (a `defaultdict`). -/
def dedup {α : Type} [BEq α] : List α → List α
  | [] => []
  | a :: as => a :: (dedup as).filter (fun b => !(b == a))

/-- `location_to_byte_range[path]` after the first loop: running min of starts / max of ends
(batcher.py:430-436), seeded with the first range. -/
def span : List (Nat × Nat) → Option (Nat × Nat)
  | [] => none
  | r :: rs => some (rs.foldl (fun acc x => (min acc.1 x.1, max acc.2 x.2)) r)

/-- The ranged requests of one location, in request order, as `(range, consumer)`. -/
def group {α : Type} [BEq α] (reqs : List (RReq α)) (loc : α) : List ((Nat × Nat) × Nat) :=
  reqs.filterMap (fun r => match r.range with
    | some br => if r.path == loc then some (br, r.consumer) else none
    | none => none)

/-- `adjusted_byte_range` (batcher.py:448-451), as Python ints. -/
def adjust (lower : Nat) (br : Nat × Nat) : Int × Int :=
  ((br.1 : Int) - (lower : Int), (br.2 : Int) - (lower : Int))

/-- One merged request (batcher.py:439-463). -/
def mergeLoc {α : Type} [BEq α] (reqs : List (RReq α)) (loc : α) : List (OutRR α) :=
  let g := group reqs loc
  match span (g.map (·.1)), g.getLast? with
  | some sp, some last =>
    [OutRR.merged loc sp (dictOfList (g.map (fun e => (adjust sp.1 e.1, e.2))))
      ((last.1.2 : Int) - (last.1.1 : Int))]
  | _, _ => []

/-- `batch_read_requests(read_reqs)`: whole-object reads first (in order), then one merged request per
location in first-appearance order. -/
def merge {α : Type} [BEq α] (reqs : List (RReq α)) : List (OutRR α) :=
  (reqs.filter (fun r => r.range.isNone)).map OutRR.pass
  ++ (dedup ((reqs.filter (fun r => r.range.isSome)).map (·.path))).flatMap (mergeLoc reqs)

/-! ### Consuming -/

/-- A Python slice index against a length (negative counts from the end; clamped). -/
def normIdx (len : Nat) (i : Int) : Nat :=
  if i < 0 then ((len : Int) + i).toNat else min i.toNat len

/-- `buf[a:b]` for Python ints. -/
def pySlice (b : Bytes) (lo hi : Int) : Bytes :=
  slice b (normIdx b.length lo) (normIdx b.length hi)

/-- `BatchedBufferConsumer.consume_buffer` (batcher.py:369-384): every sub-consumer receives
`buf[byte_range[0] : byte_range[1]]`. Result: `(consumer, bytes)` deliveries. -/
def consume (buf : Bytes) (subs : List ((Int × Int) × Nat)) : List (Nat × Bytes) :=
  subs.map (fun s => (s.2, pySlice buf s.1.1 s.1.2))

/-- What the storage plugin returns for a request (`FSStoragePlugin.read`, see `Ts.Storage.FS.read`). -/
def readFile (file : Bytes) : Option (Nat × Nat) → Bytes
  | none => file
  | some (lo, hi) => seekRead file lo ((hi : Int) - (lo : Int))

/-- Execute a (batched) read plan against a store; `none` = a requested object is missing. -/
def exec {α : Type} (store : α → Option Bytes) : List (OutRR α) → Option (List (Nat × Bytes))
  | [] => some []
  | .pass r :: rest =>
    match store r.path, exec store rest with
    | some f, some ds => some ((r.consumer, readFile f r.range) :: ds)
    | _, _ => none
  | .merged p range subs _ :: rest =>
    match store p, exec store rest with
    | some f, some ds => some (consume (readFile f (some range)) subs ++ ds)
    | _, _ => none

/-- Execute an un-batched plan. -/
def execPlain {α : Type} (store : α → Option Bytes) : List (RReq α) → Option (List (Nat × Bytes))
  | [] => some []
  | r :: rest =>
    match store r.path, execPlain store rest with
    | some f, some ds => some ((r.consumer, readFile f r.range) :: ds)
    | _, _ => none

end Ts.BatchRead
