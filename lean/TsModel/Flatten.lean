import TsModel.Path
/-
  TsModel.Flatten — executable model of `torchsnapshot/flatten.py` (`flatten`, `_flatten`,
  `inflate`, `_should_flatten_dict`, `_entry_to_container`, `_populate_container`) and of the
  container entries of `manifest.py` (`ListEntry`, `DictEntry`, `OrderedDictEntry`).

  Conventions
  * a Python `dict` (insertion ordered) is an association list; the operations below
    (`setKey` = `d[k] = v`, `update` = `d.update(e)`, `lookup` = `d.get(k)`) keep Python's order:
    assigning to an existing key keeps its position and replaces its value;
  * a dict *object* of the application state is `Tree.dict kind kvs`; it is a real Python object
    only if its keys are pairwise distinct under Python `==` (`Tree.wf`);
  * leaves are opaque identity tokens `Tree.leaf id`; `Tree.leaf 0` stands for `None`;
  * the leaf map maps a path to a *tree*: a dict that must not be flattened is stored whole.
-/
namespace Ts.Flatten
open Ts.Path

/-! ## Keys -/

/-- A dict key.  `str`, `int`, `bool` are the kinds `_should_flatten_dict` accepts
(`isinstance(True, int)` holds); `other n` stands for the tuple `(n,)`, a representative of the
hashable keys that are neither `str` nor `int`. -/
inductive Key where
  | str (s : Str)
  | int (i : Int)
  | bool (b : Bool)
  | other (n : Nat)
  deriving DecidableEq, Repr

/-- Python `==`/`hash` identify `True` with `1` and `False` with `0`. -/
def Key.norm : Key → Key
  | .bool true => .int 1
  | .bool false => .int 0
  | k => k

/-- Python `a == b` on keys. -/
def Key.pyEq (a b : Key) : Bool := decide (a.norm = b.norm)

/-- `str(i)` for a Python int. -/
def intStr (i : Int) : Str :=
  if i < 0 then 45 :: natStr (-i).toNat else natStr i.toNat

/-- `str(key)`: the string itself, decimal for ints, `"True"`/`"False"`, `"(n,)"`. -/
def Key.toStr : Key → Str
  | .str s => s
  | .int i => intStr i
  | .bool true => [84, 114, 117, 101]
  | .bool false => [70, 97, 108, 115, 101]
  | .other n => 40 :: (natStr n ++ [44, 41])

/-- `isinstance(k, (str, int))`. -/
def Key.isStrOrInt : Key → Bool
  | .other _ => false
  | _ => true

/-! ## Trees, entries -/

inductive Kind where
  | dict | odict
  deriving DecidableEq, Repr

/-- Container kind of a manifest entry (`ListEntry` / `DictEntry` / `OrderedDictEntry`). -/
inductive CKind where
  | list | dict | odict
  deriving DecidableEq, Repr

def Kind.toCKind : Kind → CKind
  | .dict => .dict
  | .odict => .odict

/-- A container entry: its kind and (for dicts) `keys` in order; `[]` for lists. -/
abbrev Entry := CKind × List Key

/-- Application state: `type(obj) == list`, `type(obj) in (dict, OrderedDict)`, anything else. -/
inductive Tree where
  | leaf (id : Nat)
  | list (xs : List Tree)
  | dict (k : Kind) (kvs : List (Key × Tree))
  deriving Repr

/-- Python `None` (what `dict.fromkeys` fills in). -/
def Tree.pyNone : Tree := .leaf 0

abbrev Manifest := List (Str × Entry)
abbrev LeafMap := List (Str × Tree)

/-! ## Python dict operations on association lists -/

/-- `d.get(k)`. -/
def lookup {κ α : Type} [DecidableEq κ] : List (κ × α) → κ → Option α
  | [], _ => none
  | (k', v) :: r, k => if k' = k then some v else lookup r k

/-- `d[k] = v`: replace in place, or append. -/
def setKey {κ α : Type} [DecidableEq κ] : List (κ × α) → κ → α → List (κ × α)
  | [], k, v => [(k, v)]
  | (k', v') :: r, k, v => if k' = k then (k', v) :: r else (k', v') :: setKey r k v

/-- `a.update(b)` (also `dict(b)` when `a = []`). -/
def update {κ α : Type} [DecidableEq κ] (a b : List (κ × α)) : List (κ × α) :=
  b.foldl (fun acc kv => setKey acc kv.1 kv.2) a

/-! ## `_should_flatten_dict` -/

/-- The distinct elements (`{str(k) for k in d.keys()}`; only its size is used). -/
def dedupStr : List Str → List Str
  | [] => []
  | s :: r => if (dedupStr r).contains s then dedupStr r else s :: dedupStr r

/-- `_should_flatten_dict` (flatten.py:152-164) on the key list of the dict. -/
def shouldFlatten (keys : List Key) : Bool :=
  if !(keys.all Key.isStrOrInt) then false
  else if (dedupStr (keys.map Key.toStr)).length < keys.length then false
  else true

/-- Keys pairwise distinct under Python `==`. -/
def distinctKeys : List Key → Bool
  | [] => true
  | k :: ks => ks.all (fun k' => !(k.pyEq k')) && distinctKeys ks

mutual
/-- The tree is a Python object: every dict in it (flattened or not) has distinct keys. -/
def Tree.wf : Tree → Bool
  | .leaf _ => true
  | .list xs => wfL xs
  | .dict _ kvs => distinctKeys (kvs.map (·.1)) && wfKV kvs
def wfL : List Tree → Bool
  | [] => true
  | x :: xs => x.wf && wfL xs
def wfKV : List (Key × Tree) → Bool
  | [] => true
  | kv :: r => kv.2.wf && wfKV r
end

/-! ## `flatten` -/

mutual
/-- `_flatten(obj, prefix)` (flatten.py:53-76). -/
def flattenT (p : Str) : Tree → Manifest × LeafMap
  | .leaf i => ([], [(p, .leaf i)])
  | .list xs => flattenL p 0 xs ([(p, (CKind.list, []))], [])
  | .dict k kvs =>
    if shouldFlatten (kvs.map (·.1)) then
      flattenKV p kvs ([(p, (k.toCKind, kvs.map (·.1)))], [])
    else ([], [(p, .dict k kvs)])
/-- the `for idx, elem in enumerate(obj)` loop: `path = f"{prefix}/{idx}"`, two `update`s. -/
def flattenL (p : Str) : Nat → List Tree → Manifest × LeafMap → Manifest × LeafMap
  | _, [], acc => acc
  | i, x :: xs, acc =>
    let r := flattenT (p ++ 47 :: natStr i) x
    flattenL p (i + 1) xs (update acc.1 r.1, update acc.2 r.2)
/-- the `for key, elem in obj.items()` loop: `path = f"{prefix}/{_encode(str(key))}"`. -/
def flattenKV (p : Str) : List (Key × Tree) → Manifest × LeafMap → Manifest × LeafMap
  | [], acc => acc
  | kv :: rest, acc =>
    let r := flattenT (p ++ 47 :: encode kv.1.toStr) kv.2
    flattenKV p rest (update acc.1 r.1, update acc.2 r.2)
end

/-- `flatten(obj, prefix)` (flatten.py:20-50): the prefix is encoded first. -/
def flatten (t : Tree) (pre : Str) : Manifest × LeafMap := flattenT (encode pre) t

/-! ## `inflate` -/

/-- What a parent container holds for a child path: a reference to the container instantiated
for that path, or a leaf value. -/
inductive Child where
  | cont (path : Str)
  | leaf (t : Tree)
  deriving Repr

/-- `container_path_to_vals`: parent path ↦ (last token ↦ child), both insertion ordered. -/
abbrev Groups := List (Str × List (Str × Child))

/-- `tokens.pop()` on a token list: (remaining tokens, popped token). -/
def popLast {α : Type} : List α → Option (List α × α)
  | [] => none
  | [a] => some ([], a)
  | a :: r => (popLast r).map (fun il => (a :: il.1, il.2))

/-- flatten.py:116-121: `tokens = path.split("/")`; fewer than two tokens is the defensive
"Invalid path" assertion (`none`); else `("/".join(tokens[:-1]), tokens[-1])`. -/
def parentKey (path : Str) : Option (Str × Str) :=
  match popLast (splitSlash path) with
  | none => none
  | some (init, last) => if init = [] then none else some (joinSlash init, last)

/-- `container_path_to_vals[parent][key] = obj` on a `defaultdict(dict)`. -/
def addToGroup : Groups → Str → Str → Child → Groups
  | [], parent, key, c => [(parent, [(key, c)])]
  | (q, vs) :: rest, parent, key, c =>
    if q = parent then (q, setKey vs key c) :: rest
    else (q, vs) :: addToGroup rest parent key c

/-- flatten.py:111-122, the grouping loop over `chain(containers.items(), flattened.items())`. -/
def groupAux (pre : Str) : List (Str × Child) → Groups → Except Err Groups
  | [], g => .ok g
  | (path, c) :: rest, g =>
    if path = pre then groupAux pre rest g
    else match parentKey path with
      | none => .error .assertion
      | some (par, key) => groupAux pre rest (addToGroup g par key c)

/-- `Except`-valued map, left to right, first error wins. -/
def mapE {α β : Type} (f : α → Except Err β) : List α → Except Err (List β)
  | [] => .ok []
  | a :: r =>
    match f a with
    | .error e => .error e
    | .ok b => match mapE f r with
      | .error e => .error e
      | .ok bs => .ok (b :: bs)

/-- `int(e[0])` for every item of `values` (the sort keys of `_populate_container`, list case). -/
def intKeys (vs : List (Str × Child)) : Except Err (List (Int × Child)) :=
  mapE (fun kc => (pyInt kc.1).map (fun i => (i, kc.2))) vs

/-- `_decode(k)` for every item of `values` (`_populate_container`, dict case). -/
def decodeKeys (vs : List (Str × Child)) : Except Err (List (Str × Child)) :=
  mapE (fun kc => (decode kc.1).map (fun s => (s, kc.2))) vs

/-- `sorted(values.items(), key=lambda e: int(e[0]))` — a stable sort by the integer key. -/
def sortByInt (ivs : List (Int × Child)) : List (Int × Child) :=
  ivs.mergeSort (fun a b => decide (a.1 ≤ b.1))

/-- flatten.py:124-132: one iteration of the populate loop, as far as it can fail:
`containers[path]` (KeyError) and, for a list container, `int()` of every child token. -/
def checkGroup (M : Manifest) (g : Str × List (Str × Child)) : Except Err Unit :=
  match lookup M g.1 with
  | none => .error .keyError
  | some (CKind.list, _) => (intKeys g.2).map (fun _ => ())
  | some (_, _) => (decodeKeys g.2).map (fun _ => ())

def checkGroups (M : Manifest) : Groups → Except Err Unit
  | [] => .ok ()
  | g :: gs => match checkGroup M g with
    | .error e => .error e
    | .ok _ => checkGroups M gs

/-- `dict.fromkeys(entry.keys)`: first occurrence of each key (under `==`) in order. -/
def dedupKeys : List Key → List Key
  | [] => []
  | k :: ks => k :: (dedupKeys ks).filter (fun k' => !(k.pyEq k'))

/-- `_entry_to_container` (flatten.py:167-182) for a container nobody populates. -/
def emptyContainer : CKind → List Key → Tree
  | .list, _ => .list []
  | .dict, keys => .dict .dict ((dedupKeys keys).map (fun k => (k, Tree.pyNone)))
  | .odict, keys => .dict .odict ((dedupKeys keys).map (fun k => (k, Tree.pyNone)))

/-- A child reference becomes the (populated) container of that path, a leaf stays. -/
def resolveWith (rec : Str → Except Err Tree) : Child → Except Err Tree
  | .leaf t => .ok t
  | .cont q => rec q

/-- `_populate_container`, dict case (flatten.py:189-203): for each key of the container in
order, keep it with the value found under `str(key)`, else delete it. -/
def popDict (k2v : List (Str × Child)) (res : Child → Except Err Tree) :
    List Key → Except Err (List (Key × Tree))
  | [] => .ok []
  | key :: ks =>
    match lookup k2v key.toStr with
    | some ch =>
      match res ch with
      | .error e => .error e
      | .ok v => match popDict k2v res ks with
        | .error e => .error e
        | .ok r => .ok ((key, v) :: r)
    | none => popDict k2v res ks

/-- The object `containers[path]` after the populate loop, references followed recursively.
Fuel: one unit per nesting level; nesting is bounded by the number of container entries. -/
def build (M : Manifest) (G : Groups) : Nat → Str → Except Err Tree
  | 0, _ => .error .fuel
  | n + 1, path =>
    match lookup M path with
    | none => .error .keyError
    | some (kind, keys) =>
      match lookup G path with
      | none => .ok (emptyContainer kind keys)
      | some values =>
        match kind with
        | .list =>
          match intKeys values with
          | .error e => .error e
          | .ok ivs =>
            match mapE (resolveWith (build M G n)) ((sortByInt ivs).map (·.2)) with
            | .error e => .error e
            | .ok xs => .ok (.list xs)
        | .dict =>
          match decodeKeys values with
          | .error e => .error e
          | .ok dv =>
            match popDict (update [] dv) (resolveWith (build M G n)) (dedupKeys keys) with
            | .error e => .error e
            | .ok kvs => .ok (.dict .dict kvs)
        | .odict =>
          match decodeKeys values with
          | .error e => .error e
          | .ok dv =>
            match popDict (update [] dv) (resolveWith (build M G n)) (dedupKeys keys) with
            | .error e => .error e
            | .ok kvs => .ok (.dict .odict kvs)

/-- `inflate(manifest, flattened, prefix)` (flatten.py:79-133).  `M`, `F` are Python dicts:
their paths are assumed pairwise distinct. -/
def inflate (M : Manifest) (F : LeafMap) (pre : Str) : Except Err Tree :=
  let p := encode pre
  let M' := M.filter (fun e => decide (firstTok e.1 = p))
  let F' := F.filter (fun e => decide (firstTok e.1 = p))
  match lookup F' p with
  | some v => .ok v
  | none =>
    match lookup M' p with
    | none => .error .absent
    | some _ =>
      match groupAux p (M'.map (fun e => (e.1, Child.cont e.1)) ++
                        F'.map (fun e => (e.1, Child.leaf e.2))) [] with
      | .error e => .error e
      | .ok G =>
        match checkGroups M' G with
        | .error e => .error e
        | .ok _ => build M' G (M'.length + 1) p

end Ts.Flatten
