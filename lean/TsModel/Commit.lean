import TsModel.Barrier
/-
  TsModel.Commit — the commit protocol of `Snapshot.take` and of `Snapshot.async_take` +
  `PendingSnapshot._complete_snapshot` (snapshot.py), as two deterministic-per-label transition
  systems over `n ≥ 1` ranks, with the linearised event history, fault plans and crash cuts.

  * one step = one storage event (begin / end of one write), one store operation, one I/O
    completion, one collective entry/exit, or one thread exit — of ONE rank;
  * a *schedule* is a list of labels `(rank, action)`: the rank whose turn it is and, while the rank
    is writing payload, which of its writes begins / ends (`ctl` = the rank's next control step).
    A label that is not enabled is a no-op in `arun` / `srun` and is rejected by `astep?` / `sstep?`;
  * a *fault plan* says which payload writes raise (`pfail r w`) and whether the metadata write
    raises (`mfail`); quantifying over all plans covers "the k-th write issued by rank r raises"
    for every issue order;
  * the history is kept newest-first in the state (`hist`); `trace` is the chronological list and a
    *cut* is any prefix of it.
-/
namespace Ts.Commit
open Ts.Barrier

/-- State of one storage write (`StoragePlugin.write` of one object). -/
inductive WSt where
  | idle        -- not issued yet
  | inflight    -- `write` entered, not returned: the object may be absent, partial or complete
  | done        -- `write` returned normally
  | failed      -- `write` raised
  deriving DecidableEq, Repr

/-- One snapshot attempt ("round"): world size, barrier prefix id, workload and fault plan. -/
structure Cfg where
  n : Nat                      -- world size
  pfx : Nat                    -- id of the `LinearBarrier` prefix string used by this attempt
  nw : Nat → Nat               -- number of payload writes (`WriteReq`s after batching) of rank r
  pfail : Nat → Nat → Bool     -- payload write w of rank r raises
  mfail : Bool                 -- the `.snapshot_metadata` write raises

/-- Linearised events (storage, store, control) of both protocols. -/
inductive Ev where
  | wBegin (r w : Nat)         -- payload write w of rank r enters the storage plugin
  | wEnd (r w : Nat)           -- … returns
  | wFail (r w : Nat)          -- … raises
  | ioComplete (r : Nat)       -- `PendingIOWork.sync_complete` returned on rank r
  | ioFail (r : Nat)           -- `PendingIOWork.sync_complete` raised on rank r
  | set (r : Nat) (v : Val)    -- `store.set(key_r, v)` by rank r (a rank only ever sets its own key)
  | wait (r : Nat)             -- `store.wait(...)` returned on rank r (leader: all peer keys; other: [key_0])
  | get (r k : Nat) (v : Val)  -- `store.get(key_k)` returned v on rank r
  | mBegin                     -- `.snapshot_metadata` write enters the storage plugin (rank 0)
  | mEnd                       -- … returns: the snapshot is committed
  | mFail                      -- … raises
  | waitOk (r : Nat)           -- background thread of rank r ended with `exc_info is None`: `wait()` returns
  | waitRaise (r : Nat)        -- … with `exc_info` set: `wait()` raises
  | leave1 (r : Nat)           -- sync take: rank r left the barrier before the metadata write
  | enter2 (r : Nat)           -- sync take: rank r entered the barrier after the metadata write
  | returnOk (r : Nat)         -- sync take: rank r left the second barrier; `take` returns
  | returnRaise (r : Nat)      -- sync take: `take` raises on rank r
  deriving DecidableEq, Repr

/-- What the scheduler picks for a rank. -/
inductive Act where
  | wBegin (w : Nat)
  | wEnd (w : Nat)             -- completion of write w: success or failure is decided by the fault plan
  | ctl                        -- the rank's next control step
  deriving DecidableEq, Repr

structure Lbl where
  r : Nat
  a : Act
  deriving DecidableEq, Repr

def upd {α : Type} (f : Nat → α) (r : Nat) (v : α) : Nat → α :=
  fun x => if x = r then v else f x

def upd2 {α : Type} (f : Nat → Nat → α) (r w : Nat) (v : α) : Nat → Nat → α :=
  fun x y => if x = r ∧ y = w then v else f x y

/-- `∀ k < n, f k`, executable. -/
def allB (n : Nat) (f : Nat → Bool) : Bool := (List.range n).all f

/-- `∃ k < n, f k`, executable. -/
def anyB (n : Nat) (f : Nat → Bool) : Bool := (List.range n).any f

/-- Every payload write of rank r has returned normally (what lets `PendingIOWork.complete`
leave its loop without raising, scheduler.py:196-216). -/
def allDone (nw : Nat → Nat) (ws : Nat → Nat → WSt) (r : Nat) : Bool :=
  allB (nw r) (fun w => ws r w == .done)

/-- Some payload write of rank r has raised (`d.result()` re-raises it, scheduler.py:202). -/
def anyFailed (nw : Nat → Nat) (ws : Nat → Nat → WSt) (r : Nat) : Bool :=
  anyB (nw r) (fun w => ws r w == .failed)

/-! ## async_take: `PendingSnapshot._complete_snapshot` (snapshot.py:1024-1085) -/

/-- Program point of the background thread of one rank. -/
inductive PC where
  | io                    -- in `pending_io_work.sync_complete(event_loop)`
  | arrive                -- `barrier.arrive`: non-leader about to `store.set(key_r, "")`;
                          --   leader about to `store.wait(peer_keys)`
  | arriveGet (k : Nat)   -- leader, in the loop over peer keys: about to `store.get(key_k)`
  | arriveErr             -- leader found a non-empty peer value: about to `report_error` inside `arrive`
  | mBegin                -- leader about to call `_write_snapshot_metadata`
  | mEnd                  -- leader's metadata write in flight
  | depart                -- `barrier.depart`: leader about to `store.set(key_0, "")`;
                          --   non-leader about to `store.wait([key_0])`
  | departGet             -- non-leader about to `store.get(key_0)`
  | exc                   -- `except Exception`: about to `barrier.report_error(str(e))`
  | fin (ok : Bool)       -- `finally` / thread about to end; `ok = (exc_info is None)`
  | done (ok : Bool)      -- thread ended; `wait()` returns (ok) or raises
  deriving DecidableEq, Repr

structure AState where
  pc : Nat → PC
  ws : Nat → Nat → WSt
  mst : WSt
  store : Store
  hist : List Ev            -- newest first

/-- Start of `_complete_snapshot` on every rank, over the store left by earlier attempts. -/
def AState.init (st : Store) : AState :=
  { pc := fun _ => .io, ws := fun _ _ => .idle, mst := .idle, store := st, hist := [] }

/-- Chronological history. -/
def AState.trace (s : AState) : List Ev := s.hist.reverse

/-- The control step of rank r (r < n). `none` = blocked (a `store.wait`/`get` on an absent key,
`sync_complete` with writes still in flight) or finished. -/
def actl? (cfg : Cfg) (s : AState) (r : Nat) : Option AState :=
  match s.pc r with
  | .io =>
      -- snapshot.py:1056 `pending_io_work.sync_complete(event_loop)`
      if anyFailed cfg.nw s.ws r then
        some { s with pc := upd s.pc r .exc, hist := .ioFail r :: s.hist }
      else if allDone cfg.nw s.ws r then
        some { s with pc := upd s.pc r .arrive, hist := .ioComplete r :: s.hist }
      else none
  | .arrive =>
      if r = 0 then
        -- dist_store.py:144 `self.store.wait(peer_keys, timeout)`
        if s.store.peersPresent cfg.pfx cfg.n then
          some { s with pc := upd s.pc r (if 1 < cfg.n then .arriveGet 1 else .mBegin),
                        hist := .wait r :: s.hist }
        else none
      else
        -- dist_store.py:151 `self.store.set(self._key(rank=self.rank), "")`
        some { s with pc := upd s.pc r .depart, store := s.store.set cfg.pfx r .empty,
                      hist := .set r .empty :: s.hist }
  | .arriveGet k =>
      -- dist_store.py:146-149 `err = self.store.get(key); if len(err) != 0: report_error; raise`
      match s.store cfg.pfx k with
      | none => none
      | some .empty =>
          some { s with pc := upd s.pc r (if k + 1 < cfg.n then .arriveGet (k + 1) else .mBegin),
                        hist := .get r k .empty :: s.hist }
      | some .err =>
          some { s with pc := upd s.pc r .arriveErr, hist := .get r k .err :: s.hist }
  | .arriveErr =>
      -- dist_store.py:148 `self.report_error(err=str(err))` then `raise RuntimeError`
      some { s with pc := upd s.pc r .exc, store := s.store.set cfg.pfx r .err, hist := .set r .err :: s.hist }
  | .mBegin =>
      -- snapshot.py:1059-1064 `Snapshot._write_snapshot_metadata(...)` enters the storage plugin
      some { s with pc := upd s.pc r .mEnd, mst := .inflight, hist := .mBegin :: s.hist }
  | .mEnd =>
      if cfg.mfail then
        some { s with pc := upd s.pc r .exc, mst := .failed, hist := .mFail :: s.hist }
      else
        some { s with pc := upd s.pc r .depart, mst := .done, hist := .mEnd :: s.hist }
  | .depart =>
      if r = 0 then
        -- dist_store.py:168 `self.store.set(self._key(self.leader_rank), "")`
        some { s with pc := upd s.pc r (.fin true), store := s.store.set cfg.pfx r .empty,
                      hist := .set r .empty :: s.hist }
      else
        -- dist_store.py:171 `self.store.wait([leader_key], timeout)`
        if (s.store cfg.pfx 0).isSome then
          some { s with pc := upd s.pc r .departGet, hist := .wait r :: s.hist }
        else none
  | .departGet =>
      -- dist_store.py:172-174 `err = self.store.get(leader_key); if len(err) != 0: raise`
      match s.store cfg.pfx 0 with
      | none => none
      | some .empty => some { s with pc := upd s.pc r (.fin true), hist := .get r 0 .empty :: s.hist }
      | some .err => some { s with pc := upd s.pc r .exc, hist := .get r 0 .err :: s.hist }
  | .exc =>
      -- snapshot.py:1067-1069 `barrier.report_error(str(e)); self.exc_info = sys.exc_info()`
      some { s with pc := upd s.pc r (.fin false), store := s.store.set cfg.pfx r .err,
                    hist := .set r .err :: s.hist }
  | .fin true =>
      -- snapshot.py:1073-1076 `finally: …`; thread ends; `wait()` joins and inspects `exc_info`
      some { s with pc := upd s.pc r (.done true), hist := .waitOk r :: s.hist }
  | .fin false =>
      some { s with pc := upd s.pc r (.done false), hist := .waitRaise r :: s.hist }
  | .done _ => none

/-- Storage events of payload writes (shared shape with the sync protocol). A write may begin
whenever it has not been issued; a write in flight completes as the fault plan says. -/
def wstep? (cfg : Cfg) (ws : Nat → Nat → WSt) (r : Nat) (a : Act) : Option ((Nat → Nat → WSt) × Ev) :=
  match a with
  | .wBegin w =>
      if w < cfg.nw r ∧ ws r w = .idle then some (upd2 ws r w .inflight, .wBegin r w) else none
  | .wEnd w =>
      if w < cfg.nw r ∧ ws r w = .inflight then
        (if cfg.pfail r w then some (upd2 ws r w .failed, .wFail r w)
         else some (upd2 ws r w .done, .wEnd r w))
      else none
  | .ctl => none

/-- One step of the async protocol; `none` = the label is not enabled. -/
def astep? (cfg : Cfg) (s : AState) (l : Lbl) : Option AState :=
  if l.r < cfg.n then
    match l.a with
    | .ctl => actl? cfg s l.r
    | a =>
      match wstep? cfg s.ws l.r a with
      | some (ws', e) => some { s with ws := ws', hist := e :: s.hist }
      | none => none
  else none

/-- Run a schedule; labels that are not enabled are skipped. -/
def arun (cfg : Cfg) (s : AState) (sched : List Lbl) : AState :=
  sched.foldl (fun s l => match astep? cfg s l with | some s' => s' | none => s) s

/-- Labels worth trying for rank r. -/
def lblsOf (cfg : Cfg) (r : Nat) : List Lbl :=
  ⟨r, .ctl⟩ :: ((List.range (cfg.nw r)).map (fun w => ⟨r, .wBegin w⟩)
                ++ (List.range (cfg.nw r)).map (fun w => ⟨r, .wEnd w⟩))

/-- The enabled labels of a state (used by the driver at quiescence). -/
def aenabled (cfg : Cfg) (s : AState) : List Lbl :=
  ((List.range cfg.n).flatMap (lblsOf cfg)).filter (fun l => (astep? cfg s l).isSome)

def PC.isDone : PC → Bool
  | .done _ => true
  | _ => false

/-- Every background thread has ended. -/
def AState.allTerminal (cfg : Cfg) (s : AState) : Bool :=
  allB cfg.n (fun r => (s.pc r).isDone)

/-- A history of attempts in one job: each round runs its schedule over the store left by the
previous ones. Returns the state at the end of every round's schedule. -/
structure Round where
  cfg : Cfg
  sched : List Lbl

def runHistory (st : Store) : List Round → List AState
  | [] => []
  | rd :: rest =>
    let s := arun rd.cfg (AState.init st) rd.sched
    s :: runHistory s.store rest

/-! ## Snapshot.take (snapshot.py:166-229) -/

inductive SPC where
  | io          -- `_take_impl` / `pending_io_work.sync_complete` (payload writes)
  | in1         -- inside `pg_wrapper.barrier()` before the metadata write
  | mBegin      -- rank 0 about to call `_write_snapshot_metadata`
  | mEnd        -- rank 0's metadata write in flight
  | excM        -- rank 0's metadata write raised; exception propagating out of `take`
  | pre2        -- about to enter the second `pg_wrapper.barrier()`
  | in2         -- inside the second barrier
  | retOk       -- `take` returned
  | raisedIO    -- `take` raised because a payload write failed (never entered the first barrier)
  | raisedM     -- `take` raised on rank 0 because the metadata write failed
  deriving DecidableEq, Repr

structure SState where
  pc : Nat → SPC
  ws : Nat → Nat → WSt
  mst : WSt
  hist : List Ev

def SState.init : SState :=
  { pc := fun _ => .io, ws := fun _ _ => .idle, mst := .idle, hist := [] }

def SState.trace (s : SState) : List Ev := s.hist.reverse

/-- The rank has called the first barrier. -/
def entered1 : SPC → Bool
  | .io => false
  | .raisedIO => false
  | _ => true

/-- The rank has called the second barrier. -/
def entered2 : SPC → Bool
  | .in2 => true
  | .retOk => true
  | _ => false

def sctl? (cfg : Cfg) (s : SState) (r : Nat) : Option SState :=
  match s.pc r with
  | .io =>
      -- snapshot.py:187-198; a failing payload write propagates out of `take`
      if anyFailed cfg.nw s.ws r then
        some { s with pc := upd s.pc r .raisedIO, hist := .returnRaise r :: s.hist }
      else if allDone cfg.nw s.ws r then
        -- snapshot.py:198,201: `sync_complete` returned; the rank calls `pg_wrapper.barrier()`
        some { s with pc := upd s.pc r .in1, hist := .ioComplete r :: s.hist }
      else none
  | .in1 =>
      -- a barrier is an atomic rendezvous: nobody leaves before everybody has entered
      if allB cfg.n (fun k => entered1 (s.pc k)) then
        some { s with pc := upd s.pc r (if r = 0 then .mBegin else .pre2), hist := .leave1 r :: s.hist }
      else none
  | .mBegin =>
      some { s with pc := upd s.pc r .mEnd, mst := .inflight, hist := .mBegin :: s.hist }
  | .mEnd =>
      if cfg.mfail then
        some { s with pc := upd s.pc r .excM, mst := .failed, hist := .mFail :: s.hist }
      else
        some { s with pc := upd s.pc r .pre2, mst := .done, hist := .mEnd :: s.hist }
  | .excM =>
      some { s with pc := upd s.pc r .raisedM, hist := .returnRaise r :: s.hist }
  | .pre2 =>
      -- snapshot.py:211 second `pg_wrapper.barrier()` (D6 repair)
      some { s with pc := upd s.pc r .in2, hist := .enter2 r :: s.hist }
  | .in2 =>
      if allB cfg.n (fun k => entered2 (s.pc k)) then
        some { s with pc := upd s.pc r .retOk, hist := .returnOk r :: s.hist }
      else none
  | .retOk => none
  | .raisedIO => none
  | .raisedM => none

def sstep? (cfg : Cfg) (s : SState) (l : Lbl) : Option SState :=
  if l.r < cfg.n then
    match l.a with
    | .ctl => sctl? cfg s l.r
    | a =>
      match wstep? cfg s.ws l.r a with
      | some (ws', e) => some { s with ws := ws', hist := e :: s.hist }
      | none => none
  else none

def srun (cfg : Cfg) (s : SState) (sched : List Lbl) : SState :=
  sched.foldl (fun s l => match sstep? cfg s l with | some s' => s' | none => s) s

/-- `take` has returned or raised on this rank. -/
def SPC.isTerminal : SPC → Bool
  | .retOk | .raisedIO | .raisedM => true
  | _ => false

def senabled (cfg : Cfg) (s : SState) : List Lbl :=
  ((List.range cfg.n).flatMap (lblsOf cfg)).filter (fun l => (sstep? cfg s l).isSome)

/-! ## Crash cuts

A cut is a prefix of the chronological history: everything after it never happened. A write that
has returned is durable and complete; a write that began and has not returned (or raised) left the
object absent, partial or complete — the adversary (`Resolve`) chooses; an object never begun is
absent (fresh path). A torn metadata file is a prefix of the serialized text. -/

inductive Content where
  | absent | torn | complete
  deriving DecidableEq, Repr

structure Resolve where
  payload : Nat → Nat → Content     -- fate of an in-flight / failed payload write
  metaBytes : Option Nat            -- fate of an in-flight / failed metadata write: absent, or first k bytes

def payloadAt (cut : List Ev) (res : Resolve) (r w : Nat) : Content :=
  if Ev.wEnd r w ∈ cut then .complete
  else if Ev.wBegin r w ∈ cut then res.payload r w
  else .absent

/-- Bytes of `.snapshot_metadata` in storage at the cut (`none` = no such object). -/
def metaAt (text : List Nat) (cut : List Ev) (res : Resolve) : Option (List Nat) :=
  if Ev.mEnd ∈ cut then some text
  else if Ev.mBegin ∈ cut then res.metaBytes.map (fun k => text.take k)
  else none

/-- `Snapshot(path).metadata` succeeds at the cut: the object exists and the reader accepts it
(snapshot.py `_read_snapshot_metadata`: a missing object raises). `reader` abstracts
`SnapshotMetadata.from_yaml`. -/
def readableAt (reader : List Nat → Bool) (text : List Nat) (cut : List Ev) (res : Resolve) : Bool :=
  match metaAt text cut res with
  | none => false
  | some b => reader b

/-! ## Trace acceptor (driver)

Replays an observed linearised history: each observed event must be exactly what the model's step
for the corresponding label produces in the current state. -/

/-- The label whose step can produce an event. -/
def lblOfEv : Ev → Lbl
  | .wBegin r w => ⟨r, .wBegin w⟩
  | .wEnd r w => ⟨r, .wEnd w⟩
  | .wFail r w => ⟨r, .wEnd w⟩
  | .ioComplete r => ⟨r, .ctl⟩
  | .ioFail r => ⟨r, .ctl⟩
  | .set r _ => ⟨r, .ctl⟩
  | .wait r => ⟨r, .ctl⟩
  | .get r _ _ => ⟨r, .ctl⟩
  | .mBegin => ⟨0, .ctl⟩
  | .mEnd => ⟨0, .ctl⟩
  | .mFail => ⟨0, .ctl⟩
  | .waitOk r => ⟨r, .ctl⟩
  | .waitRaise r => ⟨r, .ctl⟩
  | .leave1 r => ⟨r, .ctl⟩
  | .enter2 r => ⟨r, .ctl⟩
  | .returnOk r => ⟨r, .ctl⟩
  | .returnRaise r => ⟨r, .ctl⟩

/-- Result of replaying: number of accepted events, and the model's expectation at the first
rejected one (`none` = the label was not enabled at all). -/
structure Accept (σ : Type) where
  state : σ
  accepted : Nat
  rejected : Option (Ev × Option Ev)     -- (observed, what the model would have produced)

def aaccept (cfg : Cfg) (s : AState) (evs : List Ev) : Accept AState :=
  let rec go (s : AState) (k : Nat) : List Ev → Accept AState
    | [] => ⟨s, k, none⟩
    | e :: es =>
      match astep? cfg s (lblOfEv e) with
      | none => ⟨s, k, some (e, none)⟩
      | some s' =>
        match s'.hist with
        | e' :: _ => if e' = e then go s' (k + 1) es else ⟨s, k, some (e, some e')⟩
        | [] => ⟨s, k, some (e, none)⟩
  go s 0 evs

def saccept (cfg : Cfg) (s : SState) (evs : List Ev) : Accept SState :=
  let rec go (s : SState) (k : Nat) : List Ev → Accept SState
    | [] => ⟨s, k, none⟩
    | e :: es =>
      match sstep? cfg s (lblOfEv e) with
      | none => ⟨s, k, some (e, none)⟩
      | some s' =>
        match s'.hist with
        | e' :: _ => if e' = e then go s' (k + 1) es else ⟨s, k, some (e, some e')⟩
        | [] => ⟨s, k, some (e, none)⟩
  go s 0 evs

end Ts.Commit
