import TsModel.Json
/-
  TsModel.Primitive — `PrimitiveEntry._serialize` / `from_object` / `get_value` (manifest.py:336-418)
  and the codecs they call: `str(int)` / `int(str)`, `str(bool)`, `base64.b64encode` /
  `base64.b64decode` (= `binascii.a2b_base64`, non-strict), `struct.pack("d")` / `struct.unpack("d")`.

  A float is its IEEE-754 bit pattern (`Nat < 2^64`); `struct.pack('d', x)` on this (little-endian)
  platform is the 8 little-endian bytes of that pattern — a bit-exact bijection (trusted, sampled by
  the harness over NaN payloads, ±0, ±inf, subnormals). `bytes` are `List Nat` with elements `< 256`.
-/
namespace Ts.Primitive
open Ts.Json (Str intDigits ofDigits isDigit)

abbrev Bytes := List Nat

inductive Err where
  | valueError     -- int('...') rejects
  | runtimeError   -- bool text is neither "True" nor "False"
  | b64Length      -- binascii.Error: number of data characters cannot be 1 more than a multiple of 4
  | b64Padding     -- binascii.Error: Incorrect padding
  | unicodeEncode  -- bytes(s, "utf-8") on a lone surrogate
  | structError    -- struct.unpack("d", b) with len(b) != 8
  | outside        -- int() syntax outside the modelled subset (underscores, whitespace, non-ASCII digits)
  deriving DecidableEq, Repr

instance {α : Type} [DecidableEq α] : DecidableEq (Except Err α)
  | .ok a, .ok b => if h : a = b then isTrue (by rw [h]) else isFalse (fun e => h (by cases e; rfl))
  | .error a, .error b => if h : a = b then isTrue (by rw [h]) else isFalse (fun e => h (by cases e; rfl))
  | .ok _, .error _ => isFalse (fun e => by cases e)
  | .error _, .ok _ => isFalse (fun e => by cases e)

/-! ## base64 -/

/-- `table_b2a_base64`: `A-Z a-z 0-9 + /`. -/
def b2a (i : Nat) : Nat :=
  if i < 26 then 65 + i else if i < 52 then 71 + i else if i < 62 then i - 4
  else if i = 62 then 43 else 47

/-- `table_a2b_base64` (standard alphabet); `none` = not a data character. -/
def a2b (c : Nat) : Option Nat :=
  if 65 ≤ c ∧ c ≤ 90 then some (c - 65)
  else if 97 ≤ c ∧ c ≤ 122 then some (c - 71)
  else if 48 ≤ c ∧ c ≤ 57 then some (c + 4)
  else if c = 43 then some 62
  else if c = 47 then some 63
  else none

/-- `base64.b64encode(b).decode("utf-8")` (`binascii.b2a_base64(newline=False)`). -/
def b64encode : Bytes → List Nat
  | a :: b :: c :: rest =>
      b2a (a / 4) :: b2a (a % 4 * 16 + b / 16) :: b2a (b % 16 * 4 + c / 64) :: b2a (c % 64) :: b64encode rest
  | [a, b] => [b2a (a / 4), b2a (a % 4 * 16 + b / 16), b2a (b % 16 * 4), 61]
  | [a] => [b2a (a / 4), b2a (a % 4 * 16), 61, 61]
  | [] => []

def consByte (b : Nat) : Except Err Bytes → Except Err Bytes
  | .ok bs => .ok (b :: bs)
  | .error e => .error e

/-- `binascii.a2b_base64` in non-strict mode (CPython 3.12 `Modules/binascii.c`), character by
character: `quad` = `quad_pos`, `left` = `leftchar`, `pads` = `pads`. Non-alphabet characters are
skipped; a pad sequence that completes the quad stops the scan (`goto done`); leftover data
characters at the end are an error. -/
def decodeAux (quad left pads : Nat) : List Nat → Except Err Bytes
  | [] => if quad = 0 then .ok [] else if quad = 1 then .error .b64Length else .error .b64Padding
  | c :: cs =>
    if c = 61 then
      if 2 ≤ quad then
        if 4 ≤ quad + (pads + 1) then .ok [] else decodeAux quad left (pads + 1) cs
      else decodeAux quad left pads cs
    else match a2b c with
      | none => decodeAux quad left pads cs
      | some v =>
        if quad = 0 then decodeAux 1 v 0 cs
        else if quad = 1 then consByte (left * 4 + v / 16) (decodeAux 2 (v % 16) 0 cs)
        else if quad = 2 then consByte (left * 16 + v / 4) (decodeAux 3 (v % 4) 0 cs)
        else consByte (left * 64 + v) (decodeAux 0 0 0 cs)

def isSurrogate (c : Nat) : Bool := decide (0xD800 ≤ c) && decide (c ≤ 0xDFFF)

/-- `base64.b64decode(bytes(s, "utf-8"))`: a lone surrogate cannot be encoded; every other
non-ASCII character becomes bytes `≥ 0x80`, which the decoder skips like any non-alphabet byte. -/
def b64decode (s : Str) : Except Err Bytes :=
  if s.any isSurrogate then .error .unicodeEncode else decodeAux 0 0 0 s

/-! ## float ↔ 64 bits ↔ 8 bytes -/

/-- `k` little-endian bytes of `n`. -/
def leBytes (n : Nat) : Nat → Bytes
  | 0 => []
  | k + 1 => n % 256 :: leBytes (n / 256) k

def ofLE : Bytes → Nat
  | [] => 0
  | b :: bs => b + 256 * ofLE bs

/-- `struct.pack("d", x)` on the bit pattern of `x`. -/
def packD (bits : Nat) : Bytes := leBytes bits 8

/-- `struct.unpack("d", b)[0]` as a bit pattern. -/
def unpackD (b : Bytes) : Except Err Nat :=
  if b.length = 8 then .ok (ofLE b) else .error .structError

/-! ## PrimitiveEntry -/

/-- `PrimitiveType` (manifest.py:327-332); tied to the source by `TsGen.Tables.primitiveTypes`. -/
inductive PrimType where
  | int | str | bool | bytes | float
  deriving DecidableEq, Repr

/-- A Python object of one of the five supported primitive types. -/
inductive PrimVal where
  | int (i : Int)
  | str (s : Str)
  | bool (b : Bool)
  | bytes (b : Bytes)
  | float (bits : Nat)
  deriving DecidableEq, Repr

/-- `PrimitiveEntry` (type, serialized_value, replicated, readable). -/
structure PrimEntry where
  ty : PrimType
  serialized : Str
  replicated : Bool
  readable : Option Str
  deriving DecidableEq, Repr

def sTrue : Str := [84, 114, 117, 101]
def sFalse : Str := [70, 97, 108, 115, 101]

/-- `type(obj).__name__`. -/
def PrimVal.ty : PrimVal → PrimType
  | .int _ => .int | .str _ => .str | .bool _ => .bool | .bytes _ => .bytes | .float _ => .float

/-- `PrimitiveEntry._serialize`. -/
def serialize : PrimVal → Str
  | .int i => intDigits i
  | .str s => s
  | .bool true => sTrue
  | .bool false => sFalse
  | .bytes b => b64encode b
  | .float bits => b64encode (packD bits)

/-- `PrimitiveEntry.from_object`; `repr` stands for `str(float)` (only feeds `readable`). -/
def fromObject (repr : Nat → Str) (v : PrimVal) : PrimEntry :=
  { ty := v.ty, serialized := serialize v, replicated := false,
    readable := match v with | .float bits => some (repr bits) | _ => none }

def isSignOrDigit (c : Nat) : Bool := isDigit c || c == 43 || c == 45

/-- `int(s)` on the subset `[+-]?[0-9]+` (value), on other strings over `[0-9+-]` and on the empty
string (ValueError); everything else (whitespace, underscores, non-ASCII digits) is `outside`. -/
def pyInt (s : Str) : Except Err Int :=
  match s with
  | [] => .error .valueError
  | c :: cs =>
    if !(s.all isSignOrDigit) then .error .outside
    else if c = 45 then
      (if cs ≠ [] ∧ cs.all isDigit then .ok (-(ofDigits cs : Int)) else .error .valueError)
    else if c = 43 then
      (if cs ≠ [] ∧ cs.all isDigit then .ok (ofDigits cs : Int) else .error .valueError)
    else if cs.all isDigit then .ok (ofDigits s : Int) else .error .valueError

/-- `PrimitiveEntry.get_value`. -/
def getValue (e : PrimEntry) : Except Err PrimVal :=
  match e.ty with
  | .int => match pyInt e.serialized with
      | .ok i => .ok (.int i)
      | .error err => .error err
  | .str => .ok (.str e.serialized)
  | .bool =>
      if e.serialized = sTrue then .ok (.bool true)
      else if e.serialized = sFalse then .ok (.bool false)
      else .error .runtimeError
  | .bytes => match b64decode e.serialized with
      | .ok b => .ok (.bytes b)
      | .error err => .error err
  | .float => match b64decode e.serialized with
      | .ok b => (match unpackD b with
          | .ok bits => .ok (.float bits)
          | .error err => .error err)
      | .error err => .error err

/-- Values that exist in Python: bytes are `< 256`, a float has 64 bits. -/
def PrimVal.wf : PrimVal → Bool
  | .bytes b => b.all (fun x => decide (x < 256))
  | .float bits => decide (bits < 2 ^ 64)
  | _ => true

end Ts.Primitive
