import TsGen.Tables
/-
  TsModel.Serial — model of tensor (de)serialization:
    `torchsnapshot/serialization.py`  (dtype tables, `tensor_as_memoryview`,
       `_tensor_as_memoryview_via_untyped_storage`, `contiguous_view_as_untyped_storage`,
       `tensor_from_memoryview`, `torch_save_as_bytes` / `torch_load_from_bytes`)
    `torchsnapshot/io_preparers/tensor.py` (`TensorIOPreparer.prepare_write` serializer choice,
       `prepare_read` destination choice, `TensorBufferStager.stage_buffer`,
       `TensorBufferConsumer.deserialize_tensor` / `consume_buffer`, `tensor_copy`).

  Conventions.  A dtype is its attribute name after `torch.` (`"float32"`), as in `TsGen.Tables`.
  A tensor value is `(dtype, shape, bytes)` with `bytes` the *row-major* contents (`List Nat`, one
  entry per byte; nothing below depends on `< 256`).  A strided view of a storage
  (`Strided`) is what torch hands to the code; `contiguous` is the specification of torch's
  `Tensor.contiguous()` (trusted, sampled by the correspondence check on every run).
  `torch.save` / `torch.load` are an abstract codec (`Codec`) — see `Codec.Lawful`.
-/
namespace Ts.Serial

abbrev Bytes := List Nat

inductive Err where
  | valueError     -- ValueError: unsupported dtype (tables, tensor_as_memoryview), torch.frombuffer
                   --   "buffer length must be a multiple of element size", unrecognized serializer
  | runtimeError   -- RuntimeError: torch.reshape "shape is invalid for input of size",
                   --   as_strided/setStorage out of bounds
  | keyError       -- a `Serializer` member the model refers to is missing from the enum
  | codecError     -- torch.load rejected the buffer (abstract codec)
  | unmodelled     -- outside the model's domain (dtype without a known torch itemsize;
                   --   copy_ with broadcasting / dtype conversion): never compared
  deriving DecidableEq, Repr

deriving instance DecidableEq for Except

/-- Python `d[k]` / `k in d` on a dict *literal* given as its key/value pairs in source order:
the last duplicate wins. -/
def dictGet {α : Type} (tbl : List (String × α)) (k : String) : Option α :=
  (tbl.reverse.find? (fun e => e.1 == k)).map (·.2)

/-! ## dtype tables (serialization.py:72-152) -/

/-- `dtype_to_string` (serialization.py:120-130): ValueError outside `_DTYPE_TO_STRING`. -/
def dtypeToString (d : String) : Except Err String :=
  match dictGet Gen.dtypeToString d with
  | some s => .ok s
  | none => .error .valueError

/-- `string_to_dtype` (serialization.py:143-152): ValueError outside `_STRING_TO_DTYPE`. -/
def stringToDtype (s : String) : Except Err String :=
  match dictGet Gen.stringToDtype s with
  | some d => .ok d
  | none => .error .valueError

/-- `dtype_to_element_size` (serialization.py:133-140): ValueError outside `_DTYPE_TO_ELEMENT_SIZE`. -/
def dtypeToElementSize (d : String) : Except Err Nat :=
  match dictGet Gen.dtypeToElementSize d with
  | some n => .ok n
  | none => .error .valueError

/-- PyTorch's own `torch.empty((), dtype=d).element_size()` — NOT read from the repository: this
is the reference the recorded table is compared with (C17_element_sizes_equal_torch). Checked
against the installed torch by the harness on every run (`serial_tables` op). -/
def torchItemsizes : List (String × Nat) :=
  [("float64", 8), ("float32", 4), ("float16", 2), ("bfloat16", 2), ("complex128", 16),
   ("complex64", 8), ("int64", 8), ("int32", 4), ("int16", 2), ("int8", 1), ("uint8", 1),
   ("bool", 1), ("qint32", 4), ("qint8", 1), ("quint8", 1),
   -- dtypes torchsnapshot does not support (used by the unsupported-dtype stream)
   ("uint16", 2), ("uint32", 4), ("uint64", 8), ("complex32", 4),
   ("float8_e4m3fn", 1), ("float8_e5m2", 1), ("quint4x2", 1)]

def torchItemsize (d : String) : Option Nat := dictGet torchItemsizes d

/-- `str(dtype)` in PyTorch. -/
def torchStr (d : String) : String := "torch." ++ d

/-! ## tensors -/

/-- `reduce(mul, shape, 1)` / `Tensor.nelement()`. -/
def numel : List Nat → Nat
  | [] => 1
  | d :: ds => d * numel ds

/-- A tensor value: dtype name, shape, row-major contents. -/
structure Tensor where
  dtype : String
  shape : List Nat
  bytes : Bytes
  deriving DecidableEq, Repr

/-- torch's invariant: a tensor of `numel` elements has `itemsize * numel` bytes of content. -/
def Tensor.WF (t : Tensor) : Prop :=
  (torchItemsize t.dtype).map (· * numel t.shape) = some t.bytes.length

instance (t : Tensor) : Decidable t.WF := by unfold Tensor.WF; infer_instance

/-- Python slice `b[lo:hi]` (non-negative bounds). -/
def slice (b : Bytes) (lo hi : Nat) : Bytes := (b.drop lo).take (hi - lo)

/-! ## layouts: strided views and `Tensor.contiguous()` (torch's; specification) -/

/-- A strided view into a storage, in elements (torch: `storage_offset()`, `size()`, `stride()`). -/
structure Strided where
  dtype   : String
  storage : Bytes        -- the whole untyped storage
  offset  : Nat          -- storage offset, in elements
  shape   : List Nat
  strides : List Nat     -- in elements; 0 = broadcast (`expand`)
  deriving DecidableEq, Repr

/-- Element offsets of a strided view in row-major (logical) order. -/
def offsets : List Nat → List Nat → Nat → List Nat
  | [], _, off => [off]
  | n :: ns, s :: ss, off => (List.range n).flatMap (fun i => offsets ns ss (off + i * s))
  | _ :: _, [], _ => []

/-- Read the `es`-byte elements at the given element offsets; out of bounds = RuntimeError
(torch's `setStorage` bounds check: such a view cannot be constructed). -/
def fetchAll (es : Nat) (st : Bytes) : List Nat → Except Err Bytes
  | [] => .ok []
  | o :: os =>
    if es * o + es ≤ st.length then
      match fetchAll es st os with
      | .ok r => .ok (slice st (es * o) (es * o + es) ++ r)
      | .error e => .error e
    else .error .runtimeError

/-- `Tensor.contiguous()` followed by reading the logical contents: the row-major gather. -/
def contiguous (v : Strided) : Except Err Tensor :=
  match torchItemsize v.dtype with
  | none => .error .unmodelled
  | some es =>
    if v.shape.length ≠ v.strides.length then .error .runtimeError
    else
      match fetchAll es v.storage (offsets v.shape v.strides v.offset) with
      | .ok b => .ok ⟨v.dtype, v.shape, b⟩
      | .error e => .error e

/-- The canonical (offset 0, row-major strides) view of a tensor value. -/
def rowMajorStrides : List Nat → List Nat
  | [] => []
  | _ :: ns => numel ns :: rowMajorStrides ns

def Tensor.toStrided (t : Tensor) : Strided :=
  ⟨t.dtype, t.bytes, 0, t.shape, rowMajorStrides t.shape⟩

/-! ## tensor_as_memoryview (serialization.py:176-249) -/

/-- `contiguous_view_as_untyped_storage` (serialization.py:230-249):
`untyped_storage[off*es : off*es + nelement*es]`. -/
def untypedStorageSlice (storage : Bytes) (storageOffset nelement es : Nat) : Bytes :=
  slice storage (storageOffset * es) (storageOffset * es + nelement * es)

/-- `torch.empty((0), dtype=view).set_(untyped_storage)` then `.numpy()`: the storage seen as
whole elements of the view dtype — `len // k` elements, i.e. the first `len // k * k` bytes. -/
def viewStorageAs (viewDtype : String) (storage : Bytes) : Except Err Bytes :=
  match torchItemsize viewDtype with
  | none => .error .unmodelled
  | some k => .ok (storage.take (storage.length / k * k))

/-- The dtype of the temporary tensor in `_tensor_as_memoryview_via_untyped_storage`
(serialization.py:225; `torch.float32` before fix 7481c7a / D3). -/
def untypedViewDtype : String := "uint8"

/-- `_tensor_as_memoryview_via_untyped_storage` (serialization.py:206-227) on a contiguous tensor
(storage offset 0 after `.contiguous()`; offsets are exercised through `untypedStorageSlice`). -/
def viaUntypedStorageWith (viewDtype : String) (t : Tensor) : Except Err Bytes :=
  match torchItemsize t.dtype with
  | none => .error .unmodelled
  | some es => viewStorageAs viewDtype (untypedStorageSlice t.bytes 0 (numel t.shape) es)

def viaUntypedStorage (t : Tensor) : Except Err Bytes := viaUntypedStorageWith untypedViewDtype t

/-- `tensor_as_memoryview` (serialization.py:176-203) on a CPU tensor value:
dtype outside `BUFFER_PROTOCOL_SUPPORTED_DTYPES` → ValueError; bfloat16 → untyped-storage path;
otherwise `memoryview(tensor.reshape(-1).numpy()).cast("b")` = the row-major bytes. -/
def asMemoryview (t : Tensor) : Except Err Bytes :=
  if !Gen.bufferProtocolDtypes.contains t.dtype then .error .valueError
  else if t.dtype == "bfloat16" then viaUntypedStorage t
  else .ok t.bytes

/-- `tensor_as_memoryview` on an arbitrary view: the dtype check comes first (line 190), then
`tensor.contiguous()` (line 199), then the dispatch above. -/
def asMemoryviewStrided (v : Strided) : Except Err Bytes :=
  if !Gen.bufferProtocolDtypes.contains v.dtype then .error .valueError
  else
    match contiguous v with
    | .ok t => asMemoryview t
    | .error e => .error e

/-! ## tensor_from_memoryview (serialization.py:252-263) -/

/-- `torch.reshape(t, shape)` on a contiguous tensor: RuntimeError unless the element counts agree. -/
def reshape (t : Tensor) (shape : List Nat) : Except Err Tensor :=
  if numel t.shape = numel shape then .ok { t with shape := shape } else .error .runtimeError

/-- `tensor_from_memoryview(mv, dtype, shape)`:
empty buffer → `torch.reshape(torch.empty(0, dtype), shape)` (the D4 guard, line 260-262);
otherwise `torch.frombuffer(mv, dtype)` (ValueError unless `len % itemsize == 0`; gives
`len / itemsize` elements) then `torch.reshape(_, shape)`. -/
def fromMemoryview (dtype : String) (shape : List Nat) (buf : Bytes) : Except Err Tensor :=
  match torchItemsize dtype with
  | none => .error .unmodelled
  | some es =>
    if buf.length = 0 then reshape ⟨dtype, [0], []⟩ shape
    else if buf.length % es ≠ 0 then .error .valueError
    else reshape ⟨dtype, [buf.length / es], buf⟩ shape

/-! ## torch.save / torch.load (serialization.py:266-273): abstract codec -/

structure Codec where
  save : Tensor → Bytes
  load : Bytes → Except Err Tensor

/-- The assumption on `torch.save`/`torch.load` (trusted base): loading what was saved returns the
same tensor value.  It makes `save` injective. -/
def Codec.Lawful (c : Codec) : Prop := ∀ t, c.load (c.save t) = .ok t

/-- A concrete codec (length-prefixed fields) — used only to show the assumption is satisfiable
and by the driver for model-side round trips; it is *not* torch's pickle format. -/
def refSave (t : Tensor) : Bytes :=
  let d := t.dtype.toList.map Char.toNat
  d.length :: d ++ (t.shape.length :: t.shape ++ t.bytes)

def refLoad (buf : Bytes) : Except Err Tensor :=
  match buf with
  | [] => .error .codecError
  | n :: rest =>
    if rest.length < n then .error .codecError
    else
      match rest.drop n with
      | [] => .error .codecError
      | r :: rest2 =>
        if rest2.length < r then .error .codecError
        else .ok ⟨String.ofList ((rest.take n).map Char.ofNat), rest2.take r, rest2.drop r⟩

def refCodec : Codec := ⟨refSave, refLoad⟩

/-! ## io_preparers/tensor.py -/

/-- `Serializer.<member>.value` (serialization.py:155-159, generated table). -/
def serializerValue (member : String) : Except Err String :=
  match dictGet Gen.serializers member with
  | some v => .ok v
  | none => .error .keyError

/-- The persisted part of a `TensorEntry` (manifest.py): serializer, dtype string, shape. -/
structure Entry where
  serializer : String
  dtype : String       -- the persisted string, e.g. "torch.float32"
  shape : List Nat
  deriving DecidableEq, Repr

/-- `TensorIOPreparer.prepare_write` (tensor.py:70-81): buffer protocol for the listed dtypes,
`torch.save` otherwise; `dtype_to_string` raises ValueError for unsupported dtypes. -/
def prepareWrite (t : Tensor) : Except Err Entry :=
  match (if Gen.bufferProtocolDtypes.contains t.dtype then serializerValue "BUFFER_PROTOCOL"
         else serializerValue "TORCH_SAVE") with
  | .error e => .error e
  | .ok ser =>
    match dtypeToString t.dtype with
    | .error e => .error e
    | .ok ds => .ok ⟨ser, ds, t.shape⟩

/-- `TensorBufferStager.stage_buffer` (tensor.py:242-273) for a CPU tensor. The optional
`clone()` (`_should_copy_cpu_tensor`) preserves the value and is C09's subject. -/
def stageBuffer (c : Codec) (e : Entry) (t : Tensor) : Except Err Bytes :=
  match serializerValue "TORCH_SAVE", serializerValue "BUFFER_PROTOCOL" with
  | .ok ts, .ok bp =>
    if e.serializer == ts then .ok (c.save t)
    else if e.serializer == bp then asMemoryview t
    else .error .valueError
  | .error err, _ => .error err
  | _, .error err => .error err

/-- `TensorBufferConsumer.deserialize_tensor` (tensor.py:321-331). -/
def deserializeTensor (c : Codec) (e : Entry) (buf : Bytes) : Except Err Tensor :=
  match serializerValue "TORCH_SAVE", serializerValue "BUFFER_PROTOCOL" with
  | .ok ts, .ok bp =>
    if e.serializer == ts then c.load buf
    else if e.serializer == bp then
      match stringToDtype e.dtype with
      | .error err => .error err
      | .ok d => fromMemoryview d e.shape buf
    else .error .valueError
  | .error err, _ => .error err
  | _, .error err => .error err

/-- `tensor_copy(dst, src)` = `dst.copy_(src)` (tensor.py:387-407) when dtype and shape agree: all
of `dst`'s elements are overwritten. Broadcasting / dtype conversion are outside the model. -/
def tensorCopy (dst src : Tensor) : Except Err Tensor :=
  if dst.dtype = src.dtype ∧ dst.shape = src.shape then .ok { dst with bytes := src.bytes }
  else .error .unmodelled

/-- `TensorBufferConsumer.consume_buffer` (tensor.py:333-342): the new value of the destination. -/
def consumeBuffer (c : Codec) (dst : Tensor) (e : Entry) (buf : Bytes) : Except Err Tensor :=
  match deserializeTensor c e buf with
  | .error err => .error err
  | .ok loaded => tensorCopy dst loaded

/-- `TensorIOPreparer.empty_tensor_from_entry` (tensor.py:203-213); contents are unspecified in
torch (`torch.empty`), zeros here — every byte is overwritten by `tensorCopy`. -/
def emptyTensorFromEntry (e : Entry) : Except Err Tensor :=
  match stringToDtype e.dtype with
  | .error err => .error err
  | .ok d =>
    match torchItemsize d with
    | none => .error .unmodelled
    | some es => .ok ⟨d, e.shape, List.replicate (es * numel e.shape) 0⟩

/-- `can_load_inplace` + `prepare_read` (tensor.py:103-104, 193-200): restore into the given
tensor when dtype and shape match the entry, else into a fresh one. -/
def destination (e : Entry) (tensorOut : Option Tensor) : Except Err Tensor :=
  match tensorOut with
  | none => emptyTensorFromEntry e
  | some t =>
    match stringToDtype e.dtype with
    | .error err => .error err
    | .ok d => if d = t.dtype ∧ e.shape = t.shape then .ok t else emptyTensorFromEntry e

/-- write side then read side of one tensor leaf: `prepare_write` → `stage_buffer` → (storage,
C20) → `prepare_read` → `consume_buffer`. -/
def saveThenLoad (c : Codec) (t : Tensor) (tensorOut : Option Tensor) : Except Err Tensor :=
  match prepareWrite t with
  | .error err => .error err
  | .ok e =>
    match stageBuffer c e t with
    | .error err => .error err
    | .ok buf =>
      match destination e tensorOut with
      | .error err => .error err
      | .ok dst => consumeBuffer c dst e buf

end Ts.Serial
