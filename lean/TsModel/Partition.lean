import TsModel.ManifestOps
/-!
# Partition — replicated write requests are partitioned among ranks, entries are consolidated

Executable model of `torchsnapshot/partitioner.py` and of the replicated-path decision and manifest
gathering in `torchsnapshot/snapshot.py` (`_calculate_replicated_entries`, `_gather_manifest`).

`_partition_write_loads` iterates a Python `set` of `_WriteLoad`s: that order is not defined, so it is an
*input* (`order`) of `assign`; theorems quantify over every permutation.
DTensor partial replication (`_get_replicated_ranks`) is not modelled (trusted base).
-/
namespace Ts.Partition
open Ts.ManifestOps

/-- partitioner.py `_WriteLoad` -/
structure WriteLoad where
  path : Str
  idx : Nat
  size : Nat
  deriving DecidableEq, Repr

/-- what one rank contributes to the `all_gather_object` of `_partition_replicated_write_reqs`
(lines 170-176): `(entries, write_loads, non_replicated_size)`. `loads` is a `defaultdict(list)`. -/
structure RankInput where
  entries : Manifest
  loads : AList (List WriteLoad)
  size : Nat
  deriving Repr

/-- the mutable state of `_partition_write_loads`: `rank_to_size`, `partition_result`; `log` is a ghost
record of `(chosen rank, size added)` per visited unit, in visiting order. -/
structure State where
  loads : List Nat
  result : List (List WriteLoad)
  log : List (Nat × Nat)
  deriving Repr

/-- scan for the first minimum: `rest`, index of its head, best index, best value -/
def argminAux : List Nat → Nat → Nat → Nat → Nat
  | [], _, bi, _ => bi
  | x :: xs, i, bi, bv => if x < bv then argminAux xs (i + 1) i x else argminAux xs (i + 1) bi bv

/-- `min(range(W), key=lambda r: rank_to_size[r])` (line 62) and `np.argmin(rank_to_size)` (line 122):
index of the first minimum; both raise `ValueError` on an empty sequence. -/
def argmin : List Nat → Except Err Nat
  | [] => .error .valueError
  | x :: xs => .ok (argminAux xs 1 0 x)

/-- `d[k]` on a `defaultdict(list)` -/
def loadsOf (t : AList (List WriteLoad)) (p : Str) : List WriteLoad := (alookup t p).getD []

/-- `rank_to_size[r] += size` (lines 64, 124) -/
def addAt (l : List Nat) (r : Nat) (s : Nat) : List Nat := modifyAt l r (· + s)

/-- one greedy step: pick the least-loaded rank, give it `wls`, account `size` -/
def give (st : State) (wlsOf : Nat → List WriteLoad) (size : Nat) : Except Err State :=
  match argmin st.loads with
  | .error e => .error e
  | .ok r => .ok { loads := addAt st.loads r size,
                   result := modifyAt st.result r (· ++ wlsOf r),
                   log := st.log ++ [(r, size)] }

/-- `[entries[logical_path] for entries in rank_to_entries]` (line 44): `KeyError` if a rank lacks the path -/
def entriesAt : List RankInput → Str → Except Err (List Entry)
  | [], _ => .ok []
  | r :: rs, p =>
    match alookup r.entries p with
    | none => .error .keyError
    | some e =>
      match entriesAt rs p with
      | .error err => .error err
      | .ok es => .ok (e :: es)

def isChunked : Entry → Bool
  | .chunked _ _ _ => true
  | _ => false

/-- `_is_subpartitionable` (lines 40-47): rank 0's entry is chunked and every rank's entry equals it -/
def isSubpartitionable (ranks : List RankInput) (p : Str) : Except Err Bool :=
  match entriesAt ranks p with
  | .error e => .error e
  | .ok [] => .error .indexError
  | .ok (e0 :: es) => .ok (isChunked e0 && es.all (fun e => e = e0))

/-- `sum(wl.size for wl in …)` -/
def sumSizes (l : List WriteLoad) : Nat := (l.map (·.size)).sum

/-- `rank_to_write_loads[chosen_rank][logical_path]` (line 63) -/
def rankLoadsAt (ranks : List RankInput) (p : Str) (r : Nat) : List WriteLoad :=
  match ranks[r]? with
  | some ri => loadsOf ri.loads p
  | none => []

/-- first loop of `_partition_write_loads` (lines 76-118) over rank 0's logical paths: a path that is
not sub-partitionable goes as a whole (the chosen rank's own write loads, rank 0's size) to the
least-loaded rank; the write loads of sub-partitionable paths are collected. Returns the state and
the collected `partitionables`. -/
def stage1 (ranks : List RankInput) (l0 : AList (List WriteLoad)) :
    List Str → State → List WriteLoad → Except Err (State × List WriteLoad)
  | [], st, parts => .ok (st, parts)
  | p :: ps, st, parts =>
    match isSubpartitionable ranks p with
    | .error e => .error e
    | .ok true => stage1 ranks l0 ps st (parts ++ loadsOf l0 p)
    | .ok false =>
      match give st (rankLoadsAt ranks p) (sumSizes (loadsOf l0 p)) with
      | .error e => .error e
      | .ok st' => stage1 ranks l0 ps st' parts

/-- second loop (lines 121-124): each partitionable chunk, in set-iteration order, to `argmin` -/
def stage2 : List WriteLoad → State → Except Err State
  | [], st => .ok st
  | u :: us, st =>
    match give st (fun _ => [u]) u.size with
    | .error e => .error e
    | .ok st' => stage2 us st'

/-- starting state: loads = every rank's non-replicated bytes, empty result lists (line 73) -/
def initState (ranks : List RankInput) : State :=
  { loads := ranks.map (·.size), result := ranks.map (fun _ => []), log := [] }

/-- the `partitionables` set after the first loop (what `order` must enumerate) -/
def partitionables (ranks : List RankInput) : Except Err (List WriteLoad) :=
  match ranks with
  | [] => .error .indexError
  | r0 :: _ => (stage1 ranks r0.loads (akeys r0.entries) (initState ranks) []).map (·.2)

/-- `_partition_write_loads` (lines 67-126) with the set-iteration order made explicit: `order` must be a
permutation of `partitionables` (otherwise the model answers `valueError`, never compared). -/
def assignState (ranks : List RankInput) (order : List WriteLoad) : Except Err State :=
  match ranks with
  | [] => .error .indexError
  | r0 :: _ =>
    match stage1 ranks r0.loads (akeys r0.entries) (initState ranks) [] with
    | .error e => .error e
    | .ok (st, parts) => if order.isPerm parts then stage2 order st else .error .valueError

/-- the `partition_result` of `_partition_write_loads` -/
def assign (ranks : List RankInput) (order : List WriteLoad) : Except Err (List (List WriteLoad)) :=
  (assignState ranks order).map (·.result)

/-! ## entries after partitioning (lines 194-213, 252-282) -/

/-- code-point order of Python strings, `a <= b` -/
def strLe : Str → Str → Bool
  | [], _ => true
  | _ :: _, [] => false
  | a :: as, b :: bs => if a < b then true else if b < a then false else strLe as bs

/-- tuple order on `(logical_path, write_req_idx)` -/
def pairLe (a b : Str × Nat) : Bool :=
  if a.1 = b.1 then a.2 ≤ b.2 else strLe a.1 b.1

/-- lines 198-211: rebuild this rank's replicated entries from its sorted write loads -/
def newEntriesAux (entries : Manifest) : List (Str × Nat) → Manifest → Except Err Manifest
  | [], acc => .ok acc
  | (p, i) :: rest, acc =>
    match alookup entries p with
    | none => .error .keyError
    | some (.chunked r md cs) =>
      match cs[i]? with
      | none => .error .indexError
      | some c =>
        match alookup acc p with
        | some (.chunked r' md' cs') => newEntriesAux entries rest (ainsert acc p (.chunked r' md' (cs' ++ [c])))
        | _ => newEntriesAux entries rest (ainsert acc p (.chunked r md [c]))
    | some e => newEntriesAux entries rest (ainsert acc p e)

/-- lines 194-213 -/
def newEntries (entries : Manifest) (assigned : List WriteLoad) : Except Err Manifest :=
  newEntriesAux entries (isort pairLe (assigned.map (fun wl => (wl.path, wl.idx)))) []

/-- `{**a, **b}` / `a.update(b)` -/
def insertAll : Manifest → Manifest → Manifest
  | [], acc => acc
  | (p, e) :: rest, acc => insertAll rest (ainsert acc p e)

/-- the entries `partition_write_reqs` returns on one rank (lines 252-282):
`{**partitioned replicated entries, **non-replicated entries}` -/
def partitionRank (entries : Manifest) (assigned : List WriteLoad) : Except Err Manifest :=
  match newEntries (entries.filter (fun pe => isReplicated pe.2)) assigned with
  | .error e => .error e
  | .ok repl => .ok (insertAll (entries.filter (fun pe => !isReplicated pe.2)) repl)

/-! ## consolidation (lines 285-355) and gathering -/

/-- `groups[logical_path].append(entry)` with the group kept as (first md, concatenated chunks) -/
def addChunkGroup (g : AList (Nat × List Shard)) (p : Str) (md : Nat) (cs : List Shard) :
    AList (Nat × List Shard) :=
  match alookup g p with
  | some (m0, old) => ainsert g p (m0, old ++ cs)
  | none => ainsert g p (md, cs)

/-- lines 291-293 for one rank's manifest -/
def chunkGroupsOf : Manifest → AList (Nat × List Shard) → AList (Nat × List Shard)
  | [], g => g
  | (p, .chunked true md cs) :: rest, g => chunkGroupsOf rest (addChunkGroup g p md cs)
  | _ :: rest, g => chunkGroupsOf rest g

/-- the `groups` dict of `_consolidate_replicated_chunked_tensor_entries` (lines 288-293) -/
def chunkGroupsFrom : List Manifest → AList (Nat × List Shard) → AList (Nat × List Shard)
  | [], g => g
  | m :: ms, g => chunkGroupsFrom ms (chunkGroupsOf m g)

def chunkGroups (ranks : List Manifest) : AList (Nat × List Shard) := chunkGroupsFrom ranks []

/-- lines 295-306: every rank gets the merged entry of every group -/
def applyGroups : AList (Nat × List Shard) → List Manifest → List Manifest
  | [], rs => rs
  | (p, (md, cs)) :: rest, rs =>
    applyGroups rest (rs.map (fun m => ainsert m p (.chunked true md (sortShards cs))))

/-- `_consolidate_replicated_chunked_tensor_entries` (lines 285-308) -/
def consolidateChunked (ranks : List Manifest) : List Manifest :=
  applyGroups (chunkGroups ranks) ranks

/-- lines 333-346 for one rank: move the replicated entries into `repl`, checking they agree -/
def collectRank : Manifest → Manifest → Except Err (Manifest × Manifest)
  | [], repl => .ok ([], repl)
  | (p, e) :: rest, repl =>
    if isReplicated e then
      match alookup repl p with
      | some e' => if e' ≠ e then .error .valueError else collectRank rest repl
      | none => collectRank rest (ainsert repl p e)
    else
      match collectRank rest repl with
      | .error err => .error err
      | .ok (kept, repl') => .ok ((p, e) :: kept, repl')

/-- lines 333-346 over all ranks -/
def collectAll : List Manifest → Manifest → Except Err (List Manifest × Manifest)
  | [], repl => .ok ([], repl)
  | m :: ms, repl =>
    match collectRank m repl with
    | .error e => .error e
    | .ok (kept, repl') =>
      match collectAll ms repl' with
      | .error e => .error e
      | .ok (rest, repl'') => .ok (kept :: rest, repl'')

/-- `consolidate_replicated_entries(rank_to_entries, dedup=True)` (lines 311-355) -/
def consolidate (ranks : List Manifest) : Except Err (List Manifest) :=
  match collectAll (consolidateChunked ranks) [] with
  | .error e => .error e
  | .ok (kept, repl) =>
    match kept with
    | [] => .ok []
    | m0 :: rest => .ok (insertAll repl m0 :: rest)

/-- lines 981-982 for one rank: `global_manifest[os.path.join(str(rank), logical_path)] = entry` -/
def insertPrefixed (r : Nat) : Manifest → Manifest → Manifest
  | [], g => g
  | (p, e) :: rest, g => insertPrefixed r rest (ainsert g (pathJoin (natStr r) p) e)

/-- snapshot.py `_gather_manifest` (lines 974-984) after consolidation: global key = `join(str(rank), path)` -/
def gatherFrom : Nat → List Manifest → Manifest → Manifest
  | _, [], g => g
  | r, m :: ms, g => gatherFrom (r + 1) ms (insertPrefixed r m g)

def gather (ranks : List Manifest) : Manifest := gatherFrom 0 ranks []

/-- `_gather_manifest`: consolidate, then build the global manifest -/
def gatherManifest (ranks : List Manifest) : Except Err Manifest :=
  (consolidate ranks).map gather

/-! ## which paths are replicated (snapshot.py `_calculate_replicated_entries`, lines 653-685) -/

/-- one rank's candidates: paths of its flattened state that match a glob and are not sharded.
`flat` = `(path, is_sharded(value))` in dict order; `globOk` = `any(fnmatch(path, g) for g in globs)`. -/
def candidates (globOk : Str → Bool) (flat : List (Str × Bool)) : List Str :=
  (flat.filter (fun pv => globOk pv.1 && !pv.2)).map (·.1)

/-- rank 0 keeps its candidates that were reported by all `W` ranks (`path_count[p] == world_size`) -/
def replicatedPaths (globOk : Str → Bool) (rankFlat : List (List (Str × Bool))) : List Str :=
  match rankFlat with
  | [] => []
  | f0 :: _ =>
    let all := rankFlat.map (candidates globOk)
    (candidates globOk f0).filter (fun p => (all.map (fun c => c.count p)).sum = rankFlat.length)

/-- io_preparer.py `get_storage_path` (lines 52-61) -/
def storagePath (sharded replicated : Bool) (rank : Nat) (p : Str) : Str :=
  if sharded && replicated then pathJoin [114,101,112,108,105,99,97,116,101,100,95,115,104,97,114,100,101,100] p
  else if sharded then pathJoin [115,104,97,114,100,101,100] p
  else if replicated then pathJoin [114,101,112,108,105,99,97,116,101,100] p
  else pathJoin (natStr rank) p

end Ts.Partition
