/-!
# ManifestOps — per-rank manifest views (who can load what)

Executable model of `torchsnapshot/manifest_ops.py` (after the D14 repair), together with the small
pieces of `manifest.py`, `manifest_utils.py` and `flatten.py` it relies on.

Conventions: a Python `str` is a `List Nat` of code points; a `dict` is an association list in
insertion order (`ainsert` = `d[k] = v`, `aerase` = `del d[k]`, `alookup` = `d.get(k)`); functions
that raise in Python return `Except Err _`.

Not modelled: `DTensorEntry` (trusted base, DESIGN.md §4), so `is_fully_replicated_entry` is the
`replicated` attribute and `is_sharded` is `ShardedTensorEntry`.
-/
namespace Ts.ManifestOps

abbrev Str := List Nat

inductive Err
  | keyError        -- dict lookup of a missing key
  | indexError      -- list index out of range
  | valueError      -- ValueError raised by the code itself
  | attributeError  -- `.keys` on an entry that has none
  | badRank         -- first path token is not a plain decimal number (`int()` raises or is outside the modelled domain)
  deriving DecidableEq, Repr

/-! ## association lists = Python dicts in insertion order -/

abbrev AList (β : Type) := List (Str × β)

/-- `d.get(k)` -/
def alookup {β : Type} : AList β → Str → Option β
  | [], _ => none
  | (k, v) :: m, p => if k = p then some v else alookup m p

/-- `d[k] = v` : replace in place if present, else append -/
def ainsert {β : Type} : AList β → Str → β → AList β
  | [], p, e => [(p, e)]
  | (k, v) :: m, p, e => if k = p then (k, e) :: m else (k, v) :: ainsert m p e

/-- `del d[k]` (for a present key) -/
def aerase {β : Type} : AList β → Str → AList β
  | [], _ => []
  | (k, v) :: m, p => if k = p then aerase m p else (k, v) :: aerase m p

/-- `list(d.keys())` -/
def akeys {β : Type} (m : AList β) : List Str := m.map (·.1)

/-- `l[i] = f(l[i])` for `i < len(l)`; out of range leaves the list unchanged (callers check the index). -/
def modifyAt {α : Type} : List α → Nat → (α → α) → List α
  | [], _, _ => []
  | a :: l, 0, f => f a :: l
  | a :: l, i + 1, f => a :: modifyAt l i f

/-! ## entries (manifest.py) -/

/-- An element of `DictEntry.keys`: `str`, `int` or `bool`. -/
inductive Key
  | str (s : Str)
  | int (i : Int)
  | bool (b : Bool)
  deriving DecidableEq, Repr

/-- manifest.py `Shard` (also used for the chunks of a `ChunkedTensorEntry`). `tensor` stands for the
whole `TensorEntry` (location, serializer, dtype, shape, byte range) of the piece. -/
structure Shard where
  offsets : List Nat
  sizes : List Nat
  tensor : Nat
  deriving DecidableEq, Repr

/-- manifest.py entry classes. `leaf` = `TensorEntry` / `ObjectEntry` / `PrimitiveEntry`: all have a
`replicated` attribute; `payload` stands for every other field (class, location, value, …), so two
leaves are `==` in Python iff flag and payload agree. `gm` of `chunked` = (dtype, shape). -/
inductive Entry
  | list
  | dict (keys : List Key)
  | odict (keys : List Key)
  | leaf (replicated : Bool) (payload : Nat)
  | chunked (replicated : Bool) (gm : Nat) (chunks : List Shard)
  | sharded (shards : List Shard)
  deriving DecidableEq, Repr

abbrev Manifest := AList Entry

/-- manifest_utils.py `is_fully_replicated_entry` (`hasattr(entry, "replicated") and entry.replicated`). -/
def isReplicated : Entry → Bool
  | .leaf r _ => r
  | .chunked r _ _ => r
  | _ => false

/-- manifest_utils.py `is_container_entry` -/
def isContainer : Entry → Bool
  | .list => true
  | .dict _ => true
  | .odict _ => true
  | _ => false

/-- manifest_utils.py `is_dict_entry` -/
def isDict : Entry → Bool
  | .dict _ => true
  | .odict _ => true
  | _ => false

/-- `isinstance(entry, ShardedTensorEntry)` -/
def isSharded : Entry → Bool
  | .sharded _ => true
  | _ => false

/-- a non-replicated, non-sharded leaf: the rank's private state -/
def isPrivateLeaf : Entry → Bool
  | .leaf r _ => !r
  | .chunked r _ _ => !r
  | _ => false

/-! ## strings: `_encode`, `str(key)`, `str(rank)`, `split("/")` -/

/-- flatten.py `_encode`: `%` → `%25`, then `/` → `%2F` (the second pass never sees a new `/`). -/
def encode (s : Str) : Str :=
  s.flatMap (fun c => if c = 37 then [37, 50, 53] else if c = 47 then [37, 50, 70] else [c])

/-- decimal digits of `n` pushed in front of `acc` (fuel-driven, like `Nat.toDigits`) -/
def natStrAux : Nat → Nat → Str → Str
  | 0, _, acc => acc
  | fuel + 1, n, acc =>
    if n < 10 then (48 + n) :: acc else natStrAux fuel (n / 10) ((48 + n % 10) :: acc)

/-- `str(n)` for a non-negative `int` -/
def natStr (n : Nat) : Str := natStrAux (n + 1) n []

/-- `str(key)` for a dict key -/
def keyStr : Key → Str
  | .str s => s
  | .int i => if i < 0 then 45 :: natStr i.natAbs else natStr i.toNat
  | .bool true => [84, 114, 117, 101]
  | .bool false => [70, 97, 108, 115, 101]

/-- the path component `flatten()` derives from a dict key: `_encode(str(key))` -/
def keyComp (k : Key) : Str := encode (keyStr k)

/-- `tokens = s.split("/"); first = tokens.pop(0); rest = "/".join(tokens)` -/
def splitFirst (s : Str) : Str × Str :=
  (s.takeWhile (· ≠ 47), (s.dropWhile (· ≠ 47)).drop 1)

/-- `tokens = s.split("/"); last = tokens.pop(); parent = "/".join(tokens)` → `(parent, last)` -/
def splitLast (s : Str) : Str × Str :=
  (((s.reverse.dropWhile (· ≠ 47)).drop 1).reverse, (s.reverse.takeWhile (· ≠ 47)).reverse)

/-- `int(token)` on the tokens `str(rank)` can produce: non-empty ASCII decimal digits. Everything
else is `badRank` (Python raises `ValueError` for most such tokens; the few exotic spellings `int()`
accepts — signs, blanks, underscores, non-ASCII digits — are outside the modelled domain). -/
def parseRank (tok : Str) : Except Err Nat :=
  if tok ≠ [] ∧ tok.all (fun c => 48 ≤ c ∧ c ≤ 57) then
    .ok (tok.foldl (fun a d => 10 * a + (d - 48)) 0)
  else .error .badRank

/-- `os.path.join(a, b)` for a non-empty `a` without trailing slash -/
def pathJoin (a b : Str) : Str :=
  match b with
  | 47 :: _ => b
  | _ => a ++ 47 :: b

/-! ## manifest_ops.py -/

/-- the loop of `_get_rank_to_manifest` (lines 105-109): `rank_to_manifest[int(tok)][logical_path] = entry` -/
def splitInto : Manifest → List Manifest → Except Err (List Manifest)
  | [], acc => .ok acc
  | (path, e) :: rest, acc =>
    match parseRank (splitFirst path).1 with
    | .error err => .error err
    | .ok r =>
      if r < acc.length then splitInto rest (modifyAt acc r (fun d => ainsert d (splitFirst path).2 e))
      else .error .indexError

/-- `_get_rank_to_manifest` (lines 103-110): split every global path into rank and logical path. -/
def rankToManifest (W : Nat) (m : Manifest) : Except Err (List Manifest) :=
  splitInto m (List.replicate W [])

/-- lexicographic `<=` of Python lists of ints -/
def lexLe : List Nat → List Nat → Bool
  | [], _ => true
  | _ :: _, [] => false
  | a :: as, b :: bs => if a < b then true else if b < a then false else lexLe as bs

/-- insert `a` before the first element that is `>=` it (stable insertion) -/
def insSorted {α : Type} (le : α → α → Bool) (a : α) : List α → List α
  | [] => [a]
  | b :: l => if le a b then a :: b :: l else b :: insSorted le a l

/-- `sorted(l, key=…)`: a stable sort -/
def isort {α : Type} (le : α → α → Bool) : List α → List α
  | [] => []
  | a :: l => insSorted le a (isort le l)

/-- `sorted(shards, key=lambda s: s.offsets)` -/
def sortShards (l : List Shard) : List Shard := isort (fun a b => lexLe a.offsets b.offsets) l

/-- `groups[logical_path].append(...)` flattened: the shards of `p` seen so far, in rank order -/
def addGroup (g : AList (List Shard)) (p : Str) (shards : List Shard) : AList (List Shard) :=
  match alookup g p with
  | some old => ainsert g p (old ++ shards)
  | none => ainsert g p shards

/-- lines 118-120 for one rank's manifest -/
def groupsOf : Manifest → AList (List Shard) → AList (List Shard)
  | [], g => g
  | (p, .sharded shards) :: rest, g => groupsOf rest (addGroup g p shards)
  | _ :: rest, g => groupsOf rest g

/-- the `groups` dict of `_get_merged_sharded_tensor_entries` (lines 116-120) -/
def shardGroupsFrom : List Manifest → AList (List Shard) → AList (List Shard)
  | [], g => g
  | m :: ms, g => shardGroupsFrom ms (groupsOf m g)

def shardGroups (rtm : List Manifest) : AList (List Shard) := shardGroupsFrom rtm []

/-- `_get_merged_sharded_tensor_entries` (lines 113-131) -/
def mergeSharded (rtm : List Manifest) : Manifest :=
  (shardGroups rtm).map (fun pg => (pg.1, Entry.sharded (sortShards pg.2)))

/-- lines 79-81: the replicated entries of rank 0's manifest are written over the rank's own copy -/
def overlay : Manifest → Manifest → Manifest
  | [], loc => loc
  | (p, e) :: rest, loc => if isReplicated e then overlay rest (ainsert loc p e) else overlay rest loc

/-- lines 83-85: every sharded entry is replaced by the merged one (`merged_sd_entries[logical_path]`) -/
def replaceSharded (merged : Manifest) : Manifest → Except Err Manifest
  | [] => .ok []
  | (p, e) :: rest =>
    if isSharded e then
      match alookup merged p with
      | none => .error .keyError
      | some e' =>
        match replaceSharded merged rest with
        | .error err => .error err
        | .ok r => .ok ((p, e') :: r)
    else
      match replaceSharded merged rest with
      | .error err => .error err
      | .ok r => .ok ((p, e) :: r)

/-- `_get_manifest_for_existing_rank` (lines 71-87) -/
def viewExisting (rtm : List Manifest) (merged : Manifest) (rank : Nat) : Except Err Manifest :=
  match rtm[rank]?, rtm[0]? with
  | some own, some m0 => replaceSharded merged (overlay m0 own)
  | _, _ => .error .indexError

/-- the filter of `_remove_entry` (line 288): drop the keys whose path component is `comp` -/
def dropKey (keys : List Key) (comp : Str) : List Key := keys.filter (fun k => keyComp k ≠ comp)

/-- `_remove_entry` (lines 252-288, after the D14 repair) -/
def removeEntry (m : Manifest) (p : Str) : Except Err Manifest :=
  match alookup m p with
  | none => .ok m
  | some _ =>
    let m := aerase m p
    let (parent, comp) := splitLast p
    if parent = [] then .ok m else
    match alookup m parent with
    | none => .error .keyError
    | some (.dict keys) => .ok (ainsert m parent (.dict (dropKey keys comp)))
    | some (.odict keys) => .ok (ainsert m parent (.odict (dropKey keys comp)))
    | some _ => .ok m

/-- the loop of `_get_manifest_for_new_rank` (lines 95-99) over `list(local_manifest.keys())` -/
def viewNewLoop : List Str → Manifest → Except Err Manifest
  | [], acc => .ok acc
  | p :: ps, acc =>
    match alookup acc p with
    | none => .error .keyError
    | some e =>
      if isContainer e || isReplicated e then viewNewLoop ps acc
      else
        match removeEntry acc p with
        | .error err => .error err
        | .ok acc' => viewNewLoop ps acc'

/-- `_get_manifest_for_new_rank` (lines 90-100): rank 0's containers and replicated entries only -/
def viewNew (rtm : List Manifest) : Except Err Manifest :=
  match rtm[0]? with
  | none => .error .indexError
  | some m0 => viewNewLoop (akeys m0) m0

/-- `get_manifest_for_rank` on already split manifests -/
def viewOf (rtm : List Manifest) (rank : Nat) : Except Err (Manifest × Manifest) :=
  let merged := mergeSharded rtm
  if rank < rtm.length then
    (viewExisting rtm merged rank).map (fun v => (v, merged))
  else
    (viewNew rtm).map (fun v => (v, merged))

/-- `get_manifest_for_rank(metadata, rank)` (lines 37-68): `(local manifest, merged sharded entries)`;
`W = metadata.world_size`, `gm = metadata.manifest` (the global manifest). -/
def viewFor (W : Nat) (gm : Manifest) (rank : Nat) : Except Err (Manifest × Manifest) :=
  match rankToManifest W gm with
  | .error e => .error e
  | .ok rtm => viewOf rtm rank

/-- `len(path.split("/")) == 2` -/
def atRoot (p : Str) : Bool := p.count 47 = 1

/-- the "add missing requested sharded entries" loop of `handle_sharded_tensor_elasticity` (lines 236-241) -/
def addRequested (merged : Manifest) : Manifest → List Str → Except Err Manifest
  | m, [] => .ok m
  | m, p :: rest =>
    match alookup m p with
    | some _ => addRequested merged m rest
    | none =>
      match alookup merged p with
      | none => .error .keyError
      | some e =>
        let m := ainsert m p e
        let (parent, comp) := splitLast p
        match alookup m parent with
        | none => .error .keyError
        | some (.dict keys) => addRequested merged (ainsert m parent (.dict (keys ++ [Key.str comp]))) rest
        | some (.odict keys) => addRequested merged (ainsert m parent (.odict (keys ++ [Key.str comp]))) rest
        | some _ => .error .attributeError

/-- `handle_sharded_tensor_elasticity` (lines 182-249). `rootOnly` =
`is_sharded_tensor_elasticity_enabled_at_root_only()`. Returns the updated local manifest. -/
def handleElasticity (rootOnly : Bool) (m merged : Manifest) (requests : List Str) : Except Err Manifest :=
  if rootOnly && !(merged.all (fun pe => atRoot pe.1)) then .ok m else
  let reqs := requests.filter (fun p => (alookup merged p).isSome)
  match addRequested merged m reqs with
  | .error e => .error e
  | .ok m => .ok (m.filter (fun pe => !(isSharded pe.2 && !(reqs.contains pe.1))))

/-- what a restoring rank works from: `get_manifest_for_rank` followed by
`handle_sharded_tensor_elasticity` (snapshot.py `_load_stateful`, lines 755-784) -/
def restoreView (W : Nat) (gm : Manifest) (rank : Nat) (rootOnly : Bool) (requests : List Str) :
    Except Err Manifest :=
  match viewFor W gm rank with
  | .error e => .error e
  | .ok (v, merged) => handleElasticity rootOnly v merged requests

/-- flatten.py `_populate_container` rule (lines 194-198) seen from the manifest: the entry at `p` reaches
the inflated state iff its parent container lists a key whose `str()` is the decoded last component
— for components produced by `flatten`, iff some key `k` has `_encode(str(k)) = component`. List parents
and top-level paths impose no key condition. -/
def deliveredUnderKey (m : Manifest) (p : Str) : Bool :=
  let (parent, comp) := splitLast p
  match alookup m parent with
  | some (.dict keys) => keys.any (fun k => keyComp k = comp)
  | some (.odict keys) => keys.any (fun k => keyComp k = comp)
  | some .list => true
  | _ => parent = []

end Ts.ManifestOps
