/-
  TsModel.World — the data plane of a whole job: W ranks take one snapshot, any rank restores.

  Composes, for bytes, what the per-rank model `TsModel/Snapshot.lean` leaves out:
    * every rank prepares the write requests of its own flattened leaves (`prepare_write`, snapshot.py 599-622);
    * replicated leaves (paths verified to be on every rank, `_calculate_replicated_entries`) are *partitioned*:
      each replicated write unit — each chunk of a chunked tensor — is kept by exactly one rank
      (`partition_write_reqs`, partitioner.py 140-290); a rank keeps, in this order, its share of the replicated
      units sorted by (logical path, chunk index) and then all its private units in flatten order
      (`{**replicated_write_reqs, **non_replicated_write_reqs}`);
    * each rank packs *what it kept* into slabs (`batch_write_requests`) and writes it;
    * the committed manifest records, for a private leaf, the writing rank's locations, and for a replicated leaf
      the consolidated entry whose every unit points at the location chosen by the rank that wrote it
      (`consolidate_replicated_entries`, partitioner.py 285-355);
    * a restoring rank reads the units named by an entry from the job-wide store.

  Abstractions (each discharged by another model): logical paths are numbers whose order is the order of the path
  strings (flatten/paths: C15); a storage object is named by (writer rank, rank-local location) — that distinct
  (rank, unit) pairs are distinct files is C05, that "replicated/<path>" has one writer is C06; the partition
  `owner` is an arbitrary function here (the real greedy assignment is `TsModel/Partition.lean`, C06); which
  entries a restoring rank sees is `TsModel/ManifestOps.lean` (C07).
-/
import TsModel.Snapshot
import TsProofs.BatchRead   -- for the definition `written` (storage after a write plan)

namespace Ts.World
open Ts.Storage (Bytes)
open Ts.Slab (WReq Place Loc)
open Ts.Snapshot

abbrev PathId := Nat
/-- one rank's flattened payload leaves, in flatten order -/
abbrev RankState := List (PathId × Leaf)
/-- an object of the job-wide store: the rank that wrote it and its location among that rank's writes -/
abbrev WLoc := Nat × Loc UnitId

structure Job where
  cfg : Cfg
  states : List RankState          -- index = rank
  rep : PathId → Bool              -- the verified replicated paths
  owner : UnitId → Nat             -- partition result: the rank that writes a replicated unit

/-- `prepare_write` for every leaf of one rank; write units are named by the leaf's path. -/
def rankUnits (cfg : Cfg) : RankState → Except Err (List ((PathId × Leaf) × List (WReq UnitId × Bytes)))
  | [] => .ok []
  | (p, l) :: rest =>
    match leafWrites cfg p l, rankUnits cfg rest with
    | .ok a, .ok b => .ok (((p, l), a) :: b)
    | .error e, _ => .error e
    | _, .error e => .error e

def flat (us : List ((PathId × Leaf) × List (WReq UnitId × Bytes))) : List (WReq UnitId × Bytes) :=
  (us.map (·.2)).flatten

/-- insert before the first element whose path is not smaller (stable insertion) -/
def insertByPath (x : WReq UnitId × Bytes) : List (WReq UnitId × Bytes) → List (WReq UnitId × Bytes)
  | [] => [x]
  | y :: l => if x.1.path.1 ≤ y.1.path.1 then x :: y :: l else y :: insertByPath x l

/-- stable sort on the path id (structural, so that concrete jobs evaluate in the kernel) -/
def sortByPath : List (WReq UnitId × Bytes) → List (WReq UnitId × Bytes)
  | [] => []
  | x :: l => insertByPath x (sortByPath l)

/-- the rank's share of the replicated units, `sorted((logical_path, write_req_idx))`: units of one path are
already in chunk order, so a stable sort on the path is that sort -/
def repKept (j : Job) (r : Nat) (all : List (WReq UnitId × Bytes)) : List (WReq UnitId × Bytes) :=
  sortByPath (all.filter (fun x => j.rep x.1.path.1 && j.owner x.1.path == r))

def privKept (j : Job) (all : List (WReq UnitId × Bytes)) : List (WReq UnitId × Bytes) :=
  all.filter (fun x => !j.rep x.1.path.1)

/-- the write requests rank `r` executes after partitioning -/
def kept (j : Job) (r : Nat) (all : List (WReq UnitId × Bytes)) : List (WReq UnitId × Bytes) :=
  repKept j r all ++ privKept j all

def keptOf (j : Job) (r : Nat) : Except Err (List (WReq UnitId × Bytes)) :=
  match j.states[r]? with
  | none => .ok []
  | some st => (rankUnits j.cfg st).map (fun us => kept j r (flat us))

/-- storage after every rank executed its write plan -/
def wstore (j : Job) : WLoc → Option Bytes := fun ql =>
  match keptOf j ql.1 with
  | .ok k => Ts.BatchRead.written k (placements j.cfg k) ql.2
  | .error _ => none

/-- the (location, byte range) a rank's batcher recorded for one of the units it kept -/
def locIn (cfg : Cfg) (k : List (WReq UnitId × Bytes)) (u : UnitId) : Option UnitLoc :=
  ((k.zip (placements cfg k)).find? (fun e => e.1.1.path == u)).map (fun e => unitLoc e.1.1 e.2)

def writerOf (j : Job) (r : Nat) (u : UnitId) : Nat := if j.rep u.1 then j.owner u else r

/-- where the committed manifest says unit `u` of a leaf of rank `r` lives -/
def unitWLoc (j : Job) (r : Nat) (u : UnitId) : Except Err (ULoc WLoc) :=
  match keptOf j (writerOf j r u) with
  | .error e => .error e
  | .ok k =>
    match locIn j.cfg k u with
    | none => .error .missing
    | some lr => .ok ((writerOf j r u, lr.1), lr.2)

/-- the committed entry for leaf `(p, l)` of rank `r`: for a private leaf the rank's own (relocated) entry, for a
replicated leaf the consolidated entry (every unit at its writer's location; the same on every rank) -/
def worldEntry (j : Job) (r : Nat) (p : PathId) (l : Leaf) : Except Err (LeafEntryG WLoc) :=
  match leafWrites j.cfg p l with
  | .error e => .error e
  | .ok ws =>
    match mapE (fun x => unitWLoc j r x.1.path) ws with
    | .error e => .error e
    | .ok locs => entryOfUnits l (ws.zip locs)

/-- restore / read_object of that entry on any rank, from the job-wide store -/
def worldRestore (j : Job) (order : List ((Nat × Nat) × ULoc WLoc) → List ((Nat × Nat) × ULoc WLoc))
    (en : LeafEntryG WLoc) : Except Err Leaf :=
  restoreLeaf (wstore j) order en

/-- total bytes of replicated payload written by the whole job -/
def repBytesWritten (j : Job) : Except Err Nat :=
  (mapE (fun r => (keptOf j r).map (fun k => ((k.filter (fun x => j.rep x.1.path.1)).map (·.2.length)).sum))
    (List.range j.states.length)).map List.sum

end Ts.World
