import TsProofs.Properties.C20
