import TsProofs.Properties.C20
import TsProofs.Properties.C17
import TsProofs.Properties.C08
import TsProofs.Properties.C16
import TsProofs.Properties.C15
