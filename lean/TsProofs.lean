import TsProofs.Properties.C20
import TsProofs.Properties.C17
import TsProofs.Properties.C08
