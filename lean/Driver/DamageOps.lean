import Driver.Basic
import TsModel.Damage
open Lean Ts.Drv Ts.Damage

namespace Ts.Drv.DamageOps

structure PReq where
  loc : String
  range : Option (Nat × Nat)
  consumer : Consumer

def parseReq (j : Json) : Except String PReq := do
  let loc ← getStr j "loc"
  let range ← match optField j "range" with
    | none => pure none
    | some v => do
        match (← natList v) with
        | [a, b] => pure (some (a, b))
        | _ => throw "bad range"
  let c ← getStr j "consumer"
  let consumer ← match c with
    | "raw" => do pure (Consumer.raw (← getNat j "len"))
    | "codec" => pure Consumer.codec
    | _ => throw s!"bad consumer {c}"
  pure ⟨loc, range, consumer⟩

def isOk {α} : Except RErr α → Bool
  | .ok _ => true
  | .error _ => false

/-- op `damage_call`: one restore / read_object call = a list of read requests over stored objects of
given sizes, one of which is damaged; `batching` merges the ranged requests of each location
(first-appearance order) as `batch_read_requests` does. Answers whether the call raises. -/
def handle : Handler := fun op j =>
  match op with
  | "damage_call" => some do
      let sizes ← (← getArr j "files").toList.mapM (fun f => do pure ((← getStr f "loc"), (← getNat f "size")))
      let dloc ← getStr j "damaged"
      let dmg ← match (← getStr j "kind") with
        | "deleted" => pure Damage.deleted
        | "truncated" => do pure (Damage.truncated (← getNat j "n"))
        | k => throw s!"bad damage {k}"
      let batching ← getBool j "batching"
      let reqs ← (← getArr j "reqs").toList.mapM parseReq
      let origOf (loc : String) : List Nat := List.replicate ((sizes.find? (·.1 == loc)).map (·.2) |>.getD 0) 0
      let fileOf (loc : String) : Option (List Nat) :=
        if loc == dloc then applyDamage (origOf loc) dmg else some (origOf loc)
      let mut ok := true
      let mut firstErr : String := ""
      if batching then
        -- whole-object requests individually; ranged ones grouped per location
        let mut seen : List String := []
        for r in reqs do
          match r.range with
          | none =>
            if !(isOk (runReq (origOf r.loc) (fileOf r.loc) ⟨none, r.consumer⟩)) then
              ok := false; if firstErr == "" then firstErr := r.loc
          | some _ =>
            if !(seen.contains r.loc) then
              seen := seen ++ [r.loc]
              let group := reqs.filterMap (fun q => if q.loc == r.loc then q.range.map (fun rg => (rg, q.consumer)) else none)
              if !(isOk (runBatched (origOf r.loc) (fileOf r.loc) group)) then
                ok := false; if firstErr == "" then firstErr := r.loc
      else
        for r in reqs do
          if !(isOk (runReq (origOf r.loc) (fileOf r.loc) ⟨r.range, r.consumer⟩)) then
            ok := false; if firstErr == "" then firstErr := r.loc
      pure (Json.mkObj [("outcome", if ok then "ok" else "error"), ("first", firstErr)])
  | _ => none

end Ts.Drv.DamageOps
