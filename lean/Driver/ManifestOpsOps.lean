import Driver.Basic
import TsModel.ManifestOps
open Lean Ts.Drv Ts.ManifestOps

/-! JSON codecs for manifests + op handlers for `TsModel.ManifestOps`.

Wire format: `Str` = array of code points; key = `{"s":[…]}` | `{"i":n}` | `{"b":bool}`;
shard = `{"o":[…],"s":[…],"id":n}`; entry = `{"t":"list"}` | `{"t":"dict"|"odict","keys":[…]}` |
`{"t":"leaf","r":bool,"id":n}` | `{"t":"chunked","r":bool,"meta":n,"chunks":[…]}` |
`{"t":"sharded","shards":[…]}`; manifest = array of `[path, entry]`. -/
namespace Ts.Drv.ManifestOpsOps

def num (n : Nat) : Json := Json.num (JsonNumber.fromNat n)

def errName : Err → String
  | .keyError => "KeyError"
  | .indexError => "IndexError"
  | .valueError => "ValueError"
  | .attributeError => "AttributeError"
  | .badRank => "BadRank"

def errJson (e : Err) : Json := Json.mkObj [("err", errName e)]

def parseKey (j : Json) : Except String Key :=
  match optField j "s", optField j "i", optField j "b" with
  | some v, _, _ => do pure (.str (← natList v))
  | _, some v, _ => do pure (.int (← v.getInt?))
  | _, _, some v => do pure (.bool (← v.getBool?))
  | _, _, _ => throw "bad key"

def keyJson : Key → Json
  | .str s => Json.mkObj [("s", ofNatList s)]
  | .int i => Json.mkObj [("i", Json.num (JsonNumber.fromInt i))]
  | .bool b => Json.mkObj [("b", b)]

def parseShard (j : Json) : Except String Shard := do
  pure { offsets := ← getNatList j "o", sizes := ← getNatList j "s", tensor := ← getNat j "id" }

def shardJson (s : Shard) : Json :=
  Json.mkObj [("o", ofNatList s.offsets), ("s", ofNatList s.sizes), ("id", num s.tensor)]

def parseEntry (j : Json) : Except String Entry := do
  let t ← getStr j "t"
  match t with
  | "list" => pure .list
  | "dict" => do pure (.dict (← (← getArr j "keys").toList.mapM parseKey))
  | "odict" => do pure (.odict (← (← getArr j "keys").toList.mapM parseKey))
  | "leaf" => do pure (.leaf (← getBool j "r") (← getNat j "id"))
  | "chunked" => do pure (.chunked (← getBool j "r") (← getNat j "meta") (← (← getArr j "chunks").toList.mapM parseShard))
  | "sharded" => do pure (.sharded (← (← getArr j "shards").toList.mapM parseShard))
  | _ => throw s!"bad entry type {t}"

def entryJson : Entry → Json
  | .list => Json.mkObj [("t", "list")]
  | .dict ks => Json.mkObj [("t", "dict"), ("keys", Json.arr (ks.map keyJson).toArray)]
  | .odict ks => Json.mkObj [("t", "odict"), ("keys", Json.arr (ks.map keyJson).toArray)]
  | .leaf r p => Json.mkObj [("t", "leaf"), ("r", r), ("id", num p)]
  | .chunked r m cs => Json.mkObj [("t", "chunked"), ("r", r), ("meta", num m), ("chunks", Json.arr (cs.map shardJson).toArray)]
  | .sharded ss => Json.mkObj [("t", "sharded"), ("shards", Json.arr (ss.map shardJson).toArray)]

def parseManifest (v : Json) : Except String Manifest := do
  let a ← v.getArr?
  a.toList.mapM (fun pe => do
    let pa ← pe.getArr?
    match pa.toList with
    | [p, e] => do pure ((← natList p), (← parseEntry e))
    | _ => throw "bad manifest item")

def manifestJson (m : Manifest) : Json :=
  Json.arr (m.map (fun pe => Json.arr #[ofNatList pe.1, entryJson pe.2])).toArray

def getManifest (j : Json) (k : String) : Except String Manifest := do
  parseManifest (← j.getObjVal? k)

def strListJson (l : List Str) : Json := Json.arr (l.map ofNatList).toArray

def getStrList (j : Json) (k : String) : Except String (List Str) := do
  (← getArr j k).toList.mapM natList

/-- ops:
* `mo_view` `{W, manifest, rank}` → `{local, merged}` (`get_manifest_for_rank`)
* `mo_elastic` `{rootOnly, manifest, merged, requests}` → `{manifest}` (`handle_sharded_tensor_elasticity`)
* `mo_restore_view` `{W, manifest, rank, rootOnly, requests}` → `{manifest, delivered:[[path,bool]]}`
* `mo_split` `{W, manifest}` → `{ranks:[manifest]}` (`_get_rank_to_manifest`)
* `mo_remove` `{manifest, path}` → `{manifest}` (`_remove_entry`) -/
def handle : Handler := fun op j =>
  match op with
  | "mo_view" => some do
      let W ← getNat j "W"
      let m ← getManifest j "manifest"
      let r ← getNat j "rank"
      match viewFor W m r with
      | .error e => pure (errJson e)
      | .ok (v, mg) => pure (Json.mkObj [("local", manifestJson v), ("merged", manifestJson mg)])
  | "mo_elastic" => some do
      let ro ← getBool j "rootOnly"
      let m ← getManifest j "manifest"
      let mg ← getManifest j "merged"
      let rq ← getStrList j "requests"
      match handleElasticity ro m mg rq with
      | .error e => pure (errJson e)
      | .ok v => pure (Json.mkObj [("manifest", manifestJson v)])
  | "mo_restore_view" => some do
      let W ← getNat j "W"
      let m ← getManifest j "manifest"
      let r ← getNat j "rank"
      let ro ← getBool j "rootOnly"
      let rq ← getStrList j "requests"
      match restoreView W m r ro rq with
      | .error e => pure (errJson e)
      | .ok v => pure (Json.mkObj [("manifest", manifestJson v),
          ("delivered", Json.arr ((v.filter (fun pe => !isContainer pe.2)).map (fun pe =>
              Json.arr #[ofNatList pe.1, Json.bool (deliveredUnderKey v pe.1)])).toArray)])
  | "mo_split" => some do
      let W ← getNat j "W"
      let m ← getManifest j "manifest"
      match rankToManifest W m with
      | .error e => pure (errJson e)
      | .ok rs => pure (Json.mkObj [("ranks", Json.arr (rs.map manifestJson).toArray)])
  | "mo_remove" => some do
      let m ← getManifest j "manifest"
      let p ← getNatList j "path"
      match removeEntry m p with
      | .error e => pure (errJson e)
      | .ok v => pure (Json.mkObj [("manifest", manifestJson v)])
  | _ => none

end Ts.Drv.ManifestOpsOps
