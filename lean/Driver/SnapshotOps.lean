import Driver.Basic
import TsModel.Snapshot
import TsProofs.BatchRead
open Lean Ts.Drv Ts.Snapshot Ts.Slab

namespace Ts.Drv.SnapshotOps

def parseLeaf (j : Json) : Except String Leaf := do
  let k ← getStr j "k"
  match k with
  | "tensor" => do pure (.tensor ⟨← getStr j "dtype", ← getNatList j "shape", ← getNatList j "bytes"⟩)
  | "blob" => do pure (.blob (← getNatList j "bytes"))
  | _ => throw s!"bad leaf kind {k}"

def locJson : Loc UnitId → Json
  | .orig (i, none) => Json.mkObj [("leaf", i), ("piece", Json.null)]
  | .orig (i, some p) => Json.mkObj [("leaf", i), ("piece", ofNatList [p.1, p.2])]
  | .slab k => Json.mkObj [("slab", k)]

def unitLocJson (u : UnitLoc) : Json :=
  Json.mkObj [("loc", locJson u.1), ("range", match u.2 with | none => Json.null | some r => ofNatList [r.1, r.2])]

def entryJson : LeafEntry → Json
  | .tensor d s u => Json.mkObj [("k", "tensor"), ("dtype", d), ("shape", ofNatList s), ("at", unitLocJson u)]
  | .chunked d s cs => Json.mkObj [("k", "chunked"), ("dtype", d), ("shape", ofNatList s),
      ("chunks", Json.arr (cs.map (fun c => Json.mkObj [("off", c.1.1), ("size", c.1.2), ("at", unitLocJson c.2)])).toArray)]
  | .blob u => Json.mkObj [("k", "blob"), ("at", unitLocJson u)]

def leafJson : Leaf → Json
  | .tensor t => Json.mkObj [("k", "tensor"), ("dtype", t.dtype), ("shape", ofNatList t.shape), ("bytes", ofNatList t.bytes)]
  | .blob b => Json.mkObj [("k", "blob"), ("bytes", ofNatList b)]

def errStr (e : Ts.Snapshot.Err) : String := reprStr e

/-- op `c01_plan`: take of a list of payload leaves under the given knobs; answers the manifest entries,
the stored objects, and what restore rebuilds (chunk consumers completing in list or reversed order). -/
def handle : Handler := fun op j =>
  match op with
  | "c01_plan" => some do
      let c ← j.getObjVal? "cfg"
      let cfg : Cfg := ⟨← getNat c "chunk", ← getNat c "slab", ← getBool c "batching"⟩
      let leaves ← (← getArr j "leaves").toList.mapM parseLeaf
      let rev ← getBool j "reverse"
      match perLeaf cfg 0 leaves with
      | .error e => pure (Json.mkObj [("error_take", errStr e)])
      | .ok pw =>
        let wb := allWrites pw
        let pl := placements cfg wb
        let store := Ts.BatchRead.written wb pl
        match entriesWalk pw pl with
        | .error e => pure (Json.mkObj [("error_entries", errStr e)])
        | .ok ens =>
          let locs := (wb.zip pl).map (fun e => (unitLoc e.1.1 e.2).1)
          let distinct := locs.foldl (fun acc l => if acc.any (fun x => decide (x = l)) then acc else acc ++ [l]) []
          let objs := distinct.map (fun l => Json.mkObj [("loc", locJson l),
            ("bytes", match store l with | some b => ofNatList b | none => Json.null)])
          let order : List ((Nat × Nat) × UnitLoc) → List ((Nat × Nat) × UnitLoc) := if rev then List.reverse else id
          let restored := match mapE (restoreLeaf store order) ens with
            | .ok ls => Json.arr (ls.map leafJson).toArray
            | .error e => Json.mkObj [("error_restore", errStr e)]
          -- optional restore targets, one per leaf: null | {"dtype","shape","bytes"}
          let dsts : List (Option Ts.Serial.Tensor) := match j.getObjVal? "dst" with
            | .ok (Json.arr a) => a.toList.map (fun d => match getStr d "dtype", getNatList d "shape", getNatList d "bytes" with
                | .ok dt, .ok sh, .ok bs => some ⟨dt, sh, bs⟩
                | _, _, _ => none)
            | _ => ens.map (fun _ => none)
          let restoredInto := Json.arr ((ens.zip dsts).map (fun ed =>
            match restoreLeafInto store (fun _ _ u => readUnit store u) order ed.2 ed.1 with
            | .ok l => leafJson l
            | .error e => Json.mkObj [("error_restore", errStr e)])).toArray
          pure (Json.mkObj [("entries", Json.arr (ens.map entryJson).toArray), ("objects", Json.arr objs.toArray),
            ("restored", restored), ("restored_into", restoredInto)])
  | _ => none

end Ts.Drv.SnapshotOps
