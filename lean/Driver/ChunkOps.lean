import Driver.Basic
import TsModel.Chunk
import TsModel.Slab
import TsModel.BatchRead
import TsGen.Tables
open Lean Ts.Drv

/-! JSON-lines ops for C16: chunking, tiling, write batching, slab staging, read merging. -/
namespace Ts.Drv.ChunkOps
open Ts.Chunk Ts.Slab Ts.BatchRead

def num (n : Nat) : Json := Json.num (JsonNumber.fromNat n)
def inum (n : Int) : Json := Json.num (JsonNumber.fromInt n)

def chunkErr : Ts.Chunk.Err → Json
  | .zeroDivision => Json.mkObj [("err", "ZeroDivisionError")]
  | .chunksNotPositive => Json.mkObj [("err", "RuntimeError")]
  | .zeroDim => Json.mkObj [("err", "RuntimeError")]

def slabErr : Ts.Slab.Err → Json
  | .notContiguous => Json.mkObj [("err", "AssertionError")]
  | .sizeMismatch => Json.mkObj [("err", "AssertionError")]
  | .entryMissing => Json.mkObj [("err", "RuntimeError")]
  | .stopIteration => Json.mkObj [("err", "StopIteration")]

/-- Element size of a dtype (attribute name after `torch.`) from the generated table. -/
def esOf (dtype : String) : Except String Nat :=
  match Ts.Gen.dtypeToElementSize.find? (fun e => e.1 == dtype) with
  | some e => pure e.2
  | none => throw s!"unknown dtype {dtype}"

def dtypeStr (dtype : String) : Except String String :=
  match Ts.Gen.dtypeToString.find? (fun e => e.1 == dtype) with
  | some e => pure e.2
  | none => throw s!"unknown dtype {dtype}"

def chunkJson (c : Chunk) : Json :=
  Json.mkObj [("offsets", ofNatList c.offsets), ("sizes", ofNatList c.sizes)]

def optRange (j : Json) (k : String) : Except String (Option (Nat × Nat)) :=
  match optField j k with
  | none => pure none
  | some v => do
    match (← natList v) with
    | [a, b] => pure (some (a, b))
    | _ => throw "bad range"

def rangeJson : Option (Nat × Nat) → Json
  | none => Json.null
  | some (a, b) => ofNatList [a, b]

def parseTEntry (j : Json) : Except String (TEntry String) := do
  pure ⟨← getStr j "loc", ← optRange j "range"⟩

def parseEntry (j : Json) : Except String (Entry String) := do
  match (← getStr j "k") with
  | "tensor" => pure (.tensor (← parseTEntry j))
  | "chunked" => pure (.chunked (← (← getArr j "chunks").toList.mapM parseTEntry))
  | "sharded" => pure (.sharded (← (← getArr j "shards").toList.mapM parseTEntry))
  | _ => pure .other

def locStr : Loc String → String
  | .orig p => p
  | .slab k => s!"batched/#{k}"

def tentryJson (t : TEntry (Loc String)) : Json :=
  Json.mkObj [("loc", locStr t.loc), ("range", rangeJson t.range)]

def entryJson : Entry (Loc String) → Json
  | .tensor t => Json.mkObj [("k", "tensor"), ("loc", locStr t.loc), ("range", rangeJson t.range)]
  | .chunked cs => Json.mkObj [("k", "chunked"), ("chunks", Json.arr (cs.map tentryJson).toArray)]
  | .sharded ss => Json.mkObj [("k", "sharded"), ("shards", Json.arr (ss.map tentryJson).toArray)]
  | .other => Json.mkObj [("k", "other")]

def parseWReq (j : Json) : Except String (WReq String) := do
  pure ⟨← getStr j "path", ← getBool j "is_tensor", ← getBool j "buf_proto", ← getBool j "prep_func", ← getNat j "size"⟩

def outReqJson : OutReq String → Json
  | .pass i r => Json.mkObj [("pass", num i), ("path", r.path)]
  | .slab s => Json.mkObj [("slab", s!"batched/#{s.slab}"), ("size", num s.size),
      ("members", Json.arr (s.members.map (fun m => ofNatList [m.1.1, m.1.2, m.2])).toArray)]

def parseRReq (j : Json) : Except String (RReq String) := do
  pure ⟨← getStr j "path", ← optRange j "range", ← getNat j "consumer"⟩

def outRRJson : OutRR String → Json
  | .pass r => Json.mkObj [("path", r.path), ("range", rangeJson r.range), ("consumer", num r.consumer)]
  | .merged p range subs bufSz => Json.mkObj [("path", p), ("range", ofNatList [range.1, range.2]),
      ("subs", Json.arr (subs.map (fun s => Json.arr #[inum s.1.1, inum s.1.2, num s.2])).toArray),
      ("buf_sz", inum bufSz)]

def deliveriesJson (ds : List (Nat × Ts.Storage.Bytes)) : Json :=
  Json.arr (ds.map (fun d => Json.arr #[num d.1, ofNatList d.2])).toArray

def parseFiles (j : Json) : Except String (List (String × Ts.Storage.Bytes)) := do
  (← getArr j "files").toList.mapM (fun f => do pure (← getStr f "path", ← getNatList f "data"))

def tileJson (t : Tile) : Json :=
  Json.mkObj [("range", ofNatList [t.lo, t.hi]), ("shape", ofNatList t.shape)]

def handle : Handler := fun op j =>
  match op with
  | "torch_chunk" => some do
      match torchChunk (← getNat j "d") (← getNat j "n") with
      | .ok s => pure (Json.mkObj [("sizes", ofNatList s)])
      | .error e => pure (chunkErr e)
  | "chunk_tensor" => some do
      let shape ← getNatList j "shape"
      let es ← esOf (← getStr j "dtype")
      match chunkTensor shape es (← getNat j "max_bytes") with
      | .ok cs => pure (Json.mkObj [("chunks", Json.arr (cs.map chunkJson).toArray)])
      | .error e => pure (chunkErr e)
  | "chunked_write" => some do
      -- ChunkedTensorIOPreparer.prepare_write on the instruction of chunk_tensor; optional tensor bytes
      let shape ← getNatList j "shape"
      let dtype ← getStr j "dtype"
      let es ← esOf dtype
      let path ← getStr j "path"
      let data ← match optField j "data" with
        | none => pure none
        | some v => do pure (some (← natList v))
      match pieces shape es (← getNat j "max_bytes") with
      | .error e => pure (chunkErr e)
      | .ok ps =>
        let rest := (normShape shape).2
        let cs := ps.map (fun p =>
          let c := toChunk rest p
          let r := pieceRange shape es p
          Json.mkObj ([("offsets", ofNatList c.offsets), ("sizes", ofNatList c.sizes),
            ("location", chunkLocation path c), ("shape", ofNatList c.sizes),
            ("serializer", serializerOf dtype), ("nbytes", num (c.nbytes es)),
            ("slice", ofNatList [r.1, r.2])]
            ++ (match data with
                | none => []
                | some b => [("bytes", ofNatList (pieceBytes shape es b p))])))
        pure (Json.mkObj [("dtype", ← dtypeStr dtype), ("shape", ofNatList shape),
          ("chunks", Json.arr cs.toArray)])
  | "plan_tensor_write" => some do
      let shape ← getNatList j "shape"
      let es ← esOf (← getStr j "dtype")
      match planTensorWrite shape es (← getNat j "max_bytes") with
      | .ok none => pure (Json.mkObj [("chunked", false)])
      | .ok (some cs) => pure (Json.mkObj [("chunked", true), ("chunks", Json.arr (cs.map chunkJson).toArray)])
      | .error e => pure (chunkErr e)
  | "tile" => some do
      let shape ← getNatList j "shape"
      let es ← esOf (← getStr j "dtype")
      match tile shape (← getBool j "flat") es (← getNat j "limit") (← optRange j "base") with
      | .ok ts => pure (Json.mkObj [("tiles", Json.arr (ts.map tileJson).toArray)])
      | .error e => pure (chunkErr e)
  | "batch_write" => some do
      let entries ← (← getArr j "entries").toList.mapM parseEntry
      let reqs ← (← getArr j "reqs").toList.mapM parseWReq
      match batchWrite entries reqs (← getNat j "thr") with
      | .ok (es, out) => pure (Json.mkObj [("entries", Json.arr (es.map entryJson).toArray),
          ("reqs", Json.arr (out.map outReqJson).toArray)])
      | .error e => pure (slabErr e)
  | "slab_stage" => some do
      let done ← (← getArr j "done").toList.mapM (fun m => do
        pure ((← getNat m "lo", ← getNat m "hi"), ← getNatList m "data"))
      match stage (← getNat j "size") done with
      | .ok b => pure (Json.mkObj [("bytes", ofNatList b)])
      | .error e => pure (slabErr e)
  | "batch_read" => some do
      let reqs ← (← getArr j "reqs").toList.mapM parseRReq
      pure (Json.mkObj [("reqs", Json.arr ((merge reqs).map outRRJson).toArray)])
  | "exec_read" => some do
      -- run a read plan (merged or not) against a list of files
      let reqs ← (← getArr j "reqs").toList.mapM parseRReq
      let files ← parseFiles j
      let store : String → Option Ts.Storage.Bytes := fun p => (files.find? (fun f => f.1 == p)).map (·.2)
      let r := if (← getBool j "merge") then exec store (merge reqs) else execPlain store reqs
      match r with
      | some ds => pure (Json.mkObj [("deliveries", deliveriesJson ds)])
      | none => pure (Json.mkObj [("err", "FileNotFoundError")])
  | _ => none

end Ts.Drv.ChunkOps
