import Driver.Basic
import TsModel.Glob
open Lean Ts.Drv Ts.Glob

namespace Ts.Drv.GlobOps

def optBool : Option Bool → Json
  | none => Json.str "unsupported"
  | some b => Json.bool b

/-- ops: `fnmatch` (a batch of (name, pattern) pairs) and `rep_decide` (`_calculate_replicated_entries`: globs +
every rank's (path, sharded?) list -> the replicated paths). -/
def handle : Handler := fun op j =>
  match op with
  | "fnmatch" => some do
      let cases ← getArr j "cases"
      let outs ← cases.toList.mapM (fun c => do pure (optBool (fnmatch (← getNatList c "name") (← getNatList c "pat"))))
      pure (Json.mkObj [("outs", Json.arr outs.toArray)])
  | "rep_decide" => some do
      let globs ← (← getArr j "globs").toList.mapM (fun g => do (← g.getArr?).toList.mapM (fun x => x.getNat?))
      let ranks ← (← getArr j "ranks").toList.mapM (fun r => do
        (← r.getArr?).toList.mapM (fun e => do pure ((← getNatList e "path"), ← getBool e "sharded")))
      pure (match replicatedPaths globs ranks with
        | none => Json.mkObj [("unsupported", true)]
        | some ps => Json.mkObj [("replicated", Json.arr (ps.map ofNatList).toArray)])
  | _ => none

end Ts.Drv.GlobOps
