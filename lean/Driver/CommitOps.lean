import Driver.Basic
import TsModel.Commit
open Lean Ts.Drv Ts.Commit Ts.Barrier

/-!
Driver ops for the commit protocols (C13, C02, C03).

* `commit_async` : replay observed linearised histories of successive `async_take` attempts (rounds
  sharing the store) in the model; per round: how many events were accepted, the first rejected
  event with what the model would have produced, the labels still enabled at the end, per-rank
  outcomes, and whether the model committed.
* `commit_sync`  : the same for one `Snapshot.take`.
* `commit_run_async` / `commit_run_sync` : run a schedule of labels in the model, return the trace.
-/
namespace Ts.Drv.CommitOps

def valJson : Val → Json
  | .empty => "empty"
  | .err => "err"

def num (n : Nat) : Json := Json.num (JsonNumber.fromNat n)

def evJson : Ev → Json
  | .wBegin r w => Json.mkObj [("e", "wBegin"), ("r", num r), ("w", num w)]
  | .wEnd r w => Json.mkObj [("e", "wEnd"), ("r", num r), ("w", num w)]
  | .wFail r w => Json.mkObj [("e", "wFail"), ("r", num r), ("w", num w)]
  | .ioComplete r => Json.mkObj [("e", "ioComplete"), ("r", num r)]
  | .ioFail r => Json.mkObj [("e", "ioFail"), ("r", num r)]
  | .set r v => Json.mkObj [("e", "set"), ("r", num r), ("v", valJson v)]
  | .wait r => Json.mkObj [("e", "wait"), ("r", num r)]
  | .get r k v => Json.mkObj [("e", "get"), ("r", num r), ("k", num k), ("v", valJson v)]
  | .mBegin => Json.mkObj [("e", "mBegin")]
  | .mEnd => Json.mkObj [("e", "mEnd")]
  | .mFail => Json.mkObj [("e", "mFail")]
  | .waitOk r => Json.mkObj [("e", "waitOk"), ("r", num r)]
  | .waitRaise r => Json.mkObj [("e", "waitRaise"), ("r", num r)]
  | .leave1 r => Json.mkObj [("e", "leave1"), ("r", num r)]
  | .enter2 r => Json.mkObj [("e", "enter2"), ("r", num r)]
  | .returnOk r => Json.mkObj [("e", "returnOk"), ("r", num r)]
  | .returnRaise r => Json.mkObj [("e", "returnRaise"), ("r", num r)]

def parseVal (j : Json) : Except String Val := do
  match (← getStr j "v") with
  | "empty" => pure .empty
  | "err" => pure .err
  | s => throw s!"bad value {s}"

def parseEv (j : Json) : Except String Ev := do
  let e ← getStr j "e"
  match e with
  | "wBegin" => pure (.wBegin (← getNat j "r") (← getNat j "w"))
  | "wEnd" => pure (.wEnd (← getNat j "r") (← getNat j "w"))
  | "wFail" => pure (.wFail (← getNat j "r") (← getNat j "w"))
  | "ioComplete" => pure (.ioComplete (← getNat j "r"))
  | "ioFail" => pure (.ioFail (← getNat j "r"))
  | "set" => pure (.set (← getNat j "r") (← parseVal j))
  | "wait" => pure (.wait (← getNat j "r"))
  | "get" => pure (.get (← getNat j "r") (← getNat j "k") (← parseVal j))
  | "mBegin" => pure .mBegin
  | "mEnd" => pure .mEnd
  | "mFail" => pure .mFail
  | "waitOk" => pure (.waitOk (← getNat j "r"))
  | "waitRaise" => pure (.waitRaise (← getNat j "r"))
  | "leave1" => pure (.leave1 (← getNat j "r"))
  | "enter2" => pure (.enter2 (← getNat j "r"))
  | "returnOk" => pure (.returnOk (← getNat j "r"))
  | "returnRaise" => pure (.returnRaise (← getNat j "r"))
  | _ => throw s!"bad event {e}"

/-- Store-key side conditions the model's events do not carry: a rank sets only its own key, under
this round's prefix; the leader waits for exactly the peer keys, a non-leader for `[key_0]`. -/
def keyCheck (cfg : Cfg) (j : Json) (e : Ev) : Option String :=
  let pOk : Bool := match optField j "p" with
    | some v => (match v.getNat? with | .ok p => p == cfg.pfx | .error _ => false)
    | none => true
  if !pOk then some "key under a different barrier prefix" else
  match e with
  | .set r _ =>
    match optField j "k" with
    | some v => (match v.getNat? with
        | .ok k => if k == r then none else some s!"rank {r} sets the key of rank {k}"
        | .error _ => some "bad k")
    | none => none
  | .wait r =>
    match optField j "keys" with
    | some v => (match natList v with
        | .ok ks =>
          let expect := if r == 0 then peers cfg.n else [0]
          if ks == expect then none else some s!"rank {r} waits for keys {ks}, model expects {expect}"
        | .error _ => some "bad keys")
    | none => none
  | _ => none

def parseCfg (j : Json) : Except String Cfg := do
  let n ← getNat j "n"
  let pfx ← (match optField j "pfx" with | some v => v.getNat? | none => pure 0)
  let nw ← getNatList j "nw"
  let pf ← (← getArr j "pfail").toList.mapM (fun p => do
    let l ← natList p
    match l with
    | [r, w] => pure (r, w)
    | _ => throw "bad pfail entry")
  let mf ← getBool j "mfail"
  pure { n := n, pfx := pfx, nw := fun r => nw.getD r 0, pfail := fun r w => pf.contains (r, w), mfail := mf }

def lblJson (l : Lbl) : Json :=
  match l.a with
  | .ctl => Json.mkObj [("r", num l.r), ("a", "ctl")]
  | .wBegin w => Json.mkObj [("r", num l.r), ("a", "wBegin"), ("w", num w)]
  | .wEnd w => Json.mkObj [("r", num l.r), ("a", "wEnd"), ("w", num w)]

def parseLbl (j : Json) : Except String Lbl := do
  let r ← getNat j "r"
  match (← getStr j "a") with
  | "ctl" => pure ⟨r, .ctl⟩
  | "wBegin" => pure ⟨r, .wBegin (← getNat j "w")⟩
  | "wEnd" => pure ⟨r, .wEnd (← getNat j "w")⟩
  | a => throw s!"bad action {a}"

def pcStr : PC → String
  | .io => "io" | .arrive => "arrive" | .arriveGet k => s!"arriveGet{k}" | .arriveErr => "arriveErr"
  | .mBegin => "mBegin" | .mEnd => "mEnd" | .depart => "depart" | .departGet => "departGet"
  | .exc => "exc" | .fin b => s!"fin:{b}" | .done true => "ok" | .done false => "raise"

def spcStr : SPC → String
  | .io => "io" | .in1 => "in1" | .mBegin => "mBegin" | .mEnd => "mEnd" | .excM => "excM"
  | .pre2 => "pre2" | .in2 => "in2" | .retOk => "ok" | .raisedIO => "raise" | .raisedM => "raise"

def memB (e : Ev) (l : List Ev) : Bool := l.contains e

/-- Replay with the key side conditions. -/
def replayA (cfg : Cfg) (s0 : AState) (evs : List (Json × Ev)) : AState × Nat × Option Json :=
  let rec go (s : AState) (k : Nat) : List (Json × Ev) → AState × Nat × Option Json
    | [] => (s, k, none)
    | (j, e) :: rest =>
      match keyCheck cfg j e with
      | some why => (s, k, some (Json.mkObj [("index", num k), ("observed", evJson e), ("model", Json.null), ("why", why)]))
      | none =>
        let a := aaccept cfg s [e]
        match a.rejected with
        | none => go a.state (k + 1) rest
        | some (_, m) =>
          (s, k, some (Json.mkObj [("index", num k), ("observed", evJson e),
            ("model", match m with | some e' => evJson e' | none => Json.null),
            ("why", match m with | some _ => "the model's next step of this rank produces a different event"
                                 | none => "not enabled in the model")]))
  go s0 0 evs

def replayS (cfg : Cfg) (s0 : SState) (evs : List Ev) : SState × Nat × Option Json :=
  let rec go (s : SState) (k : Nat) : List Ev → SState × Nat × Option Json
    | [] => (s, k, none)
    | e :: rest =>
      let a := saccept cfg s [e]
      match a.rejected with
      | none => go a.state (k + 1) rest
      | some (_, m) =>
        (s, k, some (Json.mkObj [("index", num k), ("observed", evJson e),
          ("model", match m with | some e' => evJson e' | none => Json.null),
          ("why", match m with | some _ => "the model's next step of this rank produces a different event"
                               | none => "not enabled in the model")]))
  go s0 0 evs

def asummary (cfg : Cfg) (s : AState) (k total : Nat) (rej : Option Json) : Json :=
  let t := s.trace
  Json.mkObj [
    ("accepted", num k), ("total", num total),
    ("rejected", rej.getD Json.null),
    ("enabled", Json.arr ((aenabled cfg s).map lblJson).toArray),
    ("outcomes", Json.arr ((List.range cfg.n).map (fun r => (pcStr (s.pc r) : Json))).toArray),
    ("all_terminal", s.allTerminal cfg),
    ("committed", memB .mEnd t),
    ("mbegin", memB .mBegin t)]

def ssummary (cfg : Cfg) (s : SState) (k total : Nat) (rej : Option Json) : Json :=
  let t := s.trace
  Json.mkObj [
    ("accepted", num k), ("total", num total),
    ("rejected", rej.getD Json.null),
    ("enabled", Json.arr ((senabled cfg s).map lblJson).toArray),
    ("outcomes", Json.arr ((List.range cfg.n).map (fun r => (spcStr (s.pc r) : Json))).toArray),
    ("committed", memB .mEnd t),
    ("mbegin", memB .mBegin t)]

def handle : Handler := fun op j =>
  match op with
  | "commit_async" => some do
      let rounds ← getArr j "rounds"
      let mut st : Store := Store.empty
      let mut outs : Array Json := #[]
      for rd in rounds do
        let cfg ← parseCfg rd
        let evsJ ← getArr rd "events"
        let evs ← evsJ.toList.mapM (fun ej => do pure (ej, ← parseEv ej))
        let (s, k, rej) := replayA cfg (AState.init st) evs
        outs := outs.push (asummary cfg s k evs.length rej)
        st := s.store
      pure (Json.mkObj [("rounds", Json.arr outs)])
  | "commit_sync" => some do
      let cfg ← parseCfg j
      let evs ← (← getArr j "events").toList.mapM parseEv
      let (s, k, rej) := replayS cfg SState.init evs
      pure (ssummary cfg s k evs.length rej)
  | "commit_run_async" => some do
      let cfg ← parseCfg j
      let sched ← (← getArr j "sched").toList.mapM parseLbl
      let s := arun cfg (AState.init Store.empty) sched
      pure (Json.mkObj [("trace", Json.arr (s.trace.map evJson).toArray),
                        ("summary", asummary cfg s s.trace.length s.trace.length none)])
  | "commit_run_sync" => some do
      let cfg ← parseCfg j
      let sched ← (← getArr j "sched").toList.mapM parseLbl
      let s := srun cfg SState.init sched
      pure (Json.mkObj [("trace", Json.arr (s.trace.map evJson).toArray),
                        ("summary", ssummary cfg s s.trace.length s.trace.length none)])
  | _ => none

end Ts.Drv.CommitOps
