import Lean.Data.Json
/-! JSON helpers shared by all driver op handlers. -/
open Lean

namespace Ts.Drv

abbrev Handler := String → Json → Option (Except String Json)

def getNat (j : Json) (k : String) : Except String Nat := do
  let v ← j.getObjVal? k
  v.getNat?

def getInt (j : Json) (k : String) : Except String Int := do
  let v ← j.getObjVal? k
  v.getInt?

def getStr (j : Json) (k : String) : Except String String := do
  let v ← j.getObjVal? k
  v.getStr?

def getBool (j : Json) (k : String) : Except String Bool := do
  let v ← j.getObjVal? k
  v.getBool?

def getArr (j : Json) (k : String) : Except String (Array Json) := do
  let v ← j.getObjVal? k
  v.getArr?

def natList (v : Json) : Except String (List Nat) := do
  let a ← v.getArr?
  a.toList.mapM (·.getNat?)

def intList (v : Json) : Except String (List Int) := do
  let a ← v.getArr?
  a.toList.mapM (·.getInt?)

def getNatList (j : Json) (k : String) : Except String (List Nat) := do
  natList (← j.getObjVal? k)

def getIntList (j : Json) (k : String) : Except String (List Int) := do
  intList (← j.getObjVal? k)

def optField (j : Json) (k : String) : Option Json :=
  match j.getObjVal? k with
  | .ok Json.null => none
  | .ok v => some v
  | .error _ => none

def ofNatList (l : List Nat) : Json := Json.arr (l.map (fun n => (Json.num (JsonNumber.fromNat n)))).toArray
def ofIntList (l : List Int) : Json := Json.arr (l.map (fun n => (Json.num (JsonNumber.fromInt n)))).toArray

end Ts.Drv
