import Driver.Basic
import TsModel.Shard
open Lean Ts.Drv Ts.Shard

namespace Ts.Drv.ShardOps

def errStr : Err → String
  | .valueError => "ValueError"
  | .typeError => "TypeError"
  | .indexError => "IndexError"
  | .zeroDivision => "ZeroDivisionError"
  | .narrowError => "NarrowError"
  | .shapeMismatch => "ShapeMismatch"
  | .assertionError => "AssertionError"

def errJson (e : Err) : Json := Json.mkObj [("err", errStr e)]

def parseBox (j : Json) : Except String Box := do
  pure ⟨← getNatList j "offsets", ← getNatList j "sizes"⟩

def boxJson (b : Box) : Json := Json.mkObj [("offsets", ofNatList b.offsets), ("sizes", ofNatList b.sizes)]

/-- a shard with flat row-major contents; missing elements read as `dflt` -/
def parseShard (j : Json) : Except String (Shard Nat) := do
  let b ← parseBox j
  let data ← getNatList j "data"
  pure ⟨b, Tensor.ofFlat b.sizes data 0⟩

def shardJson (s : Shard Nat) : Json :=
  Json.mkObj [("offsets", ofNatList s.box.offsets), ("sizes", ofNatList s.box.sizes),
              ("data", ofNatList s.tensor.toFlat)]

def num (n : Nat) : Json := Json.num (JsonNumber.fromNat n)
def inum (n : Int) : Json := Json.num (JsonNumber.fromInt n)

/-- indices (in `saved`) of the persisted shards that write element `j` of local shard `d` -/
def writersOf (saved : List (Shard Nat)) (d : Shard Nat) (j : List Nat) : List Nat :=
  (saved.zipIdx.filter (fun p => wrote p.1.box d.box d.tensor.sizes j)).map (·.2)

/-- ops: `overlap_region`, `subdivide`, `reshard`, `tensor_shape`. -/
def handle : Handler := fun op j =>
  match op with
  | "overlap_region" => some do
      let saved ← parseBox (← j.getObjVal? "saved")
      let cur ← parseBox (← j.getObjVal? "current")
      let ov := match overlaps cur saved with
        | .ok b => Json.bool b
        | .error e => errJson e
      let reg := (overlapRegion saved cur).map fun n =>
        Json.arr #[num n.dim, num n.srcOff, num n.dstOff, inum n.len]
      pure (Json.mkObj [("overlaps", ov), ("region", Json.arr reg.toArray)])
  | "tensor_shape" => some do
      let boxes ← (← getArr j "boxes").toList.mapM parseBox
      match tensorShape boxes with
      | .error e => pure (errJson e)
      | .ok sh => pure (Json.mkObj [("shape", ofNatList sh)])
  | "subdivide" => some do
      let b ← parseBox j
      let dim ← getNat j "dim"
      let mx ← getInt j "max"
      let el ← getNat j "elem"
      match subdivide el b dim mx with
      | .error e => pure (errJson e)
      | .ok subs =>
        pure (Json.mkObj [("subs", Json.arr (subs.map fun s =>
          Json.arr #[num s.start, num s.len, ofNatList s.box.offsets, ofNatList s.box.sizes]).toArray)])
  | "reshard" => some do
      -- either "saved": persisted shards given directly, or "src" + "dim"/"max"/"elem": prepare_write first
      let saved? : Except Err (List (Shard Nat)) ← match optField j "saved" with
        | some v => do
            let l ← (← v.getArr?).toList.mapM parseShard
            pure (Except.ok l)
        | none => do
            let src ← (← getArr j "src").toList.mapM parseShard
            pure (prepareWrite (← getNat j "elem") (← getNat j "dim") (← getInt j "max") src)
      match saved? with
      | .error e => pure (Json.mkObj [("write_err", errStr e)])
      | .ok saved =>
        let dsts ← (← getArr j "dst").toList.mapM parseShard
        let dense := (getBool j "dense").toOption.getD false
        let dsts := if dense then dsts.map (fun d => ⟨denseBox d.tensor.sizes, d.tensor⟩) else dsts
        let savedJ := Json.arr (saved.map shardJson).toArray
        match reshard saved dsts with
        | .error e => pure (Json.mkObj [("saved", savedJ), ("read_err", errStr e)])
        | .ok out =>
          let writers := dsts.map fun d =>
            Json.arr ((indices d.tensor.sizes).map fun jx => ofNatList (writersOf saved d jx)).toArray
          pure (Json.mkObj [("saved", savedJ),
                            ("dst", Json.arr (out.map (fun s => ofNatList s.tensor.toFlat)).toArray),
                            ("writers", Json.arr writers.toArray)])
  | _ => none

end Ts.Drv.ShardOps
