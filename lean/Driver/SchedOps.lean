import Driver.Basic
import TsModel.Sched
open Lean Ts.Drv Ts.Sched

/-! Driver ops for the scheduler model (C10 / C11):
`sched_write_trace`, `sched_read_trace` replay an observed event trace and answer, per event,
enabled / not (+ the reason) and the running budget, plus the final state;
`sched_write_greedy`, `sched_read_greedy` run the deterministic greedy scheduler;
`auto_budget` evaluates `get_process_memory_budget_bytes`. -/
namespace Ts.Drv.SchedOps

def errStr : Err → String
  | .badId => "badId"
  | .notEnabled => "notEnabled"
  | .notQuiescent => "notQuiescent"
  | .finished => "finished"
  | .zeroDivision => "ZeroDivisionError"

def outcomeStr : Outcome → String
  | .running => "running" | .ok => "ok" | .error => "error"

def jnat (n : Nat) : Json := Json.num (JsonNumber.fromNat n)
def jint (n : Int) : Json := Json.num (JsonNumber.fromInt n)

def parseCfg (j : Json) : Except String Config := do
  let rs ← getArr j "reqs"
  let reqs ← rs.toList.mapM (fun v => do
    match ← natList v with
    | [c, b] => pure (⟨c, b⟩ : Req)
    | _ => throw "req must be [cost, buf]")
  pure { reqs := reqs, budget := ← getInt j "budget", cap := ← getNat j "cap" }

def wkindOf : String → Except String WKind
  | "stageStart" => pure .stageStart | "stageDone" => pure .stageDone | "ioStart" => pure .ioStart
  | "ioDone" => pure .ioDone | "stageFail" => pure .stageFail | "ioFail" => pure .ioFail
  | s => throw s!"bad write event kind {s}"

def wkindStr : WKind → String
  | .stageStart => "stageStart" | .stageDone => "stageDone" | .ioStart => "ioStart"
  | .ioDone => "ioDone" | .stageFail => "stageFail" | .ioFail => "ioFail"

def rkindOf : String → Except String RKind
  | "ioStart" => pure .ioStart | "ioDone" => pure .ioDone | "consumeDone" => pure .consumeDone
  | "ioFail" => pure .ioFail | "consumeFail" => pure .consumeFail
  | s => throw s!"bad read event kind {s}"

def rkindStr : RKind → String
  | .ioStart => "ioStart" | .ioDone => "ioDone" | .consumeDone => "consumeDone"
  | .ioFail => "ioFail" | .consumeFail => "consumeFail"

def wstageStr : WStage → String
  | .rfs => "rfs" | .stg => "stg" | .rfi => "rfi" | .io => "io" | .done => "done"

def rstageStr : RStage → String
  | .pending => "pending" | .io => "io" | .consuming => "consuming" | .done => "done"

def wstateJson (cap : Nat) (s : WState) : Json :=
  Json.mkObj [
    ("stages", Json.arr (s.slots.map (fun sl => Json.str (wstageStr sl.stage))).toArray),
    ("budget", jint s.budget),
    ("accounted", jnat s.accounted),
    ("inflight", jnat s.inflight),
    ("io", jnat s.nIo),
    ("outcome", outcomeStr s.outcome),
    ("quiescent", decide (s.quiescent cap)),
    ("terminal", (wGreedyNext cap s).isNone)]

def rstateJson (cap : Nat) (s : RState) : Json :=
  Json.mkObj [
    ("stages", Json.arr (s.slots.map (fun sl => Json.str (rstageStr sl.stage))).toArray),
    ("budget", jint s.budget),
    ("accounted", jnat s.accounted),
    ("accounted_real", jnat s.accountedReal),
    ("inflight", jnat s.inflight),
    ("io", jnat s.nIo),
    ("outcome", outcomeStr s.outcome),
    ("saturated", decide (s.saturated cap)),
    ("terminal", (rGreedyNext cap s).isNone)]

/-- Replays as far as the model accepts; `steps[i]` describes event `i`; after the first rejected
event the remaining events are not replayed (`accepted = false`, `rejected_at = i`). -/
def replayW (cap : Nat) (s0 : WState) (tr : List WEvent) : Json := Id.run do
  let mut s := s0
  let mut steps : Array Json := #[]
  let mut rejected : Option Nat := none
  let mut i := 0
  for e in tr do
    if rejected.isNone then
      match wstep cap s e with
      | .ok s' =>
        s := s'
        steps := steps.push (Json.mkObj [("ok", true), ("budget", jint s.budget),
          ("accounted", jnat s.accounted), ("inflight", jnat s.inflight), ("io", jnat s.nIo)])
      | .error x =>
        steps := steps.push (Json.mkObj [("ok", false), ("err", errStr x)])
        rejected := some i
    i := i + 1
  Json.mkObj [("accepted", rejected.isNone),
    ("rejected_at", match rejected with | none => Json.null | some k => jnat k),
    ("steps", Json.arr steps), ("final", wstateJson cap s)]

def replayR (cap : Nat) (s0 : RState) (tr : List REvent) : Json := Id.run do
  let mut s := s0
  let mut steps : Array Json := #[]
  let mut rejected : Option Nat := none
  let mut i := 0
  for e in tr do
    if rejected.isNone then
      match rstep cap s e with
      | .ok s' =>
        s := s'
        steps := steps.push (Json.mkObj [("ok", true), ("budget", jint s.budget),
          ("accounted", jnat s.accounted), ("accounted_real", jnat s.accountedReal),
          ("inflight", jnat s.inflight), ("io", jnat s.nIo)])
      | .error x =>
        steps := steps.push (Json.mkObj [("ok", false), ("err", errStr x)])
        rejected := some i
    i := i + 1
  Json.mkObj [("accepted", rejected.isNone),
    ("rejected_at", match rejected with | none => Json.null | some k => jnat k),
    ("steps", Json.arr steps), ("final", rstateJson cap s)]

def parseWTrace (j : Json) : Except String (List WEvent) := do
  (← getArr j "trace").toList.mapM (fun v => do
    pure (⟨← wkindOf (← getStr v "k"), ← getNat v "r"⟩ : WEvent))

def parseRTrace (j : Json) : Except String (List REvent) := do
  (← getArr j "trace").toList.mapM (fun v => do
    pure (⟨← rkindOf (← getStr v "k"), ← getNat v "r"⟩ : REvent))

def strCodes (v : Json) : Except String (List Nat) := do
  match v with
  | .str s => pure (s.toList.map Char.toNat)
  | _ => natList v

def handle : Handler := fun op j =>
  match op with
  | "sched_write_trace" => some do
      let cfg ← parseCfg j
      let tr ← parseWTrace j
      pure (replayW cfg.cap (wInit cfg) tr)
  | "sched_read_trace" => some do
      let cfg ← parseCfg j
      let tr ← parseRTrace j
      pure (replayR cfg.cap (rInit cfg) tr)
  | "sched_write_greedy" => some do
      let cfg ← parseCfg j
      let r := wRunGreedy cfg
      pure (Json.mkObj [
        ("trace", Json.arr (r.1.map (fun e => Json.mkObj [("k", wkindStr e.kind), ("r", jnat e.req)])).toArray),
        ("final", wstateJson cfg.cap r.2)])
  | "sched_read_greedy" => some do
      let cfg ← parseCfg j
      let r := rRunGreedy cfg
      pure (Json.mkObj [
        ("trace", Json.arr (r.1.map (fun e => Json.mkObj [("k", rkindStr e.kind), ("r", jnat e.req)])).toArray),
        ("final", rstateJson cfg.cap r.2)])
  | "auto_budget" => some do
      let avail ← getNat j "avail"
      let hosts ← (← getArr j "hostnames").toList.mapM strCodes
      let mine ← strCodes (← j.getObjVal? "mine")
      let ov : Budget.Override ← match optField j "override" with
        | none => pure Budget.Override.absent
        | some v => match v.getObjVal? "value" with
          | .ok x => do pure (Budget.Override.value (← x.getInt?))
          | .error _ => pure Budget.Override.unparseable
      match Budget.processBudget ov avail hosts mine with
      | .ok v => pure (Json.mkObj [("budget", jint v),
          ("lws", jnat (Budget.localWorldSize hosts mine))])
      | .error e => pure (Json.mkObj [("err", errStr e)])
  | _ => none

end Ts.Drv.SchedOps
