import Driver.Basic
import TsModel.Stage
open Lean Ts.Drv Ts.Stage

namespace Ts.Drv.StageOps

/-- op `stage`: for each leaf (serializer, contiguous) answer whether the staged buffer aliases
application memory (`alias`) or owns its bytes (`fresh`), for the given snapshot kind. -/
def handle : Handler := fun op j =>
  match op with
  | "stage_alias" => some do
      let isAsync ← getBool j "async"
      let leaves ← getArr j "leaves"
      let mut outs : Array Json := #[]
      for l in leaves do
        let ser ← getStr l "ser"
        let contig ← getBool l "contig"
        let s ← match ser with
          | "buffer_protocol" => pure Serializer.bufferProtocol
          | "torch_save" => pure Serializer.torchSave
          | _ => throw s!"bad serializer {ser}"
        let b := stage id isAsync ⟨0, s, contig⟩ (fun _ => [])
        outs := outs.push (match b with | .alias _ => "alias" | .fresh _ => "fresh")
      pure (Json.mkObj [("kinds", Json.arr outs)])
  | _ => none

end Ts.Drv.StageOps
