import Driver.Basic
import TsModel.Stage
open Lean Ts.Drv Ts.Stage

namespace Ts.Drv.StageOps

/-- op `stage`: for each leaf (serializer, contiguous) answer whether the staged buffer aliases
application memory (`alias`) or owns its bytes (`fresh`), for the given snapshot kind. -/
def handle : Handler := fun op j =>
  match op with
  | "stage_alias" => some do
      let isAsync ← getBool j "async"
      let leaves ← getArr j "leaves"
      let mut outs : Array Json := #[]
      for l in leaves do
        let ser ← getStr l "ser"
        let contig ← getBool l "contig"
        let s ← match ser with
          | "buffer_protocol" => pure Serializer.bufferProtocol
          | "torch_save" => pure Serializer.torchSave
          | _ => throw s!"bad serializer {ser}"
        let b := stage id isAsync ⟨0, s, contig⟩ (fun _ => [])
        outs := outs.push (match b with | .alias _ => "alias" | .fresh _ => "fresh")
      pure (Json.mkObj [("kinds", Json.arr outs)])
  | "stage_history" => some do
      -- memory images are lists of byte lists indexed by address; ops: {"take": [leaf...]}, {"mutate": mem}, {"write": [k, i]}
      let parseMem (m : Json) : Except String Mem := do
        let cells ← (← m.getArr?).toList.mapM (fun c => do (← c.getArr?).toList.mapM (fun x => x.getNat?))
        pure (fun a => cells.getD a [])
      let parseLeaf (l : Json) : Except String Leaf := do
        let ser ← getStr l "ser"
        let s ← match ser with
          | "buffer_protocol" => pure Serializer.bufferProtocol
          | "torch_save" => pure Serializer.torchSave
          | _ => throw s!"bad serializer {ser}"
        pure ⟨← getNat l "addr", s, ← getBool l "contig"⟩
      let mem0 ← parseMem (← j.getObjVal? "mem0")
      let ops ← (← getArr j "ops").toList.mapM (fun o => do
        match o.getObjVal? "take" with
        | .ok t => do pure (Op.asyncTake (← (← t.getArr?).toList.mapM parseLeaf))
        | .error _ =>
          match o.getObjVal? "mutate" with
          | .ok m => do
              let mem ← parseMem m
              pure (Op.mutate (fun _ => mem))
          | .error _ => do
              let w ← getNatList o "write"
              pure (Op.write (w.getD 0 0) (w.getD 1 0)))
      let s := hrun id (HState.init mem0) ops
      pure (Json.mkObj [("written", Json.arr (s.written.map (fun w =>
        Json.mkObj [("snap", w.1), ("i", w.2.1), ("bytes", ofNatList w.2.2)])).toArray)])
  | _ => none

end Ts.Drv.StageOps
