import Driver.Basic
import Driver.ManifestOpsOps
import TsModel.Partition
open Lean Ts.Drv Ts.ManifestOps Ts.Partition Ts.Drv.ManifestOpsOps

/-! Op handlers for `TsModel.Partition`. Write load = `[path, idx, size]`. -/
namespace Ts.Drv.PartitionOps

def parseWL (v : Json) : Except String WriteLoad := do
  match (← v.getArr?).toList with
  | [p, i, s] => do pure { path := ← natList p, idx := ← i.getNat?, size := ← s.getNat? }
  | _ => throw "bad write load"

def wlJson (w : WriteLoad) : Json := Json.arr #[ofNatList w.path, num w.idx, num w.size]

def wlListJson (l : List WriteLoad) : Json := Json.arr (l.map wlJson).toArray

def parseWLList (v : Json) : Except String (List WriteLoad) := do
  (← v.getArr?).toList.mapM parseWL

def parseRankInput (j : Json) : Except String RankInput := do
  let entries ← getManifest j "entries"
  let loads ← (← getArr j "loads").toList.mapM (fun pl => do
    match (← pl.getArr?).toList with
    | [p, l] => do pure ((← natList p), (← parseWLList l))
    | _ => throw "bad loads item")
  pure { entries, loads, size := ← getNat j "size" }

/-- Trace acceptance: rebuild the order in which the implementation must have visited the
sub-partitionable units from its per-rank result lists (each list is in append order): replay the
model; at every stage-2 step the model's `argmin` rank must still have an unconsumed unit. If it has
none the remaining units are appended in arbitrary order (the results then differ and the harness
reports the disagreement). -/
partial def rebuildOrder (loads : List Nat) (queues : List (List WriteLoad)) (acc : List WriteLoad) : List WriteLoad :=
  if queues.all (·.isEmpty) then acc else
  match argmin loads with
  | .error _ => acc ++ queues.flatten
  | .ok r =>
    match queues[r]? with
    | some (u :: _) => rebuildOrder (addAt loads r u.size) (modifyAt queues r (·.drop 1)) (acc ++ [u])
    | _ => acc ++ queues.flatten

/-- ops:
* `pt_assign` `{ranks:[{entries,loads,size}], order?:[wl], result?:[[wl]]}` → `{result, loads, log, order}`
  (`_partition_write_loads`; without `order` the order is rebuilt from the implementation's `result`)
* `pt_partition_rank` `{entries, assigned}` → `{manifest}` (entries returned by `partition_write_reqs`)
* `pt_consolidate` `{ranks:[manifest]}` → `{ranks, global}` (`consolidate_replicated_entries`, `_gather_manifest`)
* `pt_replicated` `{rankFlat:[[[path, matches, sharded]]]}` → `{paths}` (`_calculate_replicated_entries`)
* `pt_storage_path` `{sharded, replicated, rank, path}` → `{path}` -/
def handle : Handler := fun op j =>
  match op with
  | "pt_assign" => some do
      let ranks ← (← getArr j "ranks").toList.mapM parseRankInput
      let order ← match optField j "order" with
        | some v => parseWLList v
        | none => do
          let res ← (← getArr j "result").toList.mapM parseWLList
          match ranks with
          | [] => pure []
          | r0 :: _ =>
            match stage1 ranks r0.loads (akeys r0.entries) (initState ranks) [] with
            | .error _ => pure []
            | .ok (st, parts) =>
              -- stage-2 units of each rank, in append order
              let queues := res.map (fun l => l.filter (fun u => parts.contains u))
              pure (rebuildOrder st.loads queues [])
      match assignState ranks order with
      | .error e => pure (errJson e)
      | .ok st => pure (Json.mkObj [
          ("result", Json.arr (st.result.map wlListJson).toArray),
          ("loads", ofNatList st.loads),
          ("log", Json.arr (st.log.map (fun rs => Json.arr #[num rs.1, num rs.2])).toArray),
          ("order", wlListJson order)])
  | "pt_partition_rank" => some do
      let entries ← getManifest j "entries"
      let assigned ← parseWLList (← j.getObjVal? "assigned")
      match partitionRank entries assigned with
      | .error e => pure (errJson e)
      | .ok m => pure (Json.mkObj [("manifest", manifestJson m)])
  | "pt_consolidate" => some do
      let ranks ← (← getArr j "ranks").toList.mapM parseManifest
      match consolidate ranks with
      | .error e => pure (errJson e)
      | .ok rs => pure (Json.mkObj [("ranks", Json.arr (rs.map manifestJson).toArray), ("global", manifestJson (gather rs))])
  | "pt_replicated" => some do
      let rankFlat ← (← getArr j "rankFlat").toList.mapM (fun rf => do
        (← rf.getArr?).toList.mapM (fun it => do
          match (← it.getArr?).toList with
          | [p, m, s] => do pure ((← natList p), (← m.getBool?), (← s.getBool?))
          | _ => throw "bad flat item"))
      -- the glob predicate is a function of the path alone
      let table : List (Str × Bool) := rankFlat.flatten.map (fun t => (t.1, t.2.1))
      let globOk : Str → Bool := fun p => (table.find? (fun t => t.1 = p)).map (·.2) |>.getD false
      let flats := rankFlat.map (fun rf => rf.map (fun t => (t.1, t.2.2)))
      pure (Json.mkObj [("paths", strListJson (replicatedPaths globOk flats))])
  | "pt_storage_path" => some do
      pure (Json.mkObj [("path", ofNatList (storagePath (← getBool j "sharded") (← getBool j "replicated") (← getNat j "rank") (← getNatList j "path")))])
  | _ => none

end Ts.Drv.PartitionOps
