import Driver.Basic
import TsModel.Rng
open Lean Ts.Drv Ts.Rng

/-! Driver ops for `TsModel.Rng`, instantiated at the *free* RNG state: `σ := List Nat`, the history
of draw tags since the initial state; a stateful's `state_dict` / `load_state_dict` appends its tag
(tag 0 = draws nothing). The harness interprets a history by replaying the tagged draws on torch. -/
namespace Ts.Drv.RngOps

abbrev S := List Nat

def draw (tag : Nat) : S → S := fun s => if tag = 0 then s else s ++ [tag]

def keyList (v : Json) : Except String (List Key) := do
  (← v.getArr?).toList.mapM natList

def parseApp (v : Json) : Except String (App S) := do
  (← v.getArr?).toList.mapM fun it => do
    let k ← getNatList it "key"
    match optField it "rng" with
    | some (.bool true) => pure (k, Stateful.rng)
    | _ => pure (k, Stateful.other (draw (← getNat it "sd")) (draw (← getNat it "ld")))

def evJson : Ev → Json
  | .sd k => Json.arr #["sd", ofNatList k]
  | .load k => Json.arr #["load", ofNatList k]
  | .getRng => Json.arr #["get"]
  | .setRng => Json.arr #["set"]

def errJson : Err → Json
  | .multipleRng => "multipleRng"
  | .notInSnapshot => "notInSnapshot"

def runJson (r : Run S) : Json :=
  Json.mkObj [("rng", ofNatList r.rng), ("evs", Json.arr (r.evs.map evJson).toArray)]

/-- `rng_script`: steps `take` / `draw` / `restore` threaded through one RNG state; a `restore`
names the snapshot by the index of the `take` step that produced it (counting takes from 0). -/
def handle : Handler := fun op j =>
  match op with
  | "rng_script" => some do
      let mut s : S ← getNatList j "init"
      let mut snaps : Array (Snap S) := #[]
      let mut outs : Array Json := #[]
      let mut dead := false
      for st in (← getArr j "steps") do
        if dead then
          outs := outs.push (Json.mkObj [("skipped", true)])
        else
        let k ← getStr st "k"
        if k == "draw" then
          s := draw (← getNat st "n") s
          outs := outs.push (Json.mkObj [("rng", ofNatList s), ("evs", Json.arr #[])])
        else if k == "take" then
          let app ← parseApp (← st.getObjVal? "app")
          let extra ← keyList (← st.getObjVal? "extra")
          match take extra app s with
          | .ok r =>
            s := r.run.rng
            snaps := snaps.push r.snap
            outs := outs.push ((runJson r.run).setObjVal! "snap_rng"
              (match r.snap.rng with | some (k, v) => Json.mkObj [("key", ofNatList k), ("rng", ofNatList v)] | none => Json.null))
          | .error e =>
            dead := true
            outs := outs.push (Json.mkObj [("err", errJson e)])
        else if k == "restore" then
          let app ← parseApp (← st.getObjVal? "app")
          let extra ← keyList (← st.getObjVal? "extra")
          let i ← getNat st "snap"
          match snaps[i]? with
          | none => throw s!"no snapshot {i}"
          | some snap =>
            match restore snap extra app s with
            | .ok r =>
              s := r.rng
              outs := outs.push (runJson r)
            | .error e =>
              dead := true
              outs := outs.push (Json.mkObj [("err", errJson e)])
        else throw s!"bad step {k}"
      pure (Json.mkObj [("steps", Json.arr outs)])
  | "sort_keys" => some do
      let ks ← keyList (← j.getObjVal? "keys")
      pure (Json.mkObj [("sorted", Json.arr ((sortKeys ks).map ofNatList).toArray)])
  | _ => none

end Ts.Drv.RngOps
