import Driver.Basic
import TsModel.Collective
open Lean Ts.Drv Ts.Collective

/-! Driver ops for `TsModel.Collective`: the per-rank event lists and collective traces of a whole
simulated job (`coll_world`). -/
namespace Ts.Drv.CollectiveOps

def keyList (v : Json) : Except String (List Ts.Rng.Key) := do
  (← v.getArr?).toList.mapM natList

def parseKind (s : String) : Except String LeafKind :=
  match s with
  | "primitive" => pure .primitive
  | "tensor" => pure .tensor
  | "chunked" => pure .chunkedTensor
  | "object" => pure .object
  | _ => throw s!"bad leaf kind {s}"

def kindName : LeafKind → String
  | .primitive => "primitive" | .tensor => "tensor" | .chunkedTensor => "chunked" | .object => "object"

def parseLocal (v : Json) : Except String Local := do
  let leaves ← (← getArr v "leaves").toList.mapM fun it => do
    let k ← getNatList it "key"
    let ks ← (← getArr it "kinds").toList.mapM fun x => do parseKind (← x.getStr?)
    pure (k, ks)
  pure { rank := ← getNat v "rank", keys := ← keyList (← v.getObjVal? "keys"),
         rngKeys := ← keyList (← v.getObjVal? "rng_keys"), leaves := leaves,
         replicatedLeaves := ← getNat v "replicated" }

def opName : Op → String
  | .bcastPath => "bcastPath" | .gatherReplicatedGlobs => "gatherReplicatedGlobs"
  | .bcastBarrierId => "bcastBarrierId" | .gatherKeys => "gatherKeys" | .keyBarrier _ => "keyBarrier"
  | .gatherReplicatedPaths => "gatherReplicatedPaths" | .bcastReplicatedPaths => "bcastReplicatedPaths"
  | .gatherWriteLoads => "gatherWriteLoads" | .bcastPartition => "bcastPartition"
  | .gatherManifest => "gatherManifest" | .gatherHostnames => "gatherHostnames"
  | .commitBarrierPre => "commitBarrierPre" | .commitBarrierPost => "commitBarrierPost"
  | .bcastStoreAddr => "bcastStoreAddr"

/-- names as logged by `PGWrapper` method -/
def kindStr : Kind → String
  | .barrier => "barrier" | .broadcast => "broadcast_object_list"
  | .allGather => "all_gather_object" | .scatter => "scatter_object_list"

def opJson (o : Op) : Json :=
  match o with
  | .keyBarrier k => Json.arr #["coll", opName o, kindStr o.kind, ofNatList k]
  | _ => Json.arr #["coll", opName o, kindStr o.kind]

def evJson : Ev → Json
  | .coll o => opJson o
  | .stateDict k => Json.arr #["sd", ofNatList k]
  | .load k => Json.arr #["load", ofNatList k]
  | .prepareWrite k lk => Json.arr #["prep", ofNatList k, kindName lk]
  | .partitionOnRank0 => Json.arr #["partition0"]
  | .batchWrites => Json.arr #["batch"]
  | .writeMetadata => Json.arr #["meta"]
  | .raise .multipleRng => Json.arr #["raise", "multipleRng"]
  | .raise .notImplemented => Json.arr #["raise", "notImplemented"]

def handle : Handler := fun op j =>
  match op with
  | "coll_world" => some do
      let mode ← getStr j "mode"
      let locals ← (← getArr j "locals").toList.mapM parseLocal
      let cj ← j.getObjVal? "cfg"
      let c : Config := { overrideSet := ← getBool cj "override", batchingDisabled := ← getBool cj "nobatch",
                          partitionerDisabled := ← getBool cj "nopart", storeBootstrap := ← getBool cj "bootstrap" }
      let g := globalOf locals c
      let evsOf : Local → Except String (List Ev) := fun l =>
        match mode with
        | "take" => pure (takeEvents false l g)
        | "async_take" => pure (takeEvents true l g)
        | "restore" => pure (restoreEvents l g)
        | "restore_pre_d8" => pure (restoreEventsPreD8 l g)
        | _ => throw s!"bad mode {mode}"
      let ranks ← locals.mapM fun l => do
        let evs ← evsOf l
        let tr := evs.filterMap Ev.op?
        pure (Json.mkObj [
          ("events", Json.arr (evs.map evJson).toArray),
          ("trace", Json.arr (tr.map (fun o => Json.str (opName o))).toArray),
          ("kinds", Json.arr (tr.map (fun o => Json.str (kindStr o.kind))).toArray),
          ("valid", decide l.Valid)])
      pure (Json.mkObj [("global_keys", Json.arr (g.keys.map ofNatList).toArray), ("ranks", Json.arr ranks.toArray)])
  | _ => none

end Ts.Drv.CollectiveOps
