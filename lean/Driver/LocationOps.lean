import Driver.Basic
import TsModel.Location
open Lean Ts.Drv Ts.Location

namespace Ts.Drv.LocationOps

def parseOwner (j : Json) : Except String Owner :=
  match j with
  | .str "replicated" => pure .replicated
  | .str "sharded" => pure .sharded
  | .str "replicated_sharded" => pure .replicatedSharded
  | _ => do pure (.rank (← j.getNat?))

/-- ops: `loc` (location + resolved fs path of one write unit), `normpath`, `pjoin`,
`suffix_alias` (noSuffixAlias over a list of storage paths). -/
def handle : Handler := fun op j =>
  match op with
  | "loc" => some do
      let owner ← parseOwner (← j.getObjVal? "owner")
      let logical ← getNatList j "logical"
      let offs ← match optField j "offs" with
        | none => pure none
        | some v => do pure (some (← natList v))
      let root ← getNatList j "root"
      let u : WriteUnit := ⟨owner, logical, offs, []⟩
      pure (Json.mkObj [("location", ofNatList u.location), ("base", ofNatList u.base),
        ("fs", ofNatList (fsPath root u.location)), ("safe", safePath logical)])
  | "normpath" => some do
      pure (Json.mkObj [("out", ofNatList (normpath (← getNatList j "p")))])
  | "pjoin" => some do
      pure (Json.mkObj [("out", ofNatList (pjoin (← getNatList j "a") (← getNatList j "b")))])
  | "suffix_alias" => some do
      let ps ← (← getArr j "paths").toList.mapM natList
      pure (Json.mkObj [("ok", noSuffixAlias ps)])
  | _ => none

end Ts.Drv.LocationOps
