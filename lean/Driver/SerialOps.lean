import Driver.Basic
import TsModel.Serial
open Lean Ts.Drv Ts.Serial

namespace Ts.Drv.SerialOps

def errName : Err → String
  | .valueError => "ValueError"
  | .runtimeError => "RuntimeError"
  | .keyError => "KeyError"
  | .codecError => "CodecError"
  | .unmodelled => "unmodelled"

def errJson (e : Err) : Json := Json.mkObj [("err", errName e)]

def tensorJson (t : Tensor) : Json :=
  Json.mkObj [("dtype", t.dtype), ("shape", ofNatList t.shape), ("bytes", ofNatList t.bytes)]

def bytesResult : Except Err Bytes → Json
  | .ok b => Json.mkObj [("bytes", ofNatList b)]
  | .error e => errJson e

def tensorResult : Except Err Tensor → Json
  | .ok t => Json.mkObj [("tensor", tensorJson t)]
  | .error e => errJson e

def strResult : Except Err String → Json
  | .ok s => Json.str s
  | .error e => errJson e

def natResult : Except Err Nat → Json
  | .ok n => Json.num (JsonNumber.fromNat n)
  | .error e => errJson e

def parseTensor (j : Json) : Except String Tensor := do
  pure ⟨← getStr j "dtype", ← getNatList j "shape", ← getNatList j "bytes"⟩

def parseStrided (j : Json) : Except String Strided := do
  pure ⟨← getStr j "dtype", ← getNatList j "storage", ← getNat j "offset", ← getNatList j "shape",
        ← getNatList j "strides"⟩

def parseEntry (j : Json) : Except String Entry := do
  pure ⟨← getStr j "serializer", ← getStr j "dtype", ← getNatList j "shape"⟩

def entryJson (e : Entry) : Json :=
  Json.mkObj [("serializer", e.serializer), ("dtype", e.dtype), ("shape", ofNatList e.shape)]

/-- One row of the model's view of the tables for a dtype name. -/
def dtypeRow (d : String) : Json :=
  let s := dtypeToString d
  Json.mkObj [
    ("dtype", d),
    ("string", strResult s),
    ("back", strResult (match s with | .ok x => stringToDtype x | .error e => .error e)),
    ("element_size", natResult (dtypeToElementSize d)),
    ("torch_itemsize", match torchItemsize d with | some n => Json.num (JsonNumber.fromNat n) | none => Json.null),
    ("torch_str", torchStr d),
    ("buffer_protocol", Json.bool (Gen.bufferProtocolDtypes.contains d)),
    ("quantized", Json.bool (Gen.quantizedDtypes.contains d)),
    ("serializer", match prepareWrite ⟨d, [], []⟩ with | .ok e => Json.str e.serializer | .error e => errJson e)]

/-- ops: `serial_tables`, `dtype_row`, `string_to_dtype`, `as_memoryview` (tensor value or strided
view), `contiguous`, `untyped_slice`, `from_memoryview`, `serializer_for`, `stage`, `consume`,
`save_then_load`. -/
def handle : Handler := fun op j =>
  match op with
  | "serial_tables" => some do
      pure (Json.mkObj [
        ("supported", Json.arr (Gen.allSupportedDtypes.map dtypeRow).toArray),
        ("torch_itemsizes", Json.arr (torchItemsizes.map (fun p =>
            Json.arr #[Json.str p.1, Json.num (JsonNumber.fromNat p.2)])).toArray),
        ("string_to_dtype", Json.arr (Gen.stringToDtype.map (fun p =>
            Json.arr #[Json.str p.1, Json.str p.2])).toArray),
        ("torch_save", strResult (serializerValue "TORCH_SAVE")),
        ("buffer_protocol", strResult (serializerValue "BUFFER_PROTOCOL")),
        ("untyped_view_dtype", untypedViewDtype)])
  | "dtype_row" => some do
      pure (dtypeRow (← getStr j "dtype"))
  | "string_to_dtype" => some do
      pure (Json.mkObj [("dtype", strResult (stringToDtype (← getStr j "s")))])
  | "as_memoryview" => some do
      match optField j "view" with
      | some v => pure (bytesResult (asMemoryviewStrided (← parseStrided v)))
      | none => pure (bytesResult (asMemoryview (← parseTensor (← j.getObjVal? "tensor"))))
  | "contiguous" => some do
      pure (tensorResult (contiguous (← parseStrided (← j.getObjVal? "view"))))
  | "untyped_slice" => some do
      pure (bytesResult (viewStorageAs untypedViewDtype
        (untypedStorageSlice (← getNatList j "storage") (← getNat j "offset") (← getNat j "numel")
          (← getNat j "es"))))
  | "from_memoryview" => some do
      pure (tensorResult (fromMemoryview (← getStr j "dtype") (← getNatList j "shape")
        (← getNatList j "buf")))
  | "serializer_for" => some do
      match prepareWrite ⟨← getStr j "dtype", ← getNatList j "shape", []⟩ with
      | .ok e => pure (Json.mkObj [("entry", entryJson e)])
      | .error e => pure (errJson e)
  | "stage" => some do
      let e ← parseEntry (← j.getObjVal? "entry")
      let t ← parseTensor (← j.getObjVal? "tensor")
      -- the torch.save bytes are not comparable: report which path was taken
      match serializerValue "TORCH_SAVE" with
      | .ok ts =>
        if e.serializer == ts then pure (Json.mkObj [("codec", "torch_save")])
        else pure (bytesResult (stageBuffer refCodec e t))
      | .error err => pure (errJson err)
  | "consume" => some do
      let e ← parseEntry (← j.getObjVal? "entry")
      let buf ← getNatList j "buf"
      let out ← match optField j "dst" with
        | none => pure none
        | some d => do pure (some (← parseTensor d))
      match destination e out with
      | .error err => pure (errJson err)
      | .ok dst =>
        let inplace := match out with | some o => decide (o.dtype = dst.dtype ∧ o.shape = dst.shape) | none => false
        match consumeBuffer refCodec dst e buf with
        | .ok t => pure (Json.mkObj [("tensor", tensorJson t), ("inplace", Json.bool inplace)])
        | .error err => pure (errJson err)
  | "save_then_load" => some do
      let t ← parseTensor (← j.getObjVal? "tensor")
      let out ← match optField j "dst" with
        | none => pure none
        | some d => do pure (some (← parseTensor d))
      pure (tensorResult (saveThenLoad refCodec t out))
  | _ => none

end Ts.Drv.SerialOps
