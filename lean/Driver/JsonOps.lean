import Driver.Basic
import TsModel.Json
import TsModel.Primitive
import TsModel.Entry
open Lean Ts.Drv

/-! Driver ops for C14: `json_escape`, `json_unescape`, `json_parse`, `b64`, `primitive`, `prim_get`,
`metadata_print`, `metadata_read`, `metadata_prefix`.
Protocol: a Python `str` travels as an array of code points (surrogates allowed); an `int` as a decimal
string (any magnitude); ASCII output text as a JSON string. -/
namespace Ts.Drv.JsonOps
open Ts.Json Ts.Primitive Ts.Manifest

def asciiString (l : List Nat) : String := String.ofList (l.map Char.ofNat)

def intJson (i : Int) : Json := Json.str (toString i)

def intOf (v : Json) : Except String Int :=
  match v with
  | .str s => match s.toInt? with
    | some i => pure i
    | none => throw s!"bad int {s}"
  | v => v.getInt?

def natOf (v : Json) : Except String Nat := do
  let i ← intOf v
  if i < 0 then throw "negative" else pure i.toNat

def cpsOf (v : Json) : Except String (List Nat) := natList v

def jsonErrName : Ts.Json.Err → String
  | .eof => "eof" | .badChar => "badChar" | .badEscape => "badEscape" | .control => "control"
  | .extraData => "extraData" | .bom => "bom" | .float => "float" | .fuel => "fuel"

def primErrName : Ts.Primitive.Err → String
  | .valueError => "ValueError" | .runtimeError => "RuntimeError" | .b64Length => "binascii.Error"
  | .b64Padding => "binascii.Error" | .unicodeEncode => "UnicodeEncodeError" | .structError => "struct.error"
  | .outside => "outside"

partial def valueJson : Value → Json
  | .null => Json.null
  | .bool b => Json.bool b
  | .int i => Json.mkObj [("i", intJson i)]
  | .str s => Json.mkObj [("s", ofNatList s)]
  | .arr vs => Json.arr (vs.map valueJson).toArray
  | .obj kvs => Json.mkObj [("o", Json.arr (kvs.map (fun kv => Json.arr #[ofNatList kv.1, valueJson kv.2])).toArray)]

def primValJson : PrimVal → Json
  | .int i => Json.mkObj [("t", "int"), ("v", intJson i)]
  | .str s => Json.mkObj [("t", "str"), ("v", ofNatList s)]
  | .bool b => Json.mkObj [("t", "bool"), ("v", Json.bool b)]
  | .bytes b => Json.mkObj [("t", "bytes"), ("v", ofNatList b)]
  | .float bits => Json.mkObj [("t", "float"), ("v", Json.str (toString bits))]

def primTypeOf (s : String) : Except String PrimType :=
  match s with
  | "int" => pure .int | "str" => pure .str | "bool" => pure .bool | "bytes" => pure .bytes
  | "float" => pure .float | _ => throw s!"bad prim type {s}"

def primTypeStr : PrimType → String
  | .int => "int" | .str => "str" | .bool => "bool" | .bytes => "bytes" | .float => "float"

def primValOf (j : Json) : Except String PrimVal := do
  let t ← getStr j "t"
  let v ← j.getObjVal? "v"
  match t with
  | "int" => pure (.int (← intOf v))
  | "str" => pure (.str (← cpsOf v))
  | "bool" => pure (.bool (← v.getBool?))
  | "bytes" => pure (.bytes (← cpsOf v))
  | "float" => pure (.float (← natOf v))
  | _ => throw s!"bad prim type {t}"

/-! ### metadata ↔ protocol JSON -/

def intsOf (v : Json) : Except String (List Int) := do
  let a ← v.getArr?
  a.toList.mapM intOf

def intsJson (l : List Int) : Json := Json.arr (l.map intJson).toArray

def tensorOf (j : Json) : Except String TensorEntry := do
  let byteRange ← match optField j "byte_range" with
    | none => pure none
    | some v => do pure (some (← intsOf v))
  pure { location := ← cpsOf (← j.getObjVal? "location"), serializer := ← cpsOf (← j.getObjVal? "serializer"),
         dtype := ← cpsOf (← j.getObjVal? "dtype"), shape := ← intsOf (← j.getObjVal? "shape"),
         replicated := ← getBool j "replicated", byteRange }

def tensorJson (t : TensorEntry) : Json :=
  Json.mkObj [("k", "tensor"), ("location", ofNatList t.location), ("serializer", ofNatList t.serializer),
    ("dtype", ofNatList t.dtype), ("shape", intsJson t.shape), ("replicated", Json.bool t.replicated),
    ("byte_range", match t.byteRange with | none => Json.null | some l => intsJson l)]

def shardOf (j : Json) : Except String Shard := do
  pure { offsets := ← intsOf (← j.getObjVal? "offsets"), sizes := ← intsOf (← j.getObjVal? "sizes"),
         tensor := ← tensorOf (← j.getObjVal? "tensor") }

def shardJson (s : Shard) : Json :=
  Json.mkObj [("offsets", intsJson s.offsets), ("sizes", intsJson s.sizes), ("tensor", tensorJson s.tensor)]

def shardsOf (v : Json) : Except String (List Shard) := do
  (← v.getArr?).toList.mapM shardOf

partial def nestedOf (v : Json) : Except String Nested :=
  match v with
  | .arr a => do pure (.list (← a.toList.mapM nestedOf))
  | v => do pure (.int (← intOf v))

partial def nestedJson : Nested → Json
  | .int i => intJson i
  | .list l => Json.arr (l.map nestedJson).toArray

def keyOf (v : Json) : Except String Key :=
  match v with
  | .bool b => pure (.bool b)
  | .arr _ => do pure (.str (← cpsOf v))
  | v => do pure (.int (← intOf v))

def keyJson : Key → Json
  | .str s => ofNatList s
  | .int i => intJson i
  | .bool b => Json.bool b

def entryOf (j : Json) : Except String Entry := do
  let k ← getStr j "k"
  match k with
  | "tensor" => pure (.tensor (← tensorOf j))
  | "sharded" => pure (.sharded (← shardsOf (← j.getObjVal? "shards")))
  | "chunked" => pure (.chunked (← cpsOf (← j.getObjVal? "dtype")) (← intsOf (← j.getObjVal? "shape"))
                        (← shardsOf (← j.getObjVal? "chunks")) (← getBool j "replicated"))
  | "dtensor" => do
      let dm ← (← getArr j "dim_map").toList.mapM intsOf
      pure (.dtensor (← shardsOf (← j.getObjVal? "shards")) (← nestedOf (← j.getObjVal? "mesh")) dm)
  | "object" => pure (.object (← cpsOf (← j.getObjVal? "location")) (← cpsOf (← j.getObjVal? "serializer"))
                       (← cpsOf (← j.getObjVal? "obj_type")) (← getBool j "replicated"))
  | "list" => pure .list
  | "dict" => pure (.dict (← (← getArr j "keys").toList.mapM keyOf))
  | "odict" => pure (.odict (← (← getArr j "keys").toList.mapM keyOf))
  | "prim" => do
      let readable ← match optField j "readable" with
        | none => pure none
        | some v => do pure (some (← cpsOf v))
      pure (.prim { ty := ← primTypeOf (← getStr j "type"), serialized := ← cpsOf (← j.getObjVal? "serialized_value"),
                    replicated := ← getBool j "replicated", readable })
  | _ => throw s!"bad entry kind {k}"

def entryJson : Entry → Json
  | .tensor t => tensorJson t
  | .sharded shards => Json.mkObj [("k", "sharded"), ("shards", Json.arr (shards.map shardJson).toArray)]
  | .chunked dtype shape chunks replicated =>
      Json.mkObj [("k", "chunked"), ("dtype", ofNatList dtype), ("shape", intsJson shape),
        ("chunks", Json.arr (chunks.map shardJson).toArray), ("replicated", Json.bool replicated)]
  | .dtensor shards mesh dimMap =>
      Json.mkObj [("k", "dtensor"), ("shards", Json.arr (shards.map shardJson).toArray), ("mesh", nestedJson mesh),
        ("dim_map", Json.arr (dimMap.map intsJson).toArray)]
  | .object location serializer objType replicated =>
      Json.mkObj [("k", "object"), ("location", ofNatList location), ("serializer", ofNatList serializer),
        ("obj_type", ofNatList objType), ("replicated", Json.bool replicated)]
  | .list => Json.mkObj [("k", "list")]
  | .dict keys => Json.mkObj [("k", "dict"), ("keys", Json.arr (keys.map keyJson).toArray)]
  | .odict keys => Json.mkObj [("k", "odict"), ("keys", Json.arr (keys.map keyJson).toArray)]
  | .prim p => Json.mkObj [("k", "prim"), ("type", primTypeStr p.ty), ("serialized_value", ofNatList p.serialized),
      ("replicated", Json.bool p.replicated),
      ("readable", match p.readable with | none => Json.null | some s => ofNatList s)]

def metadataOf (j : Json) : Except String SnapshotMetadata := do
  let m ← getArr j "manifest"
  let manifest ← m.toList.mapM (fun pe => do
    let a ← pe.getArr?
    if h : a.size = 2 then
      pure ((← cpsOf a[0]), (← entryOf a[1]))
    else throw "bad manifest pair")
  pure { version := ← cpsOf (← j.getObjVal? "version"), worldSize := ← intOf (← j.getObjVal? "world_size"), manifest }

def metadataJson (md : SnapshotMetadata) : Json :=
  Json.mkObj [("version", ofNatList md.version), ("world_size", intJson md.worldSize),
    ("manifest", Json.arr (md.manifest.map (fun pe => Json.arr #[ofNatList pe.1, entryJson pe.2])).toArray)]

def readResultJson : Except Ts.Manifest.Err SnapshotMetadata → Json
  | .ok md => Json.mkObj [("ok", metadataJson md)]
  | .error (.json e) => Json.mkObj [("err", "json:" ++ jsonErrName e)]
  | .error .reject => Json.mkObj [("err", "reject")]
  | .error .illTyped => Json.mkObj [("err", "outside")]

/-- one character per cut: `e` = json eof, `j` = other json error, `r` = from_yaml rejects,
`o` = outside the typed domain, `a` = accepted. -/
def cutCode : Except Ts.Manifest.Err SnapshotMetadata → Char
  | .ok _ => 'a'
  | .error (.json .eof) => 'e'
  | .error (.json _) => 'j'
  | .error .reject => 'r'
  | .error .illTyped => 'o'

/-- document text: either a JSON string (ASCII documents) or an array of code points. -/
def docOf (j : Json) : Except String (List Nat) :=
  match j.getObjVal? "text" with
  | .ok (.str s) => pure (s.toList.map Char.toNat)
  | _ => do cpsOf (← j.getObjVal? "doc")

def handle : Handler := fun op j =>
  match op with
  | "json_escape" => some do
      let strs ← (← getArr j "strs").toList.mapM cpsOf
      pure (Json.mkObj [("out", Json.arr (strs.map (fun s => Json.str (asciiString (escape s)))).toArray)])
  | "json_sweep" => some do
      -- every code point of [lo, hi) inside the context pre ++ [cp] ++ post: the escaped bodies joined by
      -- newlines, and (index, result) for each one whose unescape(escape s) is not ok s
      let lo ← getNat j "lo"
      let hi ← getNat j "hi"
      let pre ← getNatList j "pre"
      let post ← getNatList j "post"
      let strs := (List.range (hi - lo)).map (fun i => pre ++ [lo + i] ++ post)
      let escs := strs.map escape
      let diff := (List.zip (List.range (hi - lo)) (List.zip strs escs)).filterMap (fun (i, s, e) =>
        match unescape e with
        | .ok s' => if s' = s then none else some (Json.arr #[Json.num (JsonNumber.fromNat i), Json.mkObj [("ok", ofNatList s')]])
        | .error err => some (Json.arr #[Json.num (JsonNumber.fromNat i), Json.mkObj [("err", jsonErrName err)]]))
      let escStr := String.intercalate "\n" (escs.map asciiString)
      -- with "expect" (the implementation's bodies joined by newlines) only the verdict travels back
      match j.getObjVal? "expect" with
      | .ok (.str ex) =>
        if ex == escStr then pure (Json.mkObj [("esc_ok", true), ("diff", Json.arr diff.toArray)])
        else pure (Json.mkObj [("esc_ok", false), ("esc", Json.str escStr), ("diff", Json.arr diff.toArray)])
      | _ => pure (Json.mkObj [("esc", Json.str escStr), ("diff", Json.arr diff.toArray)])
  | "json_unescape" => some do
      let bodies ← (← getArr j "bodies").toList.mapM cpsOf
      let one (b : List Nat) : Json := match unescape b with
        | .ok s => Json.mkObj [("ok", ofNatList s)]
        | .error e => Json.mkObj [("err", jsonErrName e)]
      pure (Json.mkObj [("out", Json.arr (bodies.map one).toArray)])
  | "json_parse" => some do
      let docs ← (← getArr j "docs").toList.mapM cpsOf
      let one (d : List Nat) : Json := match parse d with
        | .ok v => Json.mkObj [("ok", valueJson v)]
        | .error e => Json.mkObj [("err", jsonErrName e)]
      pure (Json.mkObj [("out", Json.arr (docs.map one).toArray)])
  | "b64" => some do
      let enc ← match j.getObjVal? "enc" with
        | .ok v => (← v.getArr?).toList.mapM cpsOf
        | .error _ => pure []
      let dec ← match j.getObjVal? "dec" with
        | .ok v => (← v.getArr?).toList.mapM cpsOf
        | .error _ => pure []
      let one (s : List Nat) : Json := match b64decode s with
        | .ok b => Json.mkObj [("ok", ofNatList b)]
        | .error e => Json.mkObj [("err", primErrName e)]
      pure (Json.mkObj [("enc", Json.arr (enc.map (fun b => Json.str (asciiString (b64encode b)))).toArray),
                        ("dec", Json.arr (dec.map one).toArray)])
  | "primitive" => some do
      -- from_object then get_value, per value
      let vals ← (← getArr j "vals").toList.mapM primValOf
      let one (v : PrimVal) : Json :=
        let e := fromObject (fun _ => []) v
        Json.mkObj [("type", primTypeStr e.ty), ("ser", ofNatList e.serialized),
          ("back", match getValue e with
            | .ok v' => primValJson v'
            | .error err => Json.mkObj [("err", primErrName err)])]
      pure (Json.mkObj [("out", Json.arr (vals.map one).toArray)])
  | "prim_get" => some do
      -- get_value on arbitrary (type, serialized_value)
      let es ← (← getArr j "entries").toList.mapM (fun e => do
        pure ((← primTypeOf (← getStr e "type")), (← cpsOf (← e.getObjVal? "s"))))
      let one (e : PrimType × List Nat) : Json :=
        match getValue { ty := e.1, serialized := e.2, replicated := false, readable := none } with
        | .ok v' => primValJson v'
        | .error err => Json.mkObj [("err", primErrName err)]
      pure (Json.mkObj [("out", Json.arr (es.map one).toArray)])
  | "metadata_print" => some do
      let md ← metadataOf (← j.getObjVal? "md")
      pure (Json.mkObj [("text", Json.str (asciiString (printMetadata md)))])
  | "metadata_read" => some do
      let d ← docOf j
      pure (readResultJson (readMetadata d))
  | "metadata_prefix" => some do
      -- the reader's verdict on the prefixes of the document of the given lengths (all strict ones if absent)
      let d ← docOf j
      let cuts ← match j.getObjVal? "cuts" with
        | .ok (.arr a) => a.toList.mapM (·.getNat?)
        | _ => pure (List.range d.length)
      pure (Json.mkObj [("res", Json.str (String.ofList (cuts.map (fun k => cutCode (readMetadata (d.take k))))))])
  | _ => none

end Ts.Drv.JsonOps
