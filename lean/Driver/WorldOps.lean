import Driver.Basic
import Driver.SnapshotOps
import TsModel.World
open Lean Ts.Drv Ts.Snapshot Ts.Slab Ts.World

namespace Ts.Drv.WorldOps
open Ts.Drv.SnapshotOps (parseLeaf locJson leafJson errStr)

def wlocJson (u : ULoc WLoc) : Json :=
  Json.mkObj [("writer", u.1.1), ("loc", locJson u.1.2),
    ("range", match u.2 with | none => Json.null | some r => ofNatList [r.1, r.2])]

def wentryJson : LeafEntryG WLoc → Json
  | .tensor d s u => Json.mkObj [("k", "tensor"), ("dtype", d), ("shape", ofNatList s), ("at", wlocJson u)]
  | .chunked d s cs => Json.mkObj [("k", "chunked"), ("dtype", d), ("shape", ofNatList s),
      ("chunks", Json.arr (cs.map (fun c => Json.mkObj [("off", c.1.1), ("size", c.1.2), ("at", wlocJson c.2)])).toArray)]
  | .blob u => Json.mkObj [("k", "blob"), ("at", wlocJson u)]

def parsePiece (j : Json) : Except String (Option (Nat × Nat)) :=
  match j.getObjVal? "piece" with
  | .ok (Json.arr a) => match a.toList with
    | [x, y] => do pure (some (← x.getNat?, ← y.getNat?))
    | _ => throw "bad piece"
  | _ => pure none

def unitJson (x : WReq UnitId × Ts.Storage.Bytes) : Json :=
  Json.mkObj [("p", x.1.path.1), ("piece", match x.1.path.2 with | none => Json.null | some q => ofNatList [q.1, q.2]),
    ("n", x.2.length)]

def resJson : Except Ts.Snapshot.Err Leaf → Json
  | .ok l => leafJson l
  | .error e => Json.mkObj [("error", errStr e)]

/-- op `world_plan`: a whole job — per-rank flattened payload leaves named by path ids, the replicated path ids and
the partition (unit → writer rank) — answers what every rank keeps and stores, and for every (rank, leaf) the
committed entry, what `restore` rebuilds from the job-wide store and what `read_object` rebuilds under `budget`. -/
def handle : Handler := fun op j =>
  match op with
  | "world_plan" => some do
      let c ← j.getObjVal? "cfg"
      let cfg : Cfg := ⟨← getNat c "chunk", ← getNat c "slab", ← getBool c "batching"⟩
      let states ← (← getArr j "states").toList.mapM (fun st => do
        let items ← st.getArr?
        items.toList.mapM (fun it => do pure ((← getNat it "p"), ← parseLeaf (← it.getObjVal? "leaf"))))
      let rep ← getNatList j "rep"
      let owners ← (← getArr j "owner").toList.mapM (fun o => do
        pure (((← getNat o "p"), ← parsePiece o), ← getNat o "rank"))
      let rev ← getBool j "reverse"
      let budget ← getNat j "budget"
      let job : Job := { cfg := cfg, states := states, rep := fun p => rep.contains p,
                         owner := fun u => match owners.find? (fun o => decide (o.1 = u)) with | some o => o.2 | none => 0 }
      let order : List ((Nat × Nat) × ULoc WLoc) → List ((Nat × Nat) × ULoc WLoc) := if rev then List.reverse else id
      let W := states.length
      let ranks := (List.range W).map (fun r =>
        match keptOf job r with
        | .error e => Json.mkObj [("error", errStr e)]
        | .ok k =>
          let pl := placements cfg k
          let locs := (k.zip pl).map (fun e => (unitLoc e.1.1 e.2).1)
          let distinct := locs.foldl (fun acc l => if acc.any (fun x => decide (x = l)) then acc else acc ++ [l]) []
          let objs := distinct.map (fun l => Json.mkObj [("loc", locJson l),
            ("bytes", match wstore job (r, l) with | some b => ofNatList b | none => Json.null)])
          Json.mkObj [("kept", Json.arr (k.map unitJson).toArray), ("objects", Json.arr objs.toArray)])
      let entries := (List.range W).map (fun r =>
        Json.arr (((states[r]?).getD []).map (fun pl =>
          match worldEntry job r pl.1 pl.2 with
          | .error e => Json.mkObj [("p", pl.1), ("error", errStr e)]
          | .ok en => Json.mkObj [("p", pl.1), ("entry", wentryJson en),
              ("restored", resJson (worldRestore job order en)),
              ("tiled", resJson (readObjectBudget (wstore job) budget order en))])).toArray)
      pure (Json.mkObj [("ranks", Json.arr ranks.toArray), ("entries", Json.arr entries.toArray)])
  | _ => none

end Ts.Drv.WorldOps
