import Driver.Basic
import TsModel.Storage
open Lean Ts.Drv Ts.Storage

namespace Ts.Drv.StorageOps

def outJson : Out → Json
  | .bytes b => Json.mkObj [("bytes", ofNatList b)]
  | .pos n => Json.mkObj [("pos", Json.num (JsonNumber.fromNat n))]
  | .err .valueError => Json.mkObj [("err", "ValueError")]
  | .err .fileNotFound => Json.mkObj [("err", "FileNotFoundError")]

def parseCall (j : Json) : Except String Call := do
  let c ← getStr j "c"
  match c with
  | "read" => match optField j "n" with
      | none => pure (.read none)
      | some v => do pure (.read (some (← v.getInt?)))
  | "seek" => do pure (.seek (← getInt j "pos") (← getInt j "whence"))
  | "tell" => pure .tell
  | _ => throw s!"bad call {c}"

/-- ops: `fs_script` (a list of write/read steps over one store), `stream` (MvStream + BytesIO). -/
def handle : Handler := fun op j =>
  match op with
  | "stream" => some do
      let data ← getNatList j "data"
      let calls ← (← getArr j "calls").toList.mapM parseCall
      let m := MvStream.run (MvStream.init data) calls
      let b := BytesIO.run (BytesIO.init data) calls
      pure (Json.mkObj [("mv", Json.arr (m.map outJson).toArray), ("bytesio", Json.arr (b.map outJson).toArray)])
  | "fs_script" => some do
      let steps ← getArr j "steps"
      let mut fs := FS.empty
      let mut outs : Array Json := #[]
      for st in steps do
        let k ← getStr st "k"
        let p ← getStr st "path"
        if k == "write" then
          fs := fs.write p (← getNatList st "data")
          outs := outs.push (Json.mkObj [("ok", true)])
        else
          let range ← match optField st "range" with
            | none => pure none
            | some v => do
                let l ← natList v
                match l with
                | [a, b] => pure (some (a, b))
                | _ => throw "bad range"
          match fs.read p range with
          | .ok b => outs := outs.push (Json.mkObj [("bytes", ofNatList b)])
          | .error _ => outs := outs.push (Json.mkObj [("err", "FileNotFoundError")])
      pure (Json.mkObj [("outs", Json.arr outs)])
  | "fs_write_limit" => some do
      -- FSStoragePlugin.write of `n` bytes in a process whose file-size limit is `limit`: outcome and bytes left in the file
      let limit ← getNat j "limit"
      let n ← getNat j "n"
      let data := (List.range n).map (fun i => (i * 131 + 7) % 251)
      pure (match pluginWrite (osLimit limit) data with
        | .ok f => Json.mkObj [("outcome", "returned"), ("file_size", f.length), ("content_ok", decide (f = data))]
        | .error (_, f) => Json.mkObj [("outcome", "raised"), ("file_size", f.length), ("content_ok", decide (f = data))])
  | _ => none

end Ts.Drv.StorageOps
