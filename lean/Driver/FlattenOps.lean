import Driver.Basic
import TsModel.Flatten
open Lean Ts.Drv Ts.Path Ts.Flatten

namespace Ts.Drv.FlattenOps

/-! JSON forms: `Str` = array of code points; `Key` = `{"s":[..]}` | `{"i":n}` | `{"b":bool}` |
`{"o":n}`; `Tree` = `{"leaf":n}` | `{"list":[..]}` | `{"dict":[[key,tree],..]}` |
`{"odict":[[key,tree],..]}`; manifest = `[[path, kind, [keys]],..]`; leaf map = `[[path, tree],..]`. -/

def ofInt (i : Int) : Json := Json.num (JsonNumber.fromInt i)
def ofNat (n : Nat) : Json := Json.num (JsonNumber.fromNat n)

def errJson : Err → Json
  | .outOfDomain => "OutOfDomain"
  | .valueError => "ValueError"
  | .keyError => "KeyError"
  | .absent => "AssertionError"
  | .assertion => "AssertionError"
  | .fuel => "Fuel"

def keyJson : Key → Json
  | .str s => Json.mkObj [("s", ofNatList s)]
  | .int i => Json.mkObj [("i", ofInt i)]
  | .bool b => Json.mkObj [("b", b)]
  | .other n => Json.mkObj [("o", ofNat n)]

def parseKey (j : Json) : Except String Key :=
  match optField j "s", optField j "i", optField j "b", optField j "o" with
  | some v, _, _, _ => do pure (.str (← natList v))
  | _, some v, _, _ => do pure (.int (← v.getInt?))
  | _, _, some v, _ => do pure (.bool (← v.getBool?))
  | _, _, _, some v => do pure (.other (← v.getNat?))
  | _, _, _, _ => throw "bad key"

partial def treeJson : Tree → Json
  | .leaf n => Json.mkObj [("leaf", ofNat n)]
  | .list xs => Json.mkObj [("list", Json.arr (xs.map treeJson).toArray)]
  | .dict k kvs =>
    let items := Json.arr (kvs.map (fun kv => Json.arr #[keyJson kv.1, treeJson kv.2])).toArray
    Json.mkObj [(match k with | .dict => "dict" | .odict => "odict", items)]

partial def parseTree (j : Json) : Except String Tree := do
  match optField j "leaf", optField j "list", optField j "dict", optField j "odict" with
  | some v, _, _, _ => pure (.leaf (← v.getNat?))
  | _, some v, _, _ => do
      let a ← v.getArr?
      pure (.list (← a.toList.mapM parseTree))
  | _, _, some v, _ => do pure (.dict .dict (← parseKVs v))
  | _, _, _, some v => do pure (.dict .odict (← parseKVs v))
  | _, _, _, _ => throw "bad tree"
where
  parseKVs (v : Json) : Except String (List (Key × Tree)) := do
    let a ← v.getArr?
    a.toList.mapM (fun kv => do
      let p ← kv.getArr?
      if h : p.size = 2 then
        pure ((← parseKey p[0]), (← parseTree p[1]))
      else throw "bad kv")

def ckindJson : CKind → Json
  | .list => "list"
  | .dict => "dict"
  | .odict => "OrderedDict"

def parseCKind (s : String) : Except String CKind :=
  match s with
  | "list" => pure .list
  | "dict" => pure .dict
  | "OrderedDict" => pure .odict
  | _ => throw s!"bad kind {s}"

def manifestJson (m : Manifest) : Json :=
  Json.arr (m.map (fun e => Json.arr #[ofNatList e.1, ckindJson e.2.1, Json.arr (e.2.2.map keyJson).toArray])).toArray

def leafMapJson (f : LeafMap) : Json :=
  Json.arr (f.map (fun e => Json.arr #[ofNatList e.1, treeJson e.2])).toArray

def parseManifest (v : Json) : Except String Manifest := do
  let a ← v.getArr?
  a.toList.mapM (fun e => do
    let p ← e.getArr?
    if h : p.size = 3 then
      let ks ← p[2].getArr?
      pure ((← natList p[0]), ((← parseCKind (← p[1].getStr?)), (← ks.toList.mapM parseKey)))
    else throw "bad manifest entry")

def parseLeafMap (v : Json) : Except String LeafMap := do
  let a ← v.getArr?
  a.toList.mapM (fun e => do
    let p ← e.getArr?
    if h : p.size = 2 then
      pure ((← natList p[0]), (← parseTree p[1]))
    else throw "bad leaf-map entry")

def resultJson : Except Err Tree → Json
  | .ok t => Json.mkObj [("ok", treeJson t)]
  | .error e => Json.mkObj [("err", errJson e)]

/-- ops: `encode`, `decode`, `split`, `join`, `first_tok`, `nat_str`, `key_str`, `py_int`,
`check_int`, `isdigit_ranges`, `should_flatten`, `wf`, `flatten`, `inflate`, `flatten_inflate`. -/
def handle : Handler := fun op j =>
  match op with
  | "encode" => some do
      pure (Json.mkObj [("r", ofNatList (encode (← getNatList j "s")))])
  | "decode" => some do
      match decode (← getNatList j "s") with
      | .ok r => pure (Json.mkObj [("r", ofNatList r)])
      | .error e => pure (Json.mkObj [("err", errJson e)])
  | "split" => some do
      pure (Json.mkObj [("r", Json.arr ((splitSlash (← getNatList j "s")).map ofNatList).toArray)])
  | "join" => some do
      let l ← (← getArr j "l").toList.mapM natList
      pure (Json.mkObj [("r", ofNatList (joinSlash l))])
  | "first_tok" => some do
      pure (Json.mkObj [("r", ofNatList (firstTok (← getNatList j "s")))])
  | "nat_str" => some do
      pure (Json.mkObj [("r", ofNatList (natStr (← getNat j "n")))])
  | "key_str" => some do
      let k ← parseKey (← j.getObjVal? "key")
      pure (Json.mkObj [("r", ofNatList k.toStr)])
  | "py_int" => some do
      match pyInt (← getNatList j "s") with
      | .ok r => pure (Json.mkObj [("r", ofInt r)])
      | .error e => pure (Json.mkObj [("err", errJson e)])
  | "check_int" => some do
      pure (Json.mkObj [("r", checkInt (← getNatList j "s"))])
  | "isdigit_ranges" => some do
      pure (Json.mkObj [("r", Json.arr (isdigitRanges.map (fun r => ofNatList [r.1, r.2])).toArray)])
  | "should_flatten" => some do
      let ks ← (← getArr j "keys").toList.mapM parseKey
      pure (Json.mkObj [("r", shouldFlatten ks), ("distinct", distinctKeys ks)])
  | "wf" => some do
      let t ← parseTree (← j.getObjVal? "tree")
      pure (Json.mkObj [("r", t.wf)])
  | "flatten" => some do
      let t ← parseTree (← j.getObjVal? "tree")
      let r := flatten t (← getNatList j "prefix")
      pure (Json.mkObj [("manifest", manifestJson r.1), ("flattened", leafMapJson r.2)])
  | "inflate" => some do
      let m ← parseManifest (← j.getObjVal? "manifest")
      let f ← parseLeafMap (← j.getObjVal? "flattened")
      pure (resultJson (inflate m f (← getNatList j "prefix")))
  | "flatten_inflate" => some do
      let t ← parseTree (← j.getObjVal? "tree")
      let p ← getNatList j "prefix"
      let r := flatten t p
      pure (resultJson (inflate r.1 r.2 p))
  | _ => none

end Ts.Drv.FlattenOps
