#!/usr/bin/env python3
"""Print the DESIGN.md table of seeded changes from seeded/*/meta.json."""
import glob, json, os
ROOT = os.path.dirname(os.path.dirname(os.path.abspath(__file__)))
print("| seed | property | needs, in order to manifest | caught by the property's quick check |")
print("|---|---|---|---|")
for f in sorted(glob.glob(os.path.join(ROOT, "seeded", "*", "meta.json"))):
    m = json.load(open(f))
    needs = m["needs_to_manifest"]
    needs = needs if len(needs) < 230 else needs[:227] + "..."
    print(f"| {m['id']} | {m['property']} | {needs} | {m['caught_by_check']} |")
