#!/venv/bin/python
"""Regenerate MANIFEST.json from harness/props/*.py (each claims its property via module constants)."""
import importlib, json, os, sys
ROOT = os.path.dirname(os.path.dirname(os.path.abspath(__file__)))
sys.path.insert(0, os.path.join(ROOT, "harness"))
props = [json.loads(l)["id"] for l in open(os.path.join(ROOT, "properties.jsonl"))]
checks, na = [], []
for pid in props:
    path = os.path.join(ROOT, "harness", "props", pid.lower() + ".py")
    if not os.path.exists(path):
        na.append({"property_id": pid, "reason": "not claimed yet: its Lean theorems/tie are not closed in this tree (planned, DESIGN.md section 5); no other technique is substituted"})
        continue
    m = importlib.import_module("props." + pid.lower())
    checks.append({
        "property_id": pid,
        "quick_cmd": f"./check {pid} quick",
        "thorough_cmd": f"./check {pid} thorough",
        "evidence_file": f"evidence/{pid}.json",
        "replay_cmd_template": f"./check {pid} --replay {{path}}",
        "engine": "lean4-proof+correspondence",
        "level_claimed": {"category": "proof", "text": m.LEVEL_TEXT, "design_ref": f"DESIGN.md section 5, {pid}"},
        "level_note": m.LEVEL_NOTE,
        "technique": m.TECHNIQUE,
    })
manifest = {
    "version": 1,
    "setup_cmd": "./setup.sh",
    "hooks": {
        "guard": "TORCHSNAPSHOT_VERIF",
        "enable": "no source hooks: all instrumentation is monkey-patching from /verif/harness (in-memory storage, fake process group/store, gated event loop)",
        "baseline_off_cmd": "cd /repo && /venv/bin/python -m pytest -ra -q -p no:cacheprovider --timeout=900 --continue-on-collection-errors",
        "source_commits": [],
        "add_only": True,
    },
    "engines": [{
        "name": "lean4-proof+correspondence",
        "path": "lean/ (model TsModel, theorems TsProofs/Properties, driver tsdriver) + harness/ (runner, correspondence suites, oracles)",
        "serves_properties": [c["property_id"] for c in checks],
        "kind_free_text": "Machine-checked Lean 4 theorems about a hand-written executable model; the model is tied to /repo on every run by differential correspondence (real Python code vs compiled Lean driver over a JSON-lines protocol) and by an AST translator for literal tables whose theorems are re-checked by lake build; on a broken tie the check searches the implementation for a concrete failing input.",
    }],
    "checks": checks,
    "not_applicable": na,
    "notes": "See DESIGN.md. KNOWN_FINDINGS.txt lists recorded findings and fix: commits. Exit 2 = harness fault/timeout (never a violation).",
}
json.dump(manifest, open(os.path.join(ROOT, "MANIFEST.json"), "w"), indent=1)
print(f"{len(checks)} checks, {len(na)} not yet claimed")
