#!/bin/bash
# tools/seed_verify.sh <Cxx> <seed-dir (patch.diff, demo.py)> [pytest files...]
# Confirms a seeded change in a scratch worktree: demo passes clean / fails patched, listed tests pass patched,
# then runs the property's quick check against the patched tree. Prints a one-line verdict per step.
set -u
PROP=$1; DIR=$(readlink -f "$2"); shift 2
WT=/tmp/mut/sv_$$
git -C /repo worktree add --detach "$WT" >/dev/null 2>&1 || { echo "worktree failed"; exit 2; }
cleanup() { git -C /repo worktree remove --force "$WT" >/dev/null 2>&1; }
trap cleanup EXIT
cd "$WT"
PYTHONPATH="$WT" timeout 600 /venv/bin/python "$DIR/demo.py" >/tmp/mut/sv_clean.log 2>&1; echo "demo on clean tree: exit $?"
git apply "$DIR/patch.diff" || { echo "patch does not apply"; exit 2; }
PYTHONPATH="$WT" timeout 600 /venv/bin/python "$DIR/demo.py" >/tmp/mut/sv_patched.log 2>&1; echo "demo on patched tree: exit $?"
tail -3 /tmp/mut/sv_patched.log | cut -c1-300
if [ $# -gt 0 ]; then
  /venv/bin/python -m pytest -q -p no:cacheprovider --timeout=900 "$@" 2>&1 | tail -2
fi
cd /verif
for s in ${SEEDS:-0}; do
  VERIF_REPO="$WT" VERIF_SEED=$s ./check "$PROP" ${TIER:-quick} 2>&1 | grep -v "^KNOWN" | tail -4
done
