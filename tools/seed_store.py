#!/usr/bin/env python3
"""seed_store.py <seed-id> <src-dir> <property> <caught: yes|no|after-strengthening> <needs...> -- <what I ran...>"""
import json, os, shutil, sys
sid, src, prop, caught = sys.argv[1:5]
rest = sys.argv[5:]
i = rest.index("--")
needs, ran = " ".join(rest[:i]), " ".join(rest[i + 1:])
dst = os.path.join(os.path.dirname(os.path.dirname(os.path.abspath(__file__))), "seeded", sid)
os.makedirs(dst, exist_ok=True)
for f in ("patch.diff", "demo.py", "notes.md"):
    if os.path.exists(os.path.join(src, f)):
        shutil.copy(os.path.join(src, f), os.path.join(dst, f))
json.dump({"id": sid, "property": prop, "needs_to_manifest": needs, "confirmed": ran, "caught_by_check": caught,
           "apply": f"git -C /repo apply /verif/seeded/{sid}/patch.diff   # undo: git -C /repo checkout -- .",
           "demo": f"cd /repo && PYTHONPATH=/repo /venv/bin/python /verif/seeded/{sid}/demo.py   # exit 0 clean, non-zero with the patch"},
          open(os.path.join(dst, "meta.json"), "w"), indent=1)
print("stored", dst)
