#!/bin/bash
# tools/seed_matrix.sh [repo-worktree]   — re-validate every stored seeded change against its property's quick check.
# Applies seeded/<id>/patch.diff to a scratch worktree of /repo (never to /repo itself), runs ./check <prop> quick with
# VERIF_REPO pointing at it, expects exit 1 with a VIOLATION line that carries a concrete replay (no
# "no-failing-input-found"), and restores the worktree.  Prints one line per seed and a summary; exit 0 iff all caught.
cd "$(dirname "$0")/.."
R=${1:-}
own=0
if [ -z "$R" ]; then R=$(mktemp -d /tmp/seedmx.XXXX)/repo; git -C /repo worktree add --detach "$R" HEAD -q; own=1; fi
miss=0; n=0
for d in seeded/*/; do
  id=$(basename "$d"); prop=$(python3 -c "import json;print(json.load(open('$d/meta.json'))['property'])")
  exp=$(python3 -c "import json;print(json.load(open('$d/meta.json'))['caught_by_check'])")
  if [ "$exp" = "no" ]; then echo "$id $prop documented miss (not run)"; continue; fi
  git -C "$R" checkout -q -- . && git -C "$R" clean -fdq
  if ! git -C "$R" apply "$PWD/$d/patch.diff"; then echo "$id $prop PATCH-DOES-NOT-APPLY"; miss=$((miss+1)); continue; fi
  out=$(VERIF_REPO="$R" VERIF_SEED=${VERIF_SEED:-0} ./check "$prop" quick 2>&1); rc=$?
  v=$(echo "$out" | grep -c '^VIOLATION'); nf=$(echo "$out" | grep '^VIOLATION' | grep -vc 'no-failing-input-found')
  n=$((n+1))
  if [ $rc -eq 1 ] && [ "$nf" -ge 1 ]; then echo "$id $prop caught (violations=$v, with-failing-input=$nf)";
  elif [ $rc -eq 1 ]; then echo "$id $prop TIE-ONLY (violations=$v)"; miss=$((miss+1));
  else echo "$id $prop MISSED (exit $rc)"; miss=$((miss+1)); fi
done
git -C "$R" checkout -q -- . && git -C "$R" clean -fdq
[ $own -eq 1 ] && { git -C /repo worktree remove --force "$R"; rmdir "$(dirname "$R")" 2>/dev/null; }
echo "seeds run: $n   not caught with a failing input: $miss"
[ $miss -eq 0 ]
