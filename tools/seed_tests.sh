#!/bin/bash
# seedtests.sh <round-dir> <ids...> : runs the relevant repo tests on a worktree with each patch applied; prints pass/fail counts
RD=$1; shift
WT=/tmp/mut/st_$$
git -C /repo worktree add --detach $WT HEAD -q
declare -A T
T[serialization.py]="tests/test_serialization.py tests/test_tensor_io_preparer.py tests/test_chunked_tensor_io_preparer.py tests/test_snapshot.py"
T[chunked_tensor.py]="tests/test_chunked_tensor_io_preparer.py tests/test_tensor_io_preparer.py tests/test_snapshot.py tests/test_read_object.py tests/test_partitioner.py"
T[dist_store.py]="tests/test_dist_store.py tests/test_async_take.py tests/test_snapshot.py"
T[fs.py]="tests/test_fs_storage_plugin.py tests/test_snapshot.py tests/test_async_take.py tests/test_read_object.py"
T[tensor.py]="tests/test_tensor_io_preparer.py tests/test_chunked_tensor_io_preparer.py tests/test_snapshot.py tests/test_read_object.py tests/test_async_take.py tests/test_sharded_tensor_io_preparer.py"
T[scheduler.py]="tests/test_snapshot.py tests/test_read_object.py tests/test_async_take.py tests/test_state_dict.py tests/test_partitioner.py"
T[snapshot.py]="tests/test_snapshot.py tests/test_read_object.py tests/test_async_take.py tests/test_replication_glob.py tests/test_state_dict.py tests/test_manifest.py tests/test_sharded_tensor_resharding.py tests/test_rng_state.py"
T[batcher.py]="tests/test_snapshot.py tests/test_read_object.py tests/test_async_take.py"
T[partitioner.py]="tests/test_partitioner.py tests/test_snapshot.py tests/test_manifest.py"
T[manifest_ops.py]="tests/test_manifest.py tests/test_snapshot.py tests/test_sharded_tensor_resharding.py"
T[flatten.py]="tests/test_flatten.py tests/test_snapshot.py tests/test_state_dict.py"
T[manifest.py]="tests/test_manifest.py tests/test_snapshot.py"
for sid in "$@"; do
  id=${sid%-*}; x=${sid#*-}
  d=$RD/$id/out/$x
  cd $WT; git checkout -q -- .; git clean -fdq
  git apply $d/patch.diff || { echo "$sid PATCH FAILS"; continue; }
  files=""
  for f in $(grep -h '^+++ b/' $d/patch.diff | sed 's/+++ b\///'); do b=$(basename $f); files="$files ${T[$b]:-tests/test_snapshot.py}"; done
  files=$(echo $files | tr ' ' '\n' | sort -u | tr '\n' ' ')
  res=$(/venv/bin/python -m pytest -q -p no:cacheprovider --timeout=900 $files 2>&1 | tail -1)
  echo "$sid [$files] -> $res"
done
cd /; git -C /repo worktree remove --force $WT
