#!/usr/bin/env python3
"""merge_agent.py <agent copy root>: copy an agent's new files into /verif and union-merge the shared registries."""
import os, re, shutil, subprocess, sys
src = sys.argv[1].rstrip("/")
dst = "/verif"
out = subprocess.run(["git", "status", "--porcelain", "-uall"], cwd=src, capture_output=True, text=True).stdout
new, mod = [], []
for line in out.splitlines():
    st, path = line[:2], line[3:]
    if path.startswith(("out/", "replays/", "evidence/", "lean/.lake")) or "__pycache__" in path:
        continue
    (new if st == "??" else mod).append(path)
for p in new:
    s, d = os.path.join(src, p), os.path.join(dst, p)
    if os.path.exists(d):
        if open(s, "rb").read() == open(d, "rb").read():
            continue
        print("CONFLICT (exists, differs):", p)
        continue
    os.makedirs(os.path.dirname(d), exist_ok=True)
    shutil.copy(s, d)
    print("new", p)

def union_lines(p, anchor_re=None):
    s = open(os.path.join(src, p)).read().splitlines()
    d = open(os.path.join(dst, p)).read().splitlines()
    add = [l for l in s if l.strip() and l not in d]
    return s, d, add

for p in mod:
    if p in ("lean/TsModel.lean", "lean/TsProofs.lean", "KNOWN_FINDINGS.txt"):
        s, d, add = union_lines(p)
        if add:
            open(os.path.join(dst, p), "a").write("\n".join(add) + "\n")
            print("merged", p, "+%d" % len(add))
    elif p == "lean/Driver.lean":
        s = open(os.path.join(src, p)).read()
        d = open(os.path.join(dst, p)).read()
        imps = [l for l in s.splitlines() if l.startswith("import ") and l not in d.splitlines()]
        hs = [m for m in re.findall(r"^\s+(\w+Ops\.handle\w*)", s, re.M) if m not in d]
        if imps:
            d = d.replace("open Lean Ts.Drv\n", "\n".join(imps) + "\nopen Lean Ts.Drv\n", 1)
        for h in hs:
            d = d.replace("def handlers : List Handler := [\n", "def handlers : List Handler := [\n  " + h + ",\n", 1)
        open(os.path.join(dst, p), "w").write(d)
        print("merged Driver.lean", imps, hs)
    else:
        print("MODIFIED (manual):", p)
