"""Deterministic single-loop simulation of torchsnapshot's I/O pipelines (shared by C10 and C11).

The REAL `execute_write_reqs` + `PendingIOWork.complete` and `execute_read_reqs` run inside one asyncio
loop on fake WriteReq/ReadReq objects: a fake BufferStager / BufferConsumer with a declared cost and a
produced buffer size, and a fake StoragePlugin. Every fake operation blocks on a *gate* (a future); a
driver coroutine waits until the loop is quiescent (nothing runnable), then resolves the gate(s) picked by
the schedule. The scheduler's ThreadPoolExecutor is replaced by an inline executor. No wall clock is
involved anywhere: a hang is "quiescent, main coroutine unfinished, no gate left to release".

Observed log entries (tuples):
    ("stage_begin", r) ("stage_end", r) ("stage_fail", r)
    ("write_begin", r, nbytes, content_ok) ("write_end", r) ("write_fail", r)
    ("read_begin", r) ("read_end", r) ("read_fail", r)
    ("consume_begin", r, nbytes, content_ok) ("consume_end", r) ("consume_fail", r)
    ("sub_begin"|"sub_end"|"sub_fail", kind, r, j)   sub-operations of a batched stager / consumer
    ("report", budget)      value passed to _WriteReporter.report (if that hook point exists)
    ("handover", budget)    PendingIOWork.memory_budget_bytes when execute_write_reqs returns
    ("quiescent", [labels of open gates], [labels released])
"""
from __future__ import annotations

import asyncio
import concurrent.futures
import io
import itertools
import os
from typing import Any, Callable, Dict, List, Optional, Sequence, Tuple

_CAP_ENV = "TORCHSNAPSHOT_MAX_PER_RANK_IO_CONCURRENCY_OVERRIDE"


class InjectedFailure(Exception):
    pass


class InlineExecutor(concurrent.futures.Executor):
    """Runs submitted callables immediately in the caller (deterministic)."""

    def __init__(self, *a, **k):
        pass

    def submit(self, fn, *args, **kwargs):
        f: concurrent.futures.Future = concurrent.futures.Future()
        try:
            f.set_result(fn(*args, **kwargs))
        except BaseException as e:  # noqa
            f.set_exception(e)
        return f

    def shutdown(self, wait=True, **k):
        pass


class Gate:
    __slots__ = ("label", "fut")

    def __init__(self, label, fut):
        self.label = label  # (kind, r) or (kind, r, j) for sub-operations
        self.fut = fut


def tag(r: int, j: int = 0) -> int:
    return (r * 7 + j * 3 + 1) % 251


class Sim:
    """One run. `reqs` = list of dicts {"cost": c, "buf": b} or, for batched requests,
    {"subs": [{"cost": c, "buf": b}, ...]} (write: real BatchedBufferStager over fake sub-stagers;
    read: real BatchedBufferConsumer over fake sub-consumers)."""

    def __init__(self, mode: str, reqs: List[Dict[str, Any]], budget: int, cap: int,
                 chooser: Callable[[List[Tuple]], List[int]], fail: Optional[Tuple] = None,
                 max_steps: int = 10000, order_salt: int = 0):
        self.mode = mode
        self.reqs = reqs
        self.budget = budget
        self.cap = cap
        self.chooser = chooser
        self.fail = tuple(fail) if fail is not None else None
        self.max_steps = max_steps
        self.order_salt = order_salt
        self.log: List[Tuple] = []
        self.open: List[Gate] = []
        self.outcome: Optional[str] = None  # "ok" | "raised" | "hang" | "steps-exceeded"
        self.exc: Optional[str] = None
        self.exc_injected = False
        self.final_budget: Optional[int] = None
        self.schedule: List[List[int]] = []   # indices chosen at each quiescent point
        self.options: List[int] = []          # number of open gates at each quiescent point
        self.keys: List[Tuple] = []           # abstract scheduler state at each quiescent point
        self.hooks: Dict[str, bool] = {}

    def state_key(self) -> Tuple:
        """Multiset of (cost, buf, number of operation begin/end events seen so far) per request: the
        abstract state used to prune the schedule search (requests with equal sizes are interchangeable)."""
        prog = [0] * len(self.reqs)
        for ent in self.log:
            if ent[0] != "quiescent" and ent[0] not in ("report", "handover") and not ent[0].startswith("sub_"):
                prog[ent[1]] += 1
        return tuple(sorted((self.cost_of(r), self.buf_of(r), prog[r]) for r in range(len(self.reqs))))

    # ---- gates ---------------------------------------------------------------------------------
    async def gate(self, label: Tuple):
        fut = asyncio.get_running_loop().create_future()
        self.open.append(Gate(label, fut))
        await fut

    # ---- declared sizes ------------------------------------------------------------------------
    def cost_of(self, r: int) -> int:
        q = self.reqs[r]
        if "subs" in q:
            slab = sum(s["buf"] for s in q["subs"])
            if self.mode == "write":
                return sum(s["cost"] for s in q["subs"]) + slab
            return q.get("declared_buf", slab) + sum(s["cost"] for s in q["subs"])
        return q["cost"]

    def buf_of(self, r: int) -> int:
        q = self.reqs[r]
        if "subs" in q:
            return sum(s["buf"] for s in q["subs"])
        return q["buf"]

    # ---- main ----------------------------------------------------------------------------------
    def run(self, loop: asyncio.AbstractEventLoop) -> "Sim":
        import torchsnapshot.scheduler as sched

        saved_env = os.environ.get(_CAP_ENV)
        os.environ[_CAP_ENV] = str(self.cap)
        saved_tpe = getattr(sched, "ThreadPoolExecutor", None)
        if saved_tpe is not None:
            sched.ThreadPoolExecutor = InlineExecutor
            self.hooks["inline_executor"] = True
        # Python iterates `set(ready_for_staging)` in hash order and the default hash is the object address:
        # give the pipeline objects a salted, reproducible hash so that equal seeds give equal runs while
        # different salts still exercise different iteration orders (optional hook point).
        wp = getattr(sched, "_WritePipeline", None)
        saved_hash = None
        if wp is not None and "__hash__" not in wp.__dict__:
            salt = self.order_salt

            def _h(self_):
                try:
                    return hash((salt, self_.write_req.path))
                except Exception:
                    return id(self_) >> 4

            saved_hash = True
            wp.__hash__ = _h
            self.hooks["pipeline_hash"] = True
        reporter = getattr(sched, "_WriteReporter", None)
        saved_report = getattr(reporter, "report", None) if reporter is not None else None
        if saved_report is not None:
            sim = self

            def report(self_, memory_budget_bytes):  # noqa
                sim.log.append(("report", int(memory_budget_bytes)))

            reporter.report = report
            self.hooks["report"] = True
        _TASK_ORDER["salt"], _TASK_ORDER["n"] = self.order_salt, 0
        try:
            loop.run_until_complete(self._drive(sched))
        finally:
            if saved_tpe is not None:
                sched.ThreadPoolExecutor = saved_tpe
            if saved_report is not None:
                reporter.report = saved_report
            if saved_hash:
                try:
                    del wp.__hash__
                except Exception:
                    pass
            if saved_env is None:
                os.environ.pop(_CAP_ENV, None)
            else:
                os.environ[_CAP_ENV] = saved_env
        return self

    async def _settle(self, loop):
        ready = getattr(loop, "_ready", None)
        if ready is None:
            for _ in range(64):
                await asyncio.sleep(0)
            return
        for _ in range(100000):
            await asyncio.sleep(0)
            if not ready:
                return
        raise RuntimeError("event loop never became quiescent")

    async def _drive(self, sched):
        loop = asyncio.get_running_loop()
        main = loop.create_task(self._main_write(sched) if self.mode == "write" else self._main_read(sched))
        steps = 0
        try:
            while True:
                await self._settle(loop)
                if main.done():
                    break
                if not self.open:
                    self.outcome = "hang"
                    break
                steps += 1
                if steps > self.max_steps:
                    self.outcome = "steps-exceeded"
                    break
                labels = [g.label for g in self.open]
                picks = sorted(set(self.chooser(labels)))
                self.options.append(len(labels))
                self.keys.append(self.state_key())
                self.schedule.append(picks)
                self.log.append(("quiescent", labels, [labels[i] for i in picks]))
                chosen = [self.open[i] for i in picks]
                for g in chosen:
                    self.open.remove(g)
                for g in chosen:
                    if self.fail is not None and g.label == self.fail:
                        g.fut.set_exception(InjectedFailure(repr(g.label)))
                    else:
                        g.fut.set_result(None)
            if main.done():
                if main.cancelled():
                    self.outcome = "raised"
                    self.exc = "CancelledError"
                elif main.exception() is not None:
                    self.outcome = "raised"
                    e = main.exception()
                    self.exc = type(e).__name__
                    self.exc_injected = isinstance(e, InjectedFailure)
                else:
                    self.outcome = "ok"
        finally:
            # release everything that is still parked so that no task outlives the run
            others = [t for t in asyncio.all_tasks(loop) if t is not asyncio.current_task()]
            for t in others:
                t.cancel()
            if others:
                await asyncio.gather(*others, return_exceptions=True)
            self.open.clear()

    # ---- write side ----------------------------------------------------------------------------
    def _leaf_stager(self, r, j, cost, buf, top):
        from torchsnapshot.io_types import BufferStager
        sim = self

        class FakeStager(BufferStager):
            def get_staging_cost_bytes(self_):
                return cost

            async def stage_buffer(self_, executor=None):
                if top:
                    sim.log.append(("stage_begin", r))
                else:
                    sim.log.append(("sub_begin", "stage", r, j))
                try:
                    await sim.gate(("stage", r) if top else ("stage", r, j))
                except InjectedFailure:
                    sim.log.append(("stage_fail", r) if top else ("sub_fail", "stage", r, j))
                    raise
                sim.log.append(("stage_end", r) if top else ("sub_end", "stage", r, j))
                return memoryview(bytes([tag(r, j)]) * buf)

        return FakeStager()

    def _wrap_stager(self, r, inner):
        """Top-level begin/end logging around a real (batched) stager."""
        from torchsnapshot.io_types import BufferStager
        sim = self

        class LoggingStager(BufferStager):
            def get_staging_cost_bytes(self_):
                return inner.get_staging_cost_bytes()

            async def stage_buffer(self_, executor=None):
                sim.log.append(("stage_begin", r))
                try:
                    buf = await inner.stage_buffer(executor)
                except Exception:
                    sim.log.append(("stage_fail", r))
                    raise
                sim.log.append(("stage_end", r))
                return buf

        return LoggingStager()

    def expected_bytes(self, r: int) -> bytes:
        q = self.reqs[r]
        if "subs" in q:
            return b"".join(bytes([tag(r, j)]) * s["buf"] for j, s in enumerate(q["subs"]))
        return bytes([tag(r)]) * q["buf"]

    def _storage(self):
        from torchsnapshot.io_types import StoragePlugin
        sim = self

        class FakeStorage(StoragePlugin):
            async def write(self_, write_io):
                r = int(write_io.path)
                data = bytes(write_io.buf)
                sim.log.append(("write_begin", r, len(data), data == sim.expected_bytes(r)))
                try:
                    await sim.gate(("write", r))
                except InjectedFailure:
                    sim.log.append(("write_fail", r))
                    raise
                sim.log.append(("write_end", r))

            async def read(self_, read_io):
                r = int(read_io.path)
                sim.log.append(("read_begin", r))
                try:
                    await sim.gate(("read", r))
                except InjectedFailure:
                    sim.log.append(("read_fail", r))
                    raise
                read_io.buf = io.BytesIO(sim.expected_bytes(r))
                sim.log.append(("read_end", r))

            async def delete(self_, path):
                raise AssertionError("unexpected delete")

            async def delete_dir(self_, path):
                raise AssertionError("unexpected delete_dir")

            async def close(self_):
                pass

        return FakeStorage()

    def _write_reqs(self):
        from torchsnapshot.io_types import WriteReq
        out = []
        for r, q in enumerate(self.reqs):
            if "subs" in q:
                from torchsnapshot.batcher import BatchedBufferStager
                ranges, off = {}, 0
                for j, s in enumerate(q["subs"]):
                    ranges[(off, off + s["buf"])] = self._leaf_stager(r, j, s["cost"], s["buf"], top=False)
                    off += s["buf"]
                stager = self._wrap_stager(r, BatchedBufferStager(ranges))
            else:
                stager = self._leaf_stager(r, 0, q["cost"], q["buf"], top=True)
            out.append(WriteReq(path=str(r), buffer_stager=stager))
        return out

    async def _main_write(self, sched):
        pending = await sched.execute_write_reqs(
            write_reqs=self._write_reqs(), storage=self._storage(), memory_budget_bytes=self.budget, rank=0)
        hb = getattr(pending, "memory_budget_bytes", None)
        if hb is not None:
            self.log.append(("handover", int(hb)))
        await pending.complete()
        fb = getattr(pending, "memory_budget_bytes", None)
        self.final_budget = int(fb) if fb is not None else None

    # ---- read side -----------------------------------------------------------------------------
    def _leaf_consumer(self, r, j, cost, buf, top):
        from torchsnapshot.io_types import BufferConsumer
        sim = self

        class FakeConsumer(BufferConsumer):
            def get_consuming_cost_bytes(self_):
                return cost

            async def consume_buffer(self_, b, executor=None):
                data = bytes(b)
                okc = data == (bytes([tag(r, j)]) * buf)
                if top:
                    sim.log.append(("consume_begin", r, len(data), okc))
                else:
                    sim.log.append(("sub_begin", "consume", r, j, len(data), okc))
                try:
                    await sim.gate(("consume", r) if top else ("consume", r, j))
                except InjectedFailure:
                    sim.log.append(("consume_fail", r) if top else ("sub_fail", "consume", r, j))
                    raise
                sim.log.append(("consume_end", r) if top else ("sub_end", "consume", r, j))

        return FakeConsumer()

    def _wrap_consumer(self, r, inner):
        from torchsnapshot.io_types import BufferConsumer
        sim = self

        class LoggingConsumer(BufferConsumer):
            def get_consuming_cost_bytes(self_):
                return inner.get_consuming_cost_bytes()

            async def consume_buffer(self_, b, executor=None):
                data = bytes(b)
                sim.log.append(("consume_begin", r, len(data), data == sim.expected_bytes(r)))
                try:
                    await inner.consume_buffer(b, executor)
                except Exception:
                    sim.log.append(("consume_fail", r))
                    raise
                sim.log.append(("consume_end", r))

        return LoggingConsumer()

    def _read_reqs(self):
        from torchsnapshot.io_types import ReadReq
        out = []
        for r, q in enumerate(self.reqs):
            if "subs" in q:
                from torchsnapshot.batcher import BatchedBufferConsumer
                ranges, off = {}, 0
                for j, s in enumerate(q["subs"]):
                    ranges[(off, off + s["buf"])] = self._leaf_consumer(r, j, s["cost"], s["buf"], top=False)
                    off += s["buf"]
                inner = BatchedBufferConsumer(byte_range_to_buffer_consumer=ranges,
                                              buf_sz_bytes=q.get("declared_buf", off))
                consumer = self._wrap_consumer(r, inner)
            else:
                consumer = self._leaf_consumer(r, 0, q["cost"], q["buf"], top=True)
            out.append(ReadReq(path=str(r), buffer_consumer=consumer))
        return out

    async def _main_read(self, sched):
        await sched.execute_read_reqs(
            read_reqs=self._read_reqs(), storage=self._storage(), memory_budget_bytes=self.budget, rank=0)


# ----------------------------------------------------------------------------------------------
# choosers
# ----------------------------------------------------------------------------------------------

def random_chooser(rng, batch_prob: float = 0.0):
    def choose(labels):
        n = len(labels)
        if n > 1 and batch_prob and rng.random() < batch_prob:
            k = rng.randint(2, min(3, n))
            return rng.sample(range(n), k)
        return [rng.randrange(n)]
    return choose


def waves_chooser():
    """Completes everything that is not a storage operation first and then ALL open storage operations in the same tick:
    builds the largest backlog the pipeline can have and makes several operations finish in one wake-up."""
    def choose(labels):
        other = [i for i, l in enumerate(labels) if l[0] not in ("write", "read")]
        # non-storage operations one at a time (simultaneous completions multiply the linearisations the correspondence
        # has to try), storage operations at most three at once
        return other[:1] if other else list(range(min(len(labels), 3)))
    return choose


def scripted_chooser(script: Sequence[Sequence[int]], default_first: bool = True):
    """Follows `script` (list of index lists); afterwards always releases gate 0."""
    it = iter(script)

    def choose(labels):
        try:
            picks = [i for i in next(it) if i < len(labels)]
            return picks or [0]
        except StopIteration:
            return [0]
    return choose


def label_chooser(script: Sequence[Sequence[Sequence]]):
    """Replays a schedule given as lists of gate labels (robust against index shifts)."""
    it = iter(script)

    def choose(labels):
        try:
            want = [tuple(x) for x in next(it)]
        except StopIteration:
            return [0]
        picks = [i for i, l in enumerate(labels) if tuple(l) in want]
        return picks or [0]
    return choose


# ----------------------------------------------------------------------------------------------
# observed log -> model trace
# ----------------------------------------------------------------------------------------------

_W_MAP = {"stage_begin": "stageStart", "stage_end": "stageDone", "write_begin": "ioStart",
          "write_end": "ioDone", "stage_fail": "stageFail", "write_fail": "ioFail"}
# read side: the scheduler "processes the read completion" when it creates the consuming task, which is
# observed as consume_begin; read_end itself is not a scheduler action.
_R_MAP = {"read_begin": "ioStart", "consume_begin": "ioDone", "consume_end": "consumeDone",
          "read_fail": "ioFail", "consume_fail": "consumeFail"}


def model_events(mode: str, log: List[Tuple]) -> List[Dict[str, Any]]:
    """Scheduler-level events in observed order, tagged with the log position; a failure event is moved
    to the end (the coroutine terminates when it processes the failure)."""
    m = _W_MAP if mode == "write" else _R_MAP
    evs, fails = [], []
    for pos, ent in enumerate(log):
        k = m.get(ent[0])
        if k is None:
            continue
        e = {"k": k, "r": ent[1], "pos": pos}
        (fails if k.endswith("Fail") else evs).append(e)
    return evs + fails


def quiescent_batches(log: List[Tuple]) -> List[int]:
    """Log positions of the ("quiescent", ...) markers."""
    return [i for i, e in enumerate(log) if e[0] == "quiescent"]


def write_linearisations(mode_events: List[Dict[str, Any]], log: List[Tuple]):
    """For runs in which several gates were released at one quiescent point, the order in which the write
    scheduler *processed* the completions (set order of `done`) is not observable, and each processed
    completion is followed by its own dispatch. Yields segment alternatives: a list of segments, each
    segment being a list of candidate event lists; the model must accept one candidate per segment."""
    # split events by quiescent markers
    qpos = quiescent_batches(log) + [len(log)]
    segs: List[List[Dict[str, Any]]] = []
    head = [e for e in mode_events if e["pos"] < qpos[0]]
    segs.append(head)
    for a, b in zip(qpos, qpos[1:]):
        segs.append([e for e in mode_events if a < e["pos"] < b])
    out = []
    for seg in segs:
        ends = [e for e in seg if e["k"] in ("stageDone", "ioDone")]
        begins = [e for e in seg if e["k"] in ("stageStart", "ioStart")]
        other = [e for e in seg if e not in ends and e not in begins]
        if len(ends) <= 1 or other:
            out.append([seg])
            continue
        cands = []
        k = len(ends)
        for perm in itertools.permutations(ends):
            # split `begins` (order preserved) into k consecutive segments
            for cuts in itertools.combinations_with_replacement(range(len(begins) + 1), k - 1):
                bounds = [0] + list(cuts) + [len(begins)]
                cand = []
                for i, e in enumerate(perm):
                    cand.append(e)
                    cand.extend(begins[bounds[i]:bounds[i + 1]])
                cands.append(cand)
        out.append(cands)
    return out


# ----------------------------------------------------------------------------------------------
# running one case and judging it
# ----------------------------------------------------------------------------------------------

_LOOP = None
_TASK_ORDER = {"salt": 0, "n": 0}
_PyTask = getattr(asyncio.tasks, "_PyTask", None)

if _PyTask is not None:
    class _OrderedTask(_PyTask):  # type: ignore
        """asyncio.Task hashes by address, so the iteration order of the scheduler's task sets (`for d in done`)
        would differ from run to run. Tasks created through this factory hash by (salt, creation index):
        equal seeds give equal runs, different salts still give different set orders."""

        def __init__(self, coro, **kw):
            _TASK_ORDER["n"] += 1
            self._verif_hash = hash((_TASK_ORDER["salt"], _TASK_ORDER["n"]))
            super().__init__(coro, **kw)

        def __hash__(self):
            return self._verif_hash


def get_loop():
    global _LOOP
    if _LOOP is None or _LOOP.is_closed():
        _LOOP = asyncio.new_event_loop()
        if _PyTask is not None:
            _LOOP.set_task_factory(lambda loop, coro, **kw: _OrderedTask(coro, loop=loop, **kw))
    return _LOOP


def case_input(mode, reqs, budget, cap, schedule_labels, fail=None, order_salt=0):
    """JSON-able description of a case (enough to re-run it)."""
    return {"mode": mode, "reqs": reqs, "budget": budget, "cap": cap,
            "schedule": [[list(l) for l in step] for step in schedule_labels],
            "fail": list(fail) if fail is not None else None, "order_salt": order_salt}


def run_case(mode, reqs, budget, cap, chooser, fail=None, order_salt=0) -> Sim:
    return Sim(mode, reqs, budget, cap, chooser, fail=fail, order_salt=order_salt).run(get_loop())


def released_labels(sim: Sim):
    return [e[2] for e in sim.log if e[0] == "quiescent"]


def rerun_input(inp) -> Sim:
    return run_case(inp["mode"], inp["reqs"], inp["budget"], inp["cap"], label_chooser(inp["schedule"]),
                    fail=tuple(inp["fail"]) if inp.get("fail") else None, order_salt=inp.get("order_salt", 0))


C10_SIGS = ("budget-exceeded", "underdeclared-cost", "io-concurrency-exceeded", "budget-not-returned",
            "budget-leak", "budget-accounting-mismatch")
C11_SIGS = ("op-count", "op-order", "wrong-buffer", "pipeline-hang", "unexpected-exception",
            "failure-swallowed", "hang-after-failure", "io-slot-idle")


def judge(sim: Sim) -> List[Tuple[str, str, Any]]:
    """The property oracle on the observed behaviour of the REAL pipeline, independent of the model.
    Returns a list of (signature, what, detail)."""
    out: List[Tuple[str, str, Any]] = []
    seen = set()

    def bad(sig, what, detail):
        if sig not in seen:
            seen.add(sig)
            out.append((sig, what, detail))

    n = len(sim.reqs)
    B, cap, mode = sim.budget, sim.cap, sim.mode
    cost = [sim.cost_of(r) for r in range(n)]
    buf = [sim.buf_of(r) for r in range(n)]
    under = any(buf[r] > cost[r] for r in range(n))
    single = all(len(e[2]) == 1 for e in sim.log if e[0] == "quiescent")
    if mode == "write":
        ops = ("stage_begin", "stage_end", "write_begin", "write_end")
    else:
        ops = ("read_begin", "read_end", "consume_begin", "consume_end")
    cnt = {k: [0] * n for k in ops}
    first = {k: [None] * n for k in ops}
    acc = 0          # bytes accounted as the property counts them
    acc_cost = 0     # read side: declared cost from admission to the end of consumption
    infl = 0
    io = 0
    failed_at = None  # log position at which the injected failure surfaced
    for pos, ent in enumerate(sim.log):
        k = ent[0]
        if k in cnt:
            r = ent[1]
            cnt[k][r] += 1
            if first[k][r] is None:
                first[k][r] = pos
        if k in ("stage_fail", "write_fail", "read_fail", "consume_fail", "sub_fail") and failed_at is None:
            failed_at = pos
        if mode == "write":
            if k == "stage_begin":
                acc += cost[ent[1]]; infl += 1
            elif k == "stage_end":
                acc += buf[ent[1]] - cost[ent[1]]
            elif k == "write_begin":
                io += 1
                if ent[2] != buf[ent[1]] or not ent[3]:
                    bad("wrong-buffer", "storage.write received a buffer that is not the staged one",
                        {"r": ent[1], "len": ent[2], "expected_len": buf[ent[1]], "content_ok": ent[3]})
            elif k == "write_end":
                io -= 1; acc -= buf[ent[1]]; infl -= 1
            elif k == "write_fail":
                io -= 1
        else:
            if k == "read_begin":
                acc += cost[ent[1]]; acc_cost += cost[ent[1]]; infl += 1; io += 1
            elif k == "read_end":
                acc += buf[ent[1]] - cost[ent[1]]; io -= 1
            elif k == "read_fail":
                io -= 1
            elif k == "consume_begin":
                if ent[2] != buf[ent[1]] or not ent[3]:
                    bad("wrong-buffer", "consume_buffer received a buffer that is not the one read",
                        {"r": ent[1], "len": ent[2], "expected_len": buf[ent[1]], "content_ok": ent[3]})
            elif k == "consume_end":
                acc -= buf[ent[1]]; acc_cost -= cost[ent[1]]; infl -= 1
        if k in ("stage_begin", "stage_end", "read_begin", "read_end") and acc > B and infl != 1:
            bad("underdeclared-cost" if under else "budget-exceeded",
                "accounted bytes exceed the budget while more than one request is in flight",
                {"pos": pos, "event": list(ent[:2]), "accounted": acc, "budget": B, "inflight": infl})
        if k in ("write_begin", "read_begin") and io > cap:
            bad("io-concurrency-exceeded", "more storage operations in flight than the configured cap",
                {"pos": pos, "event": list(ent[:2]), "in_flight": io, "cap": cap})
        if k == "report" and single and failed_at is None and mode == "write":
            if ent[1] != B - acc:
                bad("budget-accounting-mismatch", "reported remaining budget + accounted bytes != total budget",
                    {"pos": pos, "reported": ent[1], "accounted": acc, "budget": B})
        if k == "quiescent" and failed_at is None and sim.fail is None:
            begun = cnt[ops[0]]
            waiting = [r for r in range(n) if begun[r] == 0]
            if mode == "write":
                fits = [r for r in waiting if cost[r] < B - acc]
                if fits:
                    bad("budget-leak", "a request that fits the remaining budget was left waiting (budget not returned)",
                        {"pos": pos, "request": fits[0], "cost": cost[fits[0]], "accounted": acc, "budget": B})
                staged = [r for r in range(n) if cnt["stage_end"][r] > 0 and cnt["write_begin"][r] == 0]
                if staged and io < cap:
                    bad("io-slot-idle", "a staged buffer was not handed to storage although an I/O slot is free",
                        {"pos": pos, "request": staged[0], "writes_in_flight": io, "cap": cap})
            else:
                fits = [r for r in waiting if cost[r] < B - acc_cost]
                if fits and io < cap:
                    bad("budget-leak", "a read that fits the remaining budget was left waiting (budget not returned)",
                        {"pos": pos, "request": fits[0], "cost": cost[fits[0]], "accounted": acc_cost, "budget": B})
    # ---- outcome ---------------------------------------------------------------------------------
    if sim.fail is None:
        if sim.outcome in ("hang", "steps-exceeded"):
            bad("pipeline-hang", "the pipeline went idle with unfinished requests and nothing left to complete",
                {"outcome": sim.outcome, "counts": cnt})
        elif sim.outcome == "raised":
            bad("unexpected-exception", "the pipeline raised although no operation failed", {"exc": sim.exc})
        else:
            for k in ops:
                for r in range(n):
                    if cnt[k][r] != 1:
                        bad("op-count", "an operation was not performed exactly once",
                            {"op": k, "r": r, "count": cnt[k][r]})
            for r in range(n):
                ps = [first[k][r] for k in ops]
                if None not in ps and ps != sorted(ps):
                    bad("op-order", "operations of one request happened out of order", {"r": r, "positions": ps})
            if mode == "write" and sim.final_budget is not None and sim.final_budget != B:
                bad("budget-not-returned", "remaining budget after completion differs from the total budget",
                    {"final": sim.final_budget, "budget": B})
    else:
        for k in ops:
            for r in range(n):
                if cnt[k][r] > 1:
                    bad("op-count", "an operation was performed more than once", {"op": k, "r": r, "count": cnt[k][r]})
        if failed_at is None and sim.outcome == "ok":
            # the operation chosen to fail never ran: nothing was injected (e.g. a zero-sub batch) -- not a failure run
            pass
        elif sim.outcome == "ok":
            bad("failure-swallowed", "an operation failed but the pipeline reported success", {"fail": list(sim.fail)})
        elif sim.outcome in ("hang", "steps-exceeded"):
            bad("hang-after-failure", "an operation failed and the pipeline neither raised nor finished",
                {"fail": list(sim.fail)})
    return out


def driver_call(driver, obj):
    """One request/one reply without the helper thread of common.Driver.call (requests here are far below
    the pipe buffer size, so a plain write-then-read cannot deadlock)."""
    import json as _json
    data = (_json.dumps(obj, separators=(",", ":")) + "\n").encode()
    if len(data) > 32768 or not hasattr(driver, "p"):
        return driver.call(obj)
    driver.p.stdin.write(data)
    driver.p.stdin.flush()
    line = driver.p.stdout.readline()
    if not line:
        raise RuntimeError("tsdriver died")
    driver.calls += 1
    return _json.loads(line)


def compact_log(sim: Sim):
    return [list(e) if e[0] != "quiescent" else ["q", [list(l) for l in e[2]]] for e in sim.log]


def correspond(ctx, suite: str, sim: Sim, inp) -> Optional[Dict[str, Any]]:
    """Correspondence with the Lean model: the driver replays the observed scheduler-level trace.
    Returns the model's reply (or None without a driver); calls ctx.disagree on any difference."""
    if not ctx.driver:
        return None
    mode = sim.mode
    evs = model_events(mode, sim.log)
    base = {"op": f"sched_{mode}_trace", "reqs": [[sim.cost_of(r), sim.buf_of(r)] for r in range(len(sim.reqs))],
            "budget": sim.budget, "cap": sim.cap}
    single = all(len(e[2]) == 1 for e in sim.log if e[0] == "quiescent")

    def ask(events):
        return driver_call(ctx.driver, dict(base, trace=[{"k": e["k"], "r": e["r"]} for e in events]))

    rep = None
    if mode == "write" and not single and sim.fail is None:
        # the processing order inside a `done` set is unobservable: search a linearisation per segment
        chosen: List[Dict[str, Any]] = []
        ok = True
        for cands in write_linearisations(evs, sim.log):
            if len(cands) == 1:
                chosen = chosen + cands[0]
                continue
            reps = ctx.driver.call_many([dict(base, trace=[{"k": e["k"], "r": e["r"]} for e in chosen + c]) for c in cands])
            hit = next((i for i, rp in enumerate(reps) if rp.get("accepted")), None)
            if hit is None:
                ok = False
                chosen = chosen + cands[0]
                break
            chosen = chosen + cands[hit]
        evs = chosen if ok else evs
        rep = ask(evs)
    else:
        rep = ask(evs)
    impl = {"outcome": sim.outcome, "exc": sim.exc, "final_budget": sim.final_budget, "log": compact_log(sim)}
    problems = []
    if "error" in rep:
        problems.append("driver error: " + str(rep["error"]))
    else:
        if not rep.get("accepted"):
            k = rep.get("rejected_at")
            problems.append(f"model rejects event #{k} {evs[k]['k']}({evs[k]['r']}): {rep['steps'][k].get('err')}")
        else:
            fin = rep["final"]
            if sim.outcome == "ok":
                if fin["outcome"] != "ok" or not fin["terminal"]:
                    problems.append(f"pipeline returned but the model is in outcome {fin['outcome']} (stages {fin['stages']})")
                if mode == "write" and sim.final_budget is not None and fin["budget"] != sim.final_budget:
                    problems.append(f"final budget {sim.final_budget} vs model {fin['budget']}")
            elif sim.outcome == "raised":
                if fin["outcome"] != "error":
                    problems.append(f"pipeline raised {sim.exc} but the model's outcome is {fin['outcome']}")
            else:
                problems.append(f"pipeline outcome {sim.outcome}; the model has no stuck state (outcome {fin['outcome']})")
            if mode == "write" and single:
                # running budget: _WriteReporter.report / PendingIOWork.memory_budget_bytes vs the model
                nonfail = [e for e in evs if not e["k"].endswith("Fail")]
                for pos, ent in enumerate(sim.log):
                    if ent[0] in ("report", "handover"):
                        m = sum(1 for e in nonfail if e["pos"] < pos)
                        mb = sim.budget if m == 0 else rep["steps"][m - 1]["budget"]
                        if mb != ent[1]:
                            problems.append(f"{ent[0]} at log position {pos}: budget {ent[1]} vs model {mb}")
                            break
    if problems:
        ctx.disagree(suite, inp, impl, {"problems": problems, "model": rep})
    return rep


def explore(run_fn: Callable[[List[List[int]]], Sim], dedup: bool):
    """Depth-first enumeration of ALL schedules (one gate released per quiescent point) by re-execution.
    With `dedup`, a quiescent point whose abstract state was already expanded is not expanded again."""
    prefix: List[int] = []
    expanded = set()
    while True:
        sim = run_fn([[i] for i in prefix])
        yield sim
        path = [p[0] for p in sim.schedule]
        opts = sim.options
        limit = len(path)
        if dedup:
            for i in range(len(prefix), len(path)):
                if sim.keys[i] in expanded:
                    limit = i
                    break
                expanded.add(sim.keys[i])
        i = limit - 1
        while i >= 0 and path[i] + 1 >= opts[i]:
            i -= 1
        if i < 0:
            return
        prefix = path[:i] + [path[i] + 1]


# ----------------------------------------------------------------------------------------------
# generators shared by C10 and C11
# ----------------------------------------------------------------------------------------------

def alphabet(B: int) -> List[int]:
    """The cost alphabet of the property's quantifier: below, equal to and above the budget."""
    return sorted({0, 1, max(B - 1, 0), B, B + 1, 2 * B})


def gen_reqs(rng, B: int, n: int, under: bool = False, batched_prob: float = 0.0) -> List[Dict[str, Any]]:
    reqs: List[Dict[str, Any]] = []
    al = alphabet(B)
    for _ in range(n):
        if batched_prob and rng.random() < batched_prob:
            subs = []
            for _ in range(rng.randint(1, 3)):
                b = rng.choice([1, 1, 2, max(B // 2, 1)])   # (zero-size sub-buffers would collide as dict keys)
                subs.append({"cost": b + rng.choice([0, 0, 1]), "buf": b})
            reqs.append({"subs": subs})
            continue
        c = rng.choice(al) if rng.random() < 0.8 else rng.randint(0, 2 * B + 2)
        if under:
            b = c + rng.choice([1, 1, 2, B, 2 * B]) if rng.random() < 0.7 else c
        else:
            b = rng.choice([c, c, c, c // 2, max(c - 1, 0), 0])
        reqs.append({"cost": c, "buf": b})
    return reqs


def multisets(al: Sequence[int], n: int):
    return itertools.combinations_with_replacement(al, n)


def stats(sim: Sim) -> Dict[str, bool]:
    """Which regimes a run exercised (for the input-distribution statistics)."""
    n = len(sim.reqs)
    begin = "stage_begin" if sim.mode == "write" else "read_begin"
    io_b, io_e = ("write_begin", "write_end") if sim.mode == "write" else ("read_begin", "read_end")
    begun, io, maxio, infl, waited_budget, oversized_alone, multi = set(), 0, 0, 0, False, False, False
    end_last = "write_end" if sim.mode == "write" else "consume_end"
    for e in sim.log:
        if e[0] == begin:
            begun.add(e[1]); infl += 1
            if sim.cost_of(e[1]) >= sim.budget:
                oversized_alone = True
        elif e[0] == io_b and sim.mode == "write":
            io += 1
        elif e[0] == io_e:
            io -= 1
        elif e[0] == end_last:
            infl -= 1
        if e[0] == begin and sim.mode == "read":
            io += 1
        maxio = max(maxio, io)
        if e[0] == "quiescent":
            if len(begun) < n and infl > 0:
                waited_budget = True
            if len(e[2]) > 1:
                multi = True
    return {"budget_binding": waited_budget, "cap_reached": maxio >= sim.cap and n > 0,
            "oversized_alone": oversized_alone, "batch_release": multi}
