"""C11 — Pipelines always finish and perform every request exactly once."""
from __future__ import annotations

import random

from common import Ctx
import schedsim as S

PROP = "C11"
LEAN_MODULE = "TsProofs.Properties.C11"
THEOREMS = [
    "Ts.Sched.C11_no_stuck",
    "Ts.Sched.C11_measure",
    "Ts.Sched.C11_exactly_once_write",
    "Ts.Sched.C11_exactly_once_read",
    "Ts.Sched.C11_complete_run_exists",
    "Ts.Sched.C11_failure_raises",
]
BUDGET_S = (100, 900)
RULE = ("Same deterministic single-loop harness as C10 (real execute_write_reqs + PendingIOWork.complete / "
        "execute_read_reqs over fake gated stagers, consumers and storage; real BatchedBufferStager / "
        "BatchedBufferConsumer over fake sub-operations for batched requests). Schedules: seeded PRNG (one or several "
        "gates released per quiescent point) and exhaustive DFS over all completion orders for every request multiset "
        "over {0,1,B-1,B,B+1,2B} (all orders n<=3 quick / n<=4 thorough; state-deduplicated n<=4 / n<=5). "
        "Correspondence = the Lean driver accepts the observed trace (incl. the maximal-progress guards) and agrees on "
        "the outcome (ok / error); the model's greedy run finishes every request for the same configuration. Oracle on "
        "the real run = every operation begun and ended exactly once and in order with the right buffer, termination "
        "(a hang is: loop quiescent, coroutine unfinished, no gate left), no exception without a failure, and for a "
        "single failure injected at every operation position (sub-operations of batched requests included): the "
        "pipeline raises. A case is non-trivial if it has >= 2 requests.")
TRUSTED = ["asyncio fairness (every created task runs; asyncio.wait returns the completed tasks)",
           "the fake stagers/consumers/storage and the quiescence detector of harness/schedsim.py"]
ASSUMPTIONS = ["I/O concurrency >= 1 (with 0 the real pipelines raise ValueError from asyncio.wait on an empty set)",
               "every started operation eventually completes or fails (environment liveness)"]
LEVEL_TEXT = ("Lean 4 theorems over the write/read pipeline transition systems, unbounded in requests, budgets, caps and "
              "event orders: a state with no enabled event has raised or has every request done (no stuck state, cap >= 1); "
              "every event strictly decreases a natural-number measure (runs have at most 4n+1 / 3n+1 events); every "
              "maximal failure-free run contains each of admit/stageDone/ioStart/ioDone (read: ioStart/ioDone/consumeDone) "
              "exactly once per request and nothing else; a maximal run exists for every input; after a failure event the "
              "outcome is error and nothing is enabled, and failures are processed exactly where completions are. Tied to "
              "the real scheduler on every run by trace acceptance; the oracle is evaluated on the real runs.")
LEVEL_NOTE = ("Trusted: Lean kernel (+propext, Classical.choice, Quot.sound), the hand model lean/TsModel/Sched.lean, the "
              "harness; asyncio fairness is assumed (partial: real wall-clock timeouts are not modelled).")
TECHNIQUE = "Lean 4 well-founded-measure + no-stuck proofs over an executable scheduler model + trace-acceptance correspondence"

MY_SIGS = set(S.C11_SIGS)

CORPUS = [
    # every pending request exceeds the remaining budget while only a consuming task is in flight
    {"mode": "read", "reqs": [{"cost": 3, "buf": 3}, {"cost": 9, "buf": 9}, {"cost": 8, "buf": 8}], "budget": 4, "cap": 1},
    {"mode": "read", "reqs": [{"cost": 4, "buf": 4}, {"cost": 4, "buf": 4}, {"cost": 0, "buf": 0}], "budget": 4, "cap": 2},
    # concurrency 1: nothing may be lost while buffers queue up in ready_for_io
    {"mode": "write", "reqs": [{"cost": 1, "buf": 1}, {"cost": 1, "buf": 1}, {"cost": 1, "buf": 1}], "budget": 16, "cap": 1},
    {"mode": "write", "reqs": [{"cost": 5, "buf": 5}, {"cost": 8, "buf": 8}, {"cost": 4, "buf": 4}], "budget": 4, "cap": 2},
    # D1 (fixed by c93ef7f): a failing sub-consumer of a batched read must make the pipeline raise
    {"mode": "read", "reqs": [{"subs": [{"cost": 1, "buf": 2}, {"cost": 1, "buf": 3}]}, {"cost": 1, "buf": 1}],
     "budget": 64, "cap": 2, "fail_all": True},
    {"mode": "write", "reqs": [{"subs": [{"cost": 1, "buf": 2}, {"cost": 1, "buf": 3}]}, {"cost": 1, "buf": 1}],
     "budget": 64, "cap": 2, "fail_all": True},
]


def _op_labels(mode, reqs):
    """Every operation position at which a single failure can be injected."""
    out = []
    for r, q in enumerate(reqs):
        if mode == "write":
            if "subs" in q:
                out += [("stage", r, j) for j in range(len(q["subs"]))]
            else:
                out.append(("stage", r))
            out.append(("write", r))
        else:
            out.append(("read", r))
            if "subs" in q:
                out += [("consume", r, j) for j in range(len(q["subs"]))]
            else:
                out.append(("consume", r))
    return out


def _check(ctx: Ctx, suite: str, sim: S.Sim):
    inp = S.case_input(sim.mode, sim.reqs, sim.budget, sim.cap, S.released_labels(sim), sim.fail, sim.order_salt)
    S.correspond(ctx, suite, sim, inp)
    for sig, what, detail in S.judge(sim):
        if sig in MY_SIGS:
            ctx.fail(sig, what, inp, detail, suite=suite)
    st = S.stats(sim)
    for k, v in st.items():
        if v:
            ctx.count(f"{suite}.{k}")
    ctx.count(f"{suite}.{sim.mode}")
    ctx.count(f"{suite}.outcome={sim.outcome}")
    if sim.fail is not None:
        ctx.count(f"{suite}.fail_at={sim.fail[0]}" + (".sub" if len(sim.fail) == 3 else ""))
    else:
        ctx.count(f"{suite}.n={len(sim.reqs)}")
    ctx.case(suite, {"mode": sim.mode, "reqs": sim.reqs, "budget": sim.budget, "cap": sim.cap, "fail": sim.fail,
                     "released": [list(map(list, x)) for x in S.released_labels(sim)][:12]},
             nontrivial=len(sim.reqs) >= 2, key=inp)


def _greedy_model(ctx: Ctx, mode, reqs_cb, B, cap):
    """The model's own deterministic run must finish every request (executable side of C11_complete_run_exists)."""
    if not ctx.driver or cap < 1:
        return
    rep = ctx.driver.call({"op": f"sched_{mode}_greedy", "reqs": reqs_cb, "budget": B, "cap": cap})
    fin = rep.get("final", {})
    if fin.get("outcome") != "ok" or not fin.get("terminal") or fin.get("budget") != B:
        ctx.disagree("model_greedy", {"mode": mode, "reqs": reqs_cb, "budget": B, "cap": cap},
                     {"expected": "outcome ok, terminal, budget returned"}, rep)


def _explore(ctx: Ctx, suite, mode, reqs, B, cap, dedup, reserve, fail=None) -> int:
    k = 0
    for sim in S.explore(lambda script: S.run_case(mode, reqs, B, cap, S.scripted_chooser(script), fail=fail), dedup):
        _check(ctx, suite, sim)
        k += 1
        if ctx.time_left() < reserve:
            ctx.notes.append(f"{suite}: exploration of {mode} {reqs} B={B} cap={cap} fail={fail} stopped early after {k}")
            break
    return k


def _corpus(ctx: Ctx):
    for c in CORPUS:
        _explore(ctx, "corpus", c["mode"], c["reqs"], c["budget"], c["cap"], dedup=False, reserve=30)
        if c.get("fail_all"):
            for lab in _op_labels(c["mode"], c["reqs"]):
                _explore(ctx, "corpus_fail", c["mode"], c["reqs"], c["budget"], c["cap"], dedup=True, reserve=30, fail=lab)


def _random(ctx: Ctx, n_cases: int, reserve: float):
    for i in range(n_cases):
        if ctx.time_left() < reserve:
            ctx.notes.append(f"random stream stopped early at {i}")
            break
        seed = ctx.rng.getrandbits(48)
        rng = random.Random(seed)
        B = rng.choice([1, 2, 3, 4, 4, 7, 16, 64])
        n = rng.choice([0, 1, 2, 3, 4, 5, 6, 7, 9, 12])
        mode = rng.choice(["write", "read"])
        cap = rng.choice([1, 1, 2, 2, 3, 4, 16])
        reqs = S.gen_reqs(rng, B, n, batched_prob=0.3 if rng.random() < 0.4 else 0.0)
        batch = 0.35 if rng.random() < 0.35 else 0.0
        chooser = S.random_chooser(rng, batch)
        if rng.random() < 0.12:
            # many small requests under a roomy budget, completed in waves: a long backlog behind the concurrency cap and
            # several storage operations finishing in the same event-loop tick
            n = rng.randint(4, 12)
            reqs = [{"cost": 1, "buf": 1} for _ in range(n)] if rng.random() < 0.6 else S.gen_reqs(rng, 1, n)
            B = rng.choice([16, 64])
            chooser = S.waves_chooser() if rng.random() < 0.7 else S.random_chooser(rng, 0.5)
            cap = rng.choice([1, 2, 2, 3])
        sim = S.run_case(mode, reqs, B, cap, chooser, order_salt=seed & 0xFFFF)
        _check(ctx, "random", sim)
        if i % 8 == 0:
            _greedy_model(ctx, mode, [[sim.cost_of(r), sim.buf_of(r)] for r in range(n)], B, cap)
        # single-failure injection at every operation position (same schedule seed)
        if n <= 6 and i % 3 == 0:
            for lab in _op_labels(mode, reqs):
                fsim = S.run_case(mode, reqs, B, cap, S.random_chooser(random.Random(seed + 1)), fail=lab,
                                  order_salt=seed & 0xFFFF)
                _check(ctx, "random_fail", fsim)


def _exhaustive(ctx: Ctx, reserve: float):
    B = 4
    al = S.alphabet(B)
    full_n, dedup_n = (3, 4) if ctx.quick else (4, 5)
    plan = []
    for n in range(1, dedup_n + 1):
        for ms in S.multisets(al, n):
            for cap in ((1, 2, 3) if n <= 3 or not ctx.quick else (1, 2)):
                for mode in ("write", "read"):
                    plan.append((n, ms, cap, mode))
    done = 0
    for n, ms, cap, mode in plan:
        if ctx.time_left() < reserve:
            ctx.notes.append(f"exhaustive scope stopped early: {done}/{len(plan)} (multiset, cap, pipeline) combinations")
            break
        reqs = [{"cost": c, "buf": c} for c in ms]
        suite = f"exhaustive_n{n}" + ("" if n <= full_n else "_dedup")
        _explore(ctx, suite, mode, reqs, B, cap, dedup=n > full_n, reserve=reserve)
        # failure at every position, every schedule (state-deduplicated), small n
        if n <= 2 or (n == 3 and not ctx.quick):
            for lab in _op_labels(mode, reqs):
                _explore(ctx, f"exhaustive_fail_n{n}", mode, reqs, B, cap, dedup=True, reserve=reserve, fail=lab)
        done += 1
    ctx.count("exhaustive.combinations_done", done)
    ctx.count("exhaustive.combinations_planned", len(plan))


def _prepared_requests_case(ctx: Ctx, case, suite: str = "prepared_requests"):
    """From the application's side: every write request that prepare_write produces for a state (whatever the batcher
    turns it into) is staged and written exactly once by the save pipeline, and every read request of a restore is
    executed - observed as: every payload location named by the committed manifest was written exactly once, holds at
    least the named byte range, and a restore gives the state back.  States are rich in zero-element tensors and tensors
    at the slab threshold."""
    import os
    import gen
    import sim
    from torchsnapshot import Snapshot
    from torchsnapshot.manifest import ChunkedTensorEntry, ObjectEntry, TensorEntry
    ROOT = "/snap/c11"
    tree = gen.build_tree(case["state"])
    saved = gen.deep_clone(tree)
    world = sim.World(1)
    inp = dict(case, prepared_requests=True)
    with sim.knobs(**case["knobs"]):
        try:
            world.run1(lambda: Snapshot.take(ROOT, {"s": gen.RecStateful(tree)}))
        except Exception as e:  # noqa
            ctx.fail("request-not-executed", f"take raised {type(e).__name__}: {str(e)[:200]}", inp, None, suite=suite)
            return
    manifest = world.run1(lambda: Snapshot(ROOT).get_manifest())
    files = world.storage.snapshot_files()
    counts = {}
    for e in world.storage.writes():
        counts[e["raw"]] = counts.get(e["raw"], 0) + 1
    units = []
    for k, e in manifest.items():
        if isinstance(e, ChunkedTensorEntry):
            units += [(k, c.tensor.location, c.tensor.byte_range) for c in e.chunks]
        elif isinstance(e, (TensorEntry, ObjectEntry)):
            units.append((k, e.location, getattr(e, "byte_range", None)))
    for k, loc, br in units:
        if counts.get(loc, 0) != 1:
            ctx.fail("request-not-executed-exactly-once", f"{k}: location {loc} was written {counts.get(loc, 0)} times", inp,
                     {"key": k, "location": loc}, suite=suite)
            break
        data = files.get(os.path.normpath(os.path.join(ROOT, loc)))
        if data is None or (br is not None and br[1] > len(data)):
            ctx.fail("request-not-executed-exactly-once", f"{k}: {loc} {br} is not backed by written bytes", inp, {"key": k}, suite=suite)
            break
    else:
        dst = gen.RecStateful({kk: None for kk in saved})
        with sim.knobs(**case["restore_knobs"]):
            try:
                world.run1(lambda: Snapshot(ROOT).restore({"s": dst}))
                d = gen.deep_eq(saved, dst.loaded)
                if d is not None:
                    ctx.fail("request-not-executed-exactly-once", "a read request was not executed: restored state differs", inp, {"diff": d}, suite=suite)
            except Exception as e:  # noqa
                ctx.fail("request-not-executed-exactly-once", f"restore raised {type(e).__name__}: {str(e)[:200]}", inp, None, suite=suite)
    ctx.count("prepared.cases")
    ctx.case(suite, {"knobs": case["knobs"], "units": len(units), "state": gen.short(case["state"])}, nontrivial=len(units) > 0, key=case)


def _slab_hole_case(ctx: Ctx, gap_mib: int, suite: str = "prepared_requests"):
    """Only some members of one slab are read (subset restore), and the ones that are read lie far apart in the slab:
    every requested read request must still be executed exactly once."""
    import gen
    import sim
    import torch
    from torchsnapshot import Snapshot
    ROOT = "/snap/c11h"
    from props import c07
    if not c07._ensure_gloo():
        ctx.notes.append("1-rank gloo group unavailable: slab-hole case skipped")
        return
    cols = 1024
    r = max(2, gap_mib * (1 << 20) // 2 // (cols * 4))          # two middle shards make the hole
    g = (torch.arange(4 * r * cols, dtype=torch.float32) % 1000.0).reshape(4 * r, cols)
    world = sim.World(1)
    inp = {"slab_hole_mib": gap_mib, "prepared_requests": True}
    try:
        with sim.knobs(budget=10 ** 9):
            world.run1(lambda: Snapshot.take(ROOT, {"s": gen.RecStateful({"st": c07._mk_sharded(g.clone(), [(0, r), (r, 2 * r), (2 * r, 3 * r), (3 * r, 4 * r)])})}))
            tgt = c07._mk_sharded(torch.full_like(g, -1.0), [(0, r), (3 * r, 4 * r)])        # needs the first and the last saved shard only
            dst = gen.RecStateful({"st": tgt})
            world.run1(lambda: Snapshot(ROOT).restore({"s": dst}))
        got = dst.loaded["st"]
        for sh in got.local_shards():
            o, z = sh.metadata.shard_offsets, sh.metadata.shard_sizes
            if not torch.equal(sh.tensor, g[o[0]:o[0] + z[0]]):
                ctx.fail("request-not-executed-exactly-once", "a read request of a restore that needs only the first and the last shard of "
                         f"one slab ({gap_mib} MiB apart) was not executed: local shard at rows {o[0]} differs", inp, {"rows": [o[0], o[0] + z[0]]}, suite=suite)
                break
    except Exception as e:  # noqa
        ctx.fail("request-not-executed-exactly-once", f"restore raised {type(e).__name__}: {str(e)[:200]}", inp, None, suite=suite)
    ctx.count("prepared.slab_hole")
    ctx.case(suite, inp, nontrivial=True, key=inp)


def _gen_prepared(rng):
    import gen
    import sim
    items = []
    for i in range(rng.randint(1, 5)):
        r = rng.random()
        if r < 0.35:
            d = {"t": "tensor", "dtype": rng.choice(["float32", "int8", "bfloat16", "int64"]), "shape": rng.choice([[0], [0, 3], [2, 0]]), "data": [], "layout": "contig"}
        elif r < 0.8:
            d = gen.rand_tensor_desc(rng, 16)
        else:
            d = {"t": "obj", "kind": rng.choice(["set", "tuple"])}
        items.append([gen.key_desc(f"k{i}"), d])
    return {"state": {"t": "dict", "items": items}, "knobs": sim.rand_knobs(rng), "restore_knobs": sim.rand_knobs(rng)}


def run(ctx: Ctx):
    for _ in range(ctx.n(150, 2000)):
        _prepared_requests_case(ctx, _gen_prepared(ctx.rng))
    for gap in ([17] if ctx.quick else [1, 17, 40]):
        _slab_hole_case(ctx, gap)
    _corpus(ctx)
    total = ctx.time_left()
    _random(ctx, ctx.n(1500, 15000), reserve=total * 0.45)
    _exhaustive(ctx, reserve=8)


def replay(ctx: Ctx, rec):
    inp = rec["input"]
    if inp.get("slab_hole_mib"):
        _slab_hole_case(ctx, inp["slab_hole_mib"], "replay")
        for f in ctx.failures[:5]:
            print("FAIL", f["sig"], f["what"])
        return
    if inp.get("prepared_requests"):
        _prepared_requests_case(ctx, {k: v for k, v in inp.items() if k != "prepared_requests"}, "replay")
        for f in ctx.failures[:5]:
            print("FAIL", f["sig"], f["what"])
        return
    sim = S.rerun_input(inp)
    print("input   :", {k: inp[k] for k in ("mode", "reqs", "budget", "cap", "fail")})
    print("schedule:", inp["schedule"])
    print("impl    : outcome", sim.outcome, sim.exc, "final budget", sim.final_budget)
    print("log     :", [e for e in S.compact_log(sim)])
    rep = S.correspond(ctx, "replay", sim, inp)
    if rep is not None:
        print("model   :", {k: rep.get(k) for k in ("accepted", "rejected_at", "final")})
    for sig, what, detail in S.judge(sim):
        print("oracle  :", sig, what, detail)
        if sig in MY_SIGS:
            ctx.fail(sig, what, inp, detail, suite="replay")
