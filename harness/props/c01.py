"""C01 — take then restore reproduces the application state exactly."""
from __future__ import annotations

import os
from typing import Any, Dict, List

from common import Ctx
from props import c01_e2e, c01_world

PROP = "C01"
LEAN_MODULE = "TsProofs.Properties.C01World"   # imports TsProofs.Properties.C01
THEOREMS = [
    "Ts.Snapshot.C01_dataplane_roundtrip",
    "Ts.Snapshot.C01_knob_independence",
    "Ts.Snapshot.C01_structure_roundtrip",
    "Ts.Snapshot.restoreLeafWith_ok",
    "Ts.Snapshot.assemble_chunks",
    "Ts.Snapshot.storedAll",
    "Ts.Snapshot.restoreLeafG_ok",
    "Ts.World.C01_world_roundtrip",
    "Ts.World.C01_world_roundtrip_any_target",
    "Ts.Snapshot.restoreLeafInto_ok",
    "Ts.World.C07_world_replicated_everywhere",
    "Ts.World.C06_world_written_once",
    "Ts.World.C06_world_kept_nodup",
    "Ts.World.C06_world_replicated_bytes_once",
    "Ts.World.C06_world_partition_independent_bytes",
    "Ts.World.C06_world_partition_independent_restore",
    "Ts.World.world_roundtrip",
    "Ts.World.worldEntry_rep_indep",
    "Ts.Flatten.C15_inverse",
    "Ts.C16.C16_plan_roundtrip",
    "Ts.Serial.C17_roundtrip_strided",
    "Ts.Serial.C17_stage_consume_roundtrip",
]
BUDGET_S = (170, 900)
RULE = ("(a) end-to-end: random nested application states (lists, dicts, OrderedDicts; all 12 dtypes; shapes 0-4 dims incl. scalar, "
        "zero-length, odd counts; layouts contiguous/transposed/strided/offset/broadcast/fortran; primitives incl. big ints, NaN/-0.0 "
        "floats, bytes; objects) on 1-3 simulated ranks, replicated globs, random take knobs x independent restore knobs (chunk, slab, "
        "batching, budget >= 1, concurrency >= 1), restore targets None / in-place / wrong shape or dtype, key subsets, sync and async: "
        "the argument handed to load_state_dict must equal the saved state (container types, key types and order, float bits, tensor "
        "dtype/shape/bytes). (b) model tie, 1 rank: the payload leaves in flatten order + knobs go to the Lean data-plane model; its "
        "manifest entries (kind, chunk offsets/sizes, byte ranges, slab grouping), every stored object's bytes and the restored leaves "
        "are compared with the real manifest / storage. (b') whole-job tie, 2-3 ranks with replicated + private leaves: the Lean "
        "job model gets every rank's leaves, the replicated paths and the partition the real partitioner chose and must reproduce "
        "which rank stores which object with which bytes, every (rank, path) entry (writer of every unit, ranges, chunk tables) and "
        "the restored leaves; real restore on every rank is the oracle. (c) bounded-exhaustive in thorough: every dtype x small shapes x every "
        "threshold. Non-trivial = at least one payload write; distinct by case hash.")
TRUSTED = ["torch layout -> row-major bytes (contiguous(), numpy bridge), torch.save/torch.load as a lawful codec (C17's assumptions)",
           "distinct write units get distinct storage locations (C05, under its key-safety hypotheses: finding D13)",
           "every request is executed exactly once (C11); each rank sees its own entries (C07); metadata survives its file (C14)"]
ASSUMPTIONS = ["keys are safe in the sense of C05 (no '', '.', '..' components, no chunk-suffix alias); quantized tensors excluded (D18)"]
LEVEL_TEXT = ("Lean 4 theorems: for every list of payload leaves (any buffer-protocol dtype, shape, contents; blobs), every chunk / slab "
              "threshold >= 1, batching on or off and every completion order of chunk consumers, take's manifest entries restored from "
              "the written storage give back exactly the saved leaves, and the result is independent of the knobs; flatten/inflate "
              "returns the same containers (C15). The composition uses the proved kernels of C15, C16, C17. Tied to the code by the "
              "model-vs-real comparison of manifests and stored bytes, and by the end-to-end oracle over the full configuration space."
              ' Whole-job composition (TsModel/World.lean): for every world size, per-rank state, replication set and partition of the replicated units, every rank restores every leaf exactly - into no target, a matching pre-allocated tensor with any old contents, or a mismatching one - by restore and by read_object under any budget (C01_world_roundtrip, C01_world_roundtrip_any_target).')
LEVEL_NOTE = ("The end-to-end statement is a composition: structure (C15_inverse) + bytes (C01_dataplane_roundtrip) + serialization (C17) "
              "+ metadata (C14) + who-loads-what (C07); location naming and scheduling enter as hypotheses discharged by C05/C11. "
              "Trusted: Lean kernel, hand models, harness, torch layout handling and the torch.save codec.")
TECHNIQUE = "Lean 4 proof (composition of data-plane kernels) + model-vs-real manifest/storage comparison + end-to-end oracle"

ROOT = "/snap/c01m"
BP = {"float64", "float32", "float16", "bfloat16", "int64", "int32", "int16", "int8", "uint8", "bool"}
DEFAULT_CHUNK = 512 * 1024 * 1024
DEFAULT_SLAB = 128 * 1024 * 1024


def _canon_real(manifest, flat_paths: List[str], files: Dict[str, bytes]):
    """Real manifest entries of the payload leaves (in flatten order) with canonical locations."""
    from torchsnapshot.manifest import ChunkedTensorEntry, ObjectEntry, PrimitiveEntry, TensorEntry
    slabs: Dict[str, int] = {}
    objects: Dict[str, bytes] = {}
    entries = []

    def at(loc: str, rng, i, piece):
        if loc.startswith("batched/"):
            key = {"slab": slabs.setdefault(loc, len(slabs))}
        else:
            key = {"leaf": i, "piece": piece}
        objects[repr(key)] = files[os.path.normpath(os.path.join(ROOT, loc))]
        return {"loc": key, "range": list(rng) if rng is not None else None}

    i = 0
    for lp in flat_paths:
        e = manifest["0/" + lp]
        if isinstance(e, PrimitiveEntry):
            continue
        if isinstance(e, ChunkedTensorEntry):
            entries.append({"k": "chunked", "dtype": e.dtype, "shape": list(e.shape),
                            "chunks": [{"off": ch.offsets[0], "size": ch.sizes[0],
                                        "at": at(ch.tensor.location, ch.tensor.byte_range, i, [ch.offsets[0], ch.sizes[0]])} for ch in e.chunks]})
        elif isinstance(e, TensorEntry):
            if e.serializer == "buffer_protocol":
                entries.append({"k": "tensor", "dtype": e.dtype, "shape": list(e.shape), "at": at(e.location, e.byte_range, i, None)})
            else:
                entries.append({"k": "blob", "at": at(e.location, e.byte_range, i, None)})
        elif isinstance(e, ObjectEntry):
            entries.append({"k": "blob", "at": at(e.location, None, i, None)})
        i += 1
    return entries, objects


def _canon_model(rep):
    slabs: Dict[int, int] = {}

    def fix(a):
        loc = a["loc"]
        if "slab" in loc:
            loc = {"slab": slabs.setdefault(loc["slab"], len(slabs))}
        return {"loc": loc, "range": a["range"]}
    ents = []
    for e in rep["entries"]:
        e = dict(e)
        if e["k"] == "chunked":
            e["chunks"] = [dict(c, at=fix(c["at"])) for c in e["chunks"]]
            e["dtype"] = "torch." + e["dtype"]
        else:
            e["at"] = fix(e["at"])
            if e["k"] == "tensor":
                e["dtype"] = "torch." + e["dtype"]
        ents.append(e)
    objs = {}
    for o in rep["objects"]:
        loc = o["loc"]
        if "slab" in loc:
            loc = {"slab": slabs.setdefault(loc["slab"], len(slabs))}
        objs[repr(loc)] = bytes(o["bytes"]) if o["bytes"] is not None else None
    return ents, objs


def model_tie_case(ctx: Ctx, case: Dict[str, Any], suite: str):
    import gen
    import sim
    import torch
    from torchsnapshot import Snapshot
    from torchsnapshot.flatten import flatten
    from torchsnapshot.manifest_utils import is_container_entry

    tree = gen.build_tree(case["state"])
    saved = gen.deep_clone(tree)
    world = sim.World(1)
    kn = case["knobs"]
    with sim.knobs(**kn):
        try:
            world.run1(lambda: Snapshot.take(ROOT, {"s": gen.RecStateful(tree)}))
        except Exception as e:  # noqa
            ctx.fail("take-raised", f"Snapshot.take raised {type(e).__name__}: {str(e)[:200]}", case, None, suite=suite)
            return
    manifest = world.run1(lambda: Snapshot(ROOT).get_manifest())
    files = world.storage.snapshot_files()
    _, flat = flatten(saved, prefix="s")
    flat_paths = list(flat.keys())
    leaves = []
    real_entries, real_objs = _canon_real(manifest, flat_paths, files)
    k = 0
    from torchsnapshot.manifest import PrimitiveEntry
    for lp in flat_paths:
        e = manifest["0/" + lp]
        if isinstance(e, PrimitiveEntry):
            continue
        v = flat[lp]
        if isinstance(v, torch.Tensor) and gen.DT_NAME.get(v.dtype) in BP:
            leaves.append({"k": "tensor", "dtype": gen.DT_NAME[v.dtype], "shape": list(v.shape), "bytes": list(gen.tensor_bytes(v))})
        else:
            ent = real_entries[k]
            if ent["k"] != "blob":
                ctx.notes.append("chunked torch_save tensor in model tie stream (outside the model): case skipped")
                return
            leaves.append({"k": "blob", "bytes": list(real_objs[repr(ent["at"]["loc"])])})
        k += 1
    if not leaves:
        ctx.case(suite, {"state": gen.short(case["state"]), "leaves": 0}, nontrivial=False)
        return
    # restore targets: none / pre-allocated with junk contents (in place) / wrong shape; the same targets go to the model
    import e2e
    import zlib
    tmode = ["fresh", "inplace", "inplace", "wrong"][zlib.crc32(repr(case["state"]).encode()) % 4]
    targets = e2e.target_like(saved, tmode, None) if isinstance(saved, dict) else None
    dsts = []
    if targets is not None:
        _, tflat = flatten(targets, prefix="s")
        for lp in flat_paths:
            if isinstance(manifest["0/" + lp], PrimitiveEntry):
                continue
            tv = tflat.get(lp)
            if isinstance(tv, torch.Tensor) and gen.DT_NAME.get(tv.dtype) in BP:
                dsts.append({"dtype": gen.DT_NAME[tv.dtype], "shape": list(tv.shape), "bytes": list(gen.tensor_bytes(tv))})
            else:
                dsts.append(None)
    if ctx.driver:
        req = {"op": "c01_plan", "cfg": {"chunk": kn.get("chunk") or DEFAULT_CHUNK, "slab": kn.get("slab") or DEFAULT_SLAB,
                                          "batching": not kn.get("nobatch")}, "reverse": bool(case.get("reverse")), "leaves": leaves}
        if len(dsts) == len(leaves):
            req["dst"] = dsts
        rep = ctx.driver.call(req)
        if "entries" not in rep:
            ctx.disagree("c01_plan", {"case": case}, "real take succeeded", rep, "model rejected a state the code accepts")
        else:
            ments, mobjs = _canon_model(rep)
            if ments != real_entries:
                bad = [i for i in range(max(len(ments), len(real_entries)))
                       if i >= len(ments) or i >= len(real_entries) or ments[i] != real_entries[i]][:2]
                ctx.disagree("c01_plan.entries", {"case": case}, [real_entries[i] if i < len(real_entries) else None for i in bad],
                             [ments[i] if i < len(ments) else None for i in bad], "manifest entries differ")
            elif mobjs != real_objs:
                bad = [kk for kk in set(mobjs) | set(real_objs) if mobjs.get(kk) != real_objs.get(kk)][:2]
                ctx.disagree("c01_plan.objects", {"case": case}, {kk: list(real_objs.get(kk) or b"")[:40] for kk in bad},
                             {kk: list(mobjs.get(kk) or b"")[:40] for kk in bad}, "stored bytes differ")
            if rep.get("restored") != leaves:
                ctx.disagree("c01_plan.restored", {"case": case}, "saved leaves", rep.get("restored"), "model restore differs from saved leaves")
            if rep.get("restored_into") != leaves:
                ctx.disagree("c01_plan.restored_into", {"case": case, "target_mode": tmode}, "saved leaves", rep.get("restored_into"),
                             "model restore into the given targets differs from saved leaves")
    # real restore (oracle) under independent knobs
    dst = gen.RecStateful(targets if targets is not None else ({kk: None for kk in saved} if isinstance(saved, dict) else None))
    ctx.count("tie.target." + tmode)
    with sim.knobs(**case["restore_knobs"]):
        try:
            world.run1(lambda: Snapshot(ROOT).restore({"s": dst}))
            d = gen.deep_eq(saved, dst.loaded)
            if d is not None:
                ctx.fail("restored-state-differs", "restored state differs from the saved one", case, {"diff": d}, suite=suite)
        except Exception as e:  # noqa
            ctx.fail("restore-raised", f"restore raised {type(e).__name__}: {str(e)[:200]}", case, None, suite=suite)
    kinds = [e["k"] for e in real_entries]
    for kk in kinds:
        ctx.count("entry." + kk)
    ctx.count("slabbed" if any(o.startswith("{'slab'") for o in real_objs) else "no_slab")
    ctx.case(suite, {"state": gen.short(case["state"]), "knobs": kn, "entries": kinds}, nontrivial=True, key=case)


def _gen_tie_case(rng) -> Dict[str, Any]:
    import gen
    import sim
    # only buffer-protocol dtypes chunk in the model; complex tensors travel as blobs (kept below the chunk knob)
    tree = gen.rand_tree_desc(rng, 3, tensors=0.8, max_elems=20)
    if tree["t"] not in ("dict", "odict"):
        tree = {"t": "dict", "items": [[gen.key_desc("v"), tree], [gen.key_desc("w"), gen.rand_tensor_desc(rng, 20)]]}

    def strip_complex(d):
        if d.get("t") == "tensor" and d["dtype"].startswith("complex"):
            d["dtype"] = "float32"
            d["data"] = d["data"][: 4 * gen.numel(d["shape"])]
            d["data"] += [0] * (4 * gen.numel(d["shape"]) - len(d["data"]))
        for v in d.get("items", []):
            strip_complex(v[1] if isinstance(v, list) else v)
    strip_complex(tree)
    return {"state": tree, "knobs": sim.rand_knobs(rng), "restore_knobs": sim.rand_knobs(rng), "reverse": rng.random() < 0.5}


def _exhaustive_cases(ctx: Ctx):
    """every dtype x every shape with <= 6 elements (<= 3 dims) x every chunk/slab threshold up to size+1"""
    import gen
    import itertools
    shapes = [[]] + [[a] for a in range(0, 7)] + [[a, b] for a in range(0, 4) for b in range(0, 4) if a * b <= 6] + \
             [[a, b, c] for a in (1, 2) for b in (1, 2, 3) for c in (1, 2) if a * b * c <= 6]
    for dt in gen.DTYPES:
        name = gen.DT_NAME[dt]
        if name.startswith("complex"):
            continue
        es = gen.esize(dt)
        for shape in shapes:
            n = gen.numel(shape)
            size = n * es
            data = [(i * 37 + 11) % 256 if name != "bool" else (i % 2) for i in range(size)]
            for thr in sorted({1, 2, max(es - 1, 1), es, es + 1, max(size // 2, 1), max(size - 1, 1), size, size + 1} - {0}):
                for slab in (1, es + 1, size + 1):
                    yield {"state": {"t": "dict", "items": [
                        [gen.key_desc("a"), {"t": "tensor", "dtype": name, "shape": shape, "data": data, "layout": "contig"}],
                        [gen.key_desc("b"), {"t": "tensor", "dtype": "uint8", "shape": [3], "data": [1, 2, 3], "layout": "contig"}]]},
                        "knobs": {"chunk": thr, "slab": slab, "nobatch": False, "budget": 10 ** 9},
                        "restore_knobs": {"nobatch": (thr + slab) % 2 == 0, "budget": 7}, "reverse": (thr % 2 == 1)}


CORPUS = [
    # D3: bf16 odd count; D4: zero-size and [2,0]
    {"world": 1, "states": [[[{"k": "str", "v": [115]}, {"t": "dict", "items": [
        [{"k": "str", "v": [97]}, {"t": "tensor", "dtype": "bfloat16", "shape": [3], "data": [1, 2, 3, 4, 5, 6], "layout": "contig"}],
        [{"k": "str", "v": [98]}, {"t": "tensor", "dtype": "float32", "shape": [0], "data": [], "layout": "contig"}],
        [{"k": "str", "v": [99]}, {"t": "tensor", "dtype": "float32", "shape": [2, 0], "data": [], "layout": "contig"}]]}]]],
     "replicated": [], "take_knobs": {"budget": 10 ** 9}, "restore_knobs": {"nobatch": True, "budget": 1}, "mode": "fresh", "subset": None, "async": False},
]


def run(ctx: Ctx):
    import e2e
    for c in CORPUS:
        c01_e2e.one_case(ctx, c, "corpus")
    n_e2e, n_tie = ctx.n(260, 4000), ctx.n(160, 2500)
    # ranks that are separate processes with identically seeded PRNGs (seed_everything(s)): real gloo job, real FS plugin
    from props import c05 as _c05
    for i in range(ctx.n(1, 8)):
        _c05._seeded_processes(ctx, {"W": ctx.rng.choice([2, 2, 3]), "seed": ctx.rng.randrange(10 ** 6), "async": ctx.rng.random() < 0.3,
                                     "elems": [ctx.rng.randint(1, 40) for _ in range(ctx.rng.randint(2, 5))], "slab": ctx.rng.choice([0, 64])}, 100 + i)
    for i in range(ctx.n(120, 2000)):
        if ctx.time_left() < 60:
            ctx.notes.append(f"world tie stream stopped early at {i}")
            break
        c01_world.world_tie_case(ctx, c01_world.gen_world_case(ctx.rng), "world_tie")
    for i in range(n_tie):
        if ctx.time_left() < 40:
            ctx.notes.append(f"model tie stream stopped early at {i}")
            break
        model_tie_case(ctx, _gen_tie_case(ctx.rng), "model_tie")
    for i in range(n_e2e):
        if ctx.time_left() < 15:
            ctx.notes.append(f"e2e stream stopped early at {i}")
            break
        c01_e2e.one_case(ctx, e2e.gen_case(ctx.rng), "e2e")
    if not ctx.quick:
        for j, c in enumerate(_exhaustive_cases(ctx)):
            if ctx.time_left() < 10:
                ctx.notes.append(f"exhaustive stream stopped early at {j}")
                break
            model_tie_case(ctx, c, "exhaustive_small")
    else:
        cases = list(_exhaustive_cases(ctx))
        for c in ctx.rng.sample(cases, 60):
            if ctx.time_left() < 5:
                break
            model_tie_case(ctx, c, "exhaustive_sample")


def replay(ctx: Ctx, rec):
    inp = rec["input"]
    if "case" in inp:
        inp = inp["case"]
    if inp.get("seeded_processes"):
        from props import c05 as _c05
        _c05._seeded_processes(ctx, {k: v for k, v in inp.items() if k != "seeded_processes"}, 0, suite="replay", verbose=True)
    elif "glob" in inp:
        c01_world.world_tie_case(ctx, inp, "replay")
    elif "state" in inp:
        model_tie_case(ctx, inp, "replay")
    else:
        c01_e2e.one_case(ctx, inp, "replay")
    for f in ctx.failures[:10]:
        print("FAIL", f["sig"], f["what"], f["observed"])
    for d in ctx.disagreements[:5]:
        print("DISAGREE", d["suite"], d["note"], d["impl"], d["model"])
    if not ctx.failures and not ctx.disagreements:
        print("no failure on replay")
