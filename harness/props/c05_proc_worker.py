"""One rank of a real multi-process gloo job for C05 (identically seeded processes).

usage: c05_proc_worker.py <cfg.json> <rank> <W> <initfile> <snapdir> <out.json>

Every rank first seeds every PRNG a training script usually seeds (random, numpy, torch) with the SAME value, as
`seed_everything(s)` does, then takes a snapshot of small batchable tensors through the real filesystem plugin
and logs its own storage writes.  Only plain keys are used: the real filesystem plugin is safe for them.
Writes {"writes": [[path, nbytes], ...], "manifest": {logical path: [[location, lo, hi] ...]}, "problems": [...]}.
"""
import json
import os
import sys


def main():
    cfg_path, rank, W, initfile, snapdir, out_path = sys.argv[1], int(sys.argv[2]), int(sys.argv[3]), sys.argv[4], sys.argv[5], sys.argv[6]
    repo = os.environ.get("VERIF_REPO", "/repo")
    sys.path.insert(0, repo)
    import warnings
    warnings.filterwarnings("ignore")
    import random
    import numpy
    import torch
    import torch.distributed as dist
    cfg = json.load(open(cfg_path))
    if cfg.get("slab"):
        os.environ["TORCHSNAPSHOT_SLAB_SIZE_THRESHOLD_BYTES_OVERRIDE"] = str(cfg["slab"])
    dist.init_process_group("gloo", init_method=f"file://{initfile}", rank=rank, world_size=W)
    random.seed(cfg["seed"])
    numpy.random.seed(cfg["seed"])
    torch.manual_seed(cfg["seed"])
    from torchsnapshot import Snapshot, StateDict
    from torchsnapshot.manifest import ChunkedTensorEntry, ObjectEntry, TensorEntry
    from torchsnapshot.storage_plugins.fs import FSStoragePlugin

    writes = []
    orig_write = FSStoragePlugin.write

    async def write(self, write_io):
        buf = write_io.buf
        n = buf.nbytes if isinstance(buf, memoryview) else len(buf)
        writes.append([write_io.path, n])
        return await orig_write(self, write_io)
    FSStoragePlugin.write = write

    def val(i, r):
        return (torch.arange(cfg["elems"][i], dtype=torch.float32) + 1000 * r + 10 * i)

    problems = []
    app = {"m": StateDict(**{f"w{i}": val(i, rank) for i in range(len(cfg["elems"]))})}
    path = os.path.join(snapdir, "snap")
    if cfg.get("async"):
        snap = Snapshot.async_take(path, app).wait()
    else:
        snap = Snapshot.take(path, app)
    man = {}
    for k, e in snap.get_manifest().items():
        if isinstance(e, ChunkedTensorEntry):
            man[k] = [[c.tensor.location] + list(c.tensor.byte_range or [0, -1]) for c in e.chunks]
        elif isinstance(e, TensorEntry):
            man[k] = [[e.location] + list(e.byte_range or [0, -1])]
        elif isinstance(e, ObjectEntry):
            man[k] = [[e.location, 0, -1]]
    app2 = {"m": StateDict(**{f"w{i}": torch.zeros(cfg["elems"][i]) for i in range(len(cfg["elems"]))})}
    Snapshot(path).restore(app2)
    for i in range(len(cfg["elems"])):
        if not torch.equal(app2["m"][f"w{i}"], val(i, rank)):
            problems.append(f"rank {rank} w{i}: restored {app2['m'][f'w{i}'][:4].tolist()} expected {val(i, rank)[:4].tolist()}")
    dist.barrier()
    dist.destroy_process_group()
    json.dump({"writes": writes, "manifest": man, "problems": problems}, open(out_path, "w"))


if __name__ == "__main__":
    main()
