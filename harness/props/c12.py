"""C12 — all ranks issue the same collective sequence whatever their local state."""
from __future__ import annotations

import itertools
import os
from typing import Any, Dict, List, Optional

from common import Ctx

PROP = "C12"
LEAN_MODULE = "TsProofs.Properties.C12"
THEOREMS = [
    "Ts.Collective.C12_take_uniform",
    "Ts.Collective.C12_restore_uniform",
    "Ts.Collective.C12_trace_shape",
    "Ts.Collective.C12_world_uniform",
    "Ts.Collective.C12_saved_by_exactly_those",
    "Ts.Collective.C12_witness",
    "Ts.Collective.C12_witness_rng",
    "Ts.Collective.C12_witness_skip_barrier_on_empty",
]
BUDGET_S = (100, 900)
RULE = ("jobs of W in {1,2,3,4} simulated ranks (threads; fake process group whose hub logs every collective and raises on a "
        "mismatch or a missing participant; in-memory storage) run the real take | async_take, then restore, with per-rank key "
        "sets that are disjoint / nested / equal / empty on some ranks, an RNGState on a subset of ranks (rarely two on one "
        "rank), leaf kinds tensor / chunked tensor / primitive / object, replicated globs (same or different per rank), budget "
        "override set / unset / unparsable, batching on/off, partitioner-disabled flag, restore of a sub-set of the saved keys; "
        "plus a bounded-exhaustive scope (quick: 2 keys x W=2 x RNG subsets x override; thorough: 3 keys x W<=3) and, thorough only, "
        "five heterogeneous jobs on real multi-process gloo with a 60 s watchdog. "
        "Correspondence: per rank, the recorded sequence of collectives (kind + payload class per call site) interleaved with the "
        "statefuls' state_dict/load_state_dict calls vs the Lean model's event list; the gathered global key list vs the model's. "
        "Oracle on the real code: no collective mismatch / missing participant, every rank completes, all ranks logged the same "
        "collective sequence, the manifest lists key k under rank r iff r registered k, each rank gets back exactly what it saved "
        "with one load per registered key. Non-trivial = W>=2 and the ranks' local states differ; distinct by configuration.")
TRUSTED = ["harness/sim.py fake process group (collectives are atomic rendezvous; a mismatch raises instead of hanging)",
           "environment knobs are equal on all ranks (one process in the simulator)"]
ASSUMPTIONS = ["collectives issued by user state_dict()/load_state_dict() methods are outside the model",
               "each rank's app state is valid (at most one RNGState, state_dict() does not raise); an invalid rank raises and the others would hang — shown as a remark, not part of the property",
               "PendingSnapshot's store bootstrap broadcast (no default store, MPI backend) is modelled (storeBootstrap) but not exercised: the simulator supplies the store",
               "ShardedTensor / DTensor leaves are not generated (need a real process group)"]

KEY_POOL = ["a", "b", "c", "a0", "ab", "B", "model", "optim", "é", "k/1"]
RNG_KEYS = ["rng", "r", "0", "zz", "b"]
KINDS = ["tensor", "chunked", "primitive", "object"]

# payload class expected at each call site (tag of the model's Op)
EXPECT = {
    "bcastPath": "list1:str", "gatherReplicatedGlobs": "list:str", "bcastBarrierId": "list1:int", "gatherKeys": "keys",
    "keyBarrier": "none", "gatherReplicatedPaths": "list:str", "bcastReplicatedPaths": "list1:list",
    "gatherWriteLoads": "tuple3", "bcastPartition": "list1:any", "gatherManifest": "dict", "gatherHostnames": "str",
    "commitBarrierPre": "none", "commitBarrierPost": "none", "bcastStoreAddr": "list2",
}


def cps(s: str) -> List[int]:
    return [ord(c) for c in s]


def classify(payload: Any) -> str:
    if payload is None:
        return "none"
    if isinstance(payload, str):
        return "str"
    if isinstance(payload, dict):
        return "dict"
    if isinstance(payload, tuple):
        return f"tuple{len(payload)}"
    if isinstance(payload, list):
        if all(isinstance(x, str) for x in payload):
            return "list1:str|list:str" if len(payload) == 1 else "list:str"
        if len(payload) == 1:
            x = payload[0]
            return "list1:int" if isinstance(x, int) and not isinstance(x, bool) else "list1:list" if isinstance(x, list) else "list1:any"
        return f"list{len(payload)}"
    return type(payload).__name__


def class_ok(expected: str, got: str) -> bool:
    if expected == got:
        return True
    if got == "list1:str|list:str":
        return expected in ("list1:str", "list:str")
    if expected == "list1:any":
        return got.startswith("list1:")
    return False


# ----------------------------------------------------------------------------------------------
# configuration generators
# ----------------------------------------------------------------------------------------------

def _rank_desc(rng, keys, rngk, kinds_for=None):
    return {"keys": list(keys), "rng": list(rngk),
            # a stateful may have NOTHING to save (nn.ReLU(), StateDict()): an empty state dict, on this rank only
            "kinds": {k: (kinds_for or [rng.choice(KINDS) for _ in range(rng.randint(0 if rng.random() < 0.2 else 1, 3))]) for k in keys}}


def gen_config(rng) -> Dict[str, Any]:
    W = rng.choice([1, 2, 2, 3, 3, 4])
    pool = rng.sample(KEY_POOL, rng.randint(1, 4))
    shape = rng.choice(["disjoint", "nested", "equal", "random", "random", "some-empty"])
    ranks = []
    for r in range(W):
        if shape == "disjoint":
            ks = [k for i, k in enumerate(pool) if i % W == r]
        elif shape == "nested":
            ks = pool[: max(0, len(pool) - r)]
        elif shape == "equal":
            ks = list(pool)
        elif shape == "some-empty":
            ks = [] if rng.random() < 0.5 else [k for k in pool if rng.random() < 0.7]
        else:
            ks = [k for k in pool if rng.random() < 0.5]
        rng.shuffle(ks)
        p = rng.random()
        rk = [] if p < 0.5 else [rng.choice([k for k in RNG_KEYS if k not in ks])]
        ranks.append(_rank_desc(rng, ks, rk))
    if rng.random() < 0.04 and W >= 1:      # adversarial: two RNGStates on one rank (invalid app state)
        r = rng.randrange(W)
        ranks[r]["rng"] = [k for k in RNG_KEYS if k not in ranks[r]["keys"]][:2]
    rep_mode = rng.choice(["none", "none", "same", "differ", "all"])
    for r, rd in enumerate(ranks):
        rd["replicated"] = {"none": [], "same": ["*/rep*"], "differ": (["*/rep*"] if r % 2 == 0 else []), "all": ["*/rep*", "nomatch/*"]}[rep_mode]
        rd["restore"] = [k for k in rd["keys"] if rng.random() < 0.8]
        rd["restore_rng"] = bool(rd["rng"]) and rng.random() < 0.85
    return {"W": W, "ranks": ranks, "override": rng.choice(["set", "unset", "unset", "garbage"]), "nobatch": rng.random() < 0.4,
            "async": rng.random() < 0.4, "nopart": rng.random() < 0.03, "shape": shape,
            "hosts": rng.choice([None, None, "two"]), "with_rep_leaf": rep_mode != "none" or rng.random() < 0.3}


def exhaustive_configs(keys: List[str], Ws: List[int], overrides=("set", "unset")):
    subsets = [[k for i, k in enumerate(keys) if m >> i & 1] for m in range(1 << len(keys))]
    for W in Ws:
        for assign in itertools.product(subsets, repeat=W):
            for rmask in range(1 << W):
                for override in overrides:
                    ranks = []
                    for r in range(W):
                        rd = {"keys": list(assign[r]), "rng": (["rng"] if rmask >> r & 1 else []),
                              "kinds": {k: ["tensor"] for k in assign[r]}, "replicated": [],
                              "restore": list(assign[r]), "restore_rng": bool(rmask >> r & 1)}
                        ranks.append(rd)
                    yield {"W": W, "ranks": ranks, "override": override, "nobatch": False, "async": (rmask + len(assign[0])) % 2 == 1,
                           "nopart": False, "shape": "exhaustive", "hosts": None, "with_rep_leaf": False}


CORPUS: List[Dict[str, Any]] = [
    # D8's replay: disjoint keys, no override (restore mismatched all_gather vs barrier before the fix)
    {"W": 2, "override": "unset", "nobatch": False, "async": False, "nopart": False, "shape": "disjoint", "hosts": None, "with_rep_leaf": False,
     "ranks": [{"keys": ["a"], "rng": [], "kinds": {"a": ["tensor"]}, "replicated": [], "restore": ["a"], "restore_rng": False},
               {"keys": ["b"], "rng": [], "kinds": {"b": ["tensor"]}, "replicated": [], "restore": ["b"], "restore_rng": False}]},
    # D8's second replay: an RNGState on one rank only, the other rank registers nothing
    {"W": 2, "override": "unset", "nobatch": True, "async": True, "nopart": False, "shape": "some-empty", "hosts": None, "with_rep_leaf": False,
     "ranks": [{"keys": [], "rng": [], "kinds": {}, "replicated": [], "restore": [], "restore_rng": False},
               {"keys": [], "rng": ["rng"], "kinds": {}, "replicated": [], "restore": [], "restore_rng": True}]},
    # nested keys, RNGState key equal to another rank's stateful key, replicated leaves, 3 ranks
    {"W": 3, "override": "garbage", "nobatch": False, "async": False, "nopart": False, "shape": "nested", "hosts": "two", "with_rep_leaf": True,
     "ranks": [{"keys": ["b", "a", "c"], "rng": [], "kinds": {"a": ["tensor", "object"], "b": ["chunked"], "c": ["primitive"]}, "replicated": ["*/rep*"], "restore": ["a", "c"], "restore_rng": False},
               {"keys": ["a", "c"], "rng": ["b"], "kinds": {"a": ["tensor", "object"], "c": ["primitive"]}, "replicated": ["*/rep*"], "restore": ["a", "c"], "restore_rng": True},
               {"keys": ["a"], "rng": [], "kinds": {"a": ["tensor", "object"]}, "replicated": ["*/rep*"], "restore": [], "restore_rng": False}]},
]


# ----------------------------------------------------------------------------------------------
# running one configuration
# ----------------------------------------------------------------------------------------------

_WORLD_CLS = {}


def _world_cls():
    """A sim.World whose hub also records payloads and lets statefuls interleave their own events."""
    if "cls" in _WORLD_CLS:
        return _WORLD_CLS["cls"]
    import sim

    class RecHub(sim.Hub):
        def __init__(self, world):
            super().__init__(world)
            self.mixed: List[List[Any]] = [[] for _ in range(world)]

        def collective(self, rank, op, payload):
            self.mixed[rank].append(["coll", op, payload if op == "all_gather_object" and isinstance(payload, list) else None,
                                     classify(payload)])
            return super().collective(rank, op, payload)

    class RecWorld(sim.World):
        def new_hub(self):
            self.hub = RecHub(self.size)

    _WORLD_CLS["cls"] = RecWorld
    return RecWorld


def _leaf(kind: str, rank: int, key: str, i: int):
    import torch
    base = (sum(map(ord, key)) * 7 + rank * 31 + i) % 100
    if kind == "tensor":
        return torch.arange(4, dtype=torch.float32) + base
    if kind == "chunked":
        return (torch.arange(300, dtype=torch.int32) + base).reshape(10, 30)  # 1200 bytes > chunk knob (512)
    if kind == "primitive":
        return base
    return (base, "obj", rank)


def _zero_like(v):
    import torch
    if isinstance(v, torch.Tensor):
        return torch.zeros_like(v)
    return None if not isinstance(v, int) else -1


def _state_dict(rd, rank: int, key: str, with_rep: bool, zero: bool = False):
    import torch
    sd: Dict[str, Any] = {}
    for i, kind in enumerate(rd["kinds"].get(key, ["tensor"])):
        v = _leaf(kind, rank, key, i)
        sd[f"l{i}"] = _zero_like(v) if zero else v
    if with_rep:
        v = torch.arange(3, dtype=torch.int64) + sum(map(ord, key))          # identical on every rank
        sd["rep"] = torch.zeros_like(v) if zero else v
    return sd


def _model_locals(ranks, phase: str):
    out = []
    for r, rd in enumerate(ranks):
        keys = rd["keys"] if phase == "take" else rd["restore"]
        rngk = rd["rng"] if phase == "take" else (rd["rng"] if rd["restore_rng"] else [])
        out.append({"rank": r, "keys": [cps(k) for k in keys], "rng_keys": [cps(k) for k in rngk],
                    "leaves": [{"key": cps(k), "kinds": [{"chunked": "chunked"}.get(x, x) for x in rd["kinds"].get(k, ["tensor"])]} for k in keys],
                    "replicated": len(rd.get("replicated", []))})
    return out


def _model_events(evs):
    """model event list -> comparable [(coll, kind) | (sd, key) | (load, key)] + tags"""
    seq, tags = [], []
    for e in evs:
        if e[0] == "coll":
            seq.append(["coll", e[2]])
            tags.append(e[1])
        elif e[0] in ("sd", "load"):
            seq.append([e[0], e[1]])
    return seq, tags


def run_config(ctx: Ctx, cfg: Dict[str, Any], verbose: bool = False) -> bool:
    import torch  # noqa
    import gen
    import sim
    from torchsnapshot import RNGState, Snapshot

    W = cfg["W"]
    ranks = cfg["ranks"]
    world = _world_cls()(W)
    if cfg.get("hosts") == "two":
        world.hostnames = [f"host{r % 2}" for r in range(W)]
    path = "/c12/snap"
    fails: List[Any] = []
    invalid = [r for r in range(W) if len(ranks[r]["rng"]) > 1]

    def ev(kind, key):
        w = sim.current_world()
        w.hub.mixed[sim.current_rank()].append([kind, cps(key)])

    class EvStateful:
        def __init__(self, key, sd):
            self.key, self.sd, self.loaded, self.load_calls = key, sd, None, 0

        def state_dict(self):
            ev("sd", self.key)
            return self.sd

        def load_state_dict(self, sd):
            ev("load", self.key)
            self.loaded = sd
            self.load_calls += 1

    class EvRNG(RNGState):
        def __init__(self, key):
            self.key = key
            self.load_calls = 0

        def state_dict(self):
            ev("sd", self.key)
            return super().state_dict()

        def load_state_dict(self, sd):
            ev("load", self.key)
            self.load_calls += 1
            return super().load_state_dict(sd)

    saved: Dict[int, Dict[str, Any]] = {}

    def build(rank, phase):
        rd = ranks[rank]
        app: Dict[str, Any] = {}
        keys = rd["keys"] if phase == "take" else rd["restore"]
        rngk = rd["rng"] if phase == "take" else (rd["rng"] if rd["restore_rng"] else [])
        items = [(k, False) for k in keys] + [(k, True) for k in rngk]
        # dict order: keys as listed (already shuffled), RNGStates spliced in by rank parity
        if rank % 2 == 1:
            items = items[::-1]
        for k, is_rng in items:
            app[k] = EvRNG(k) if is_rng else EvStateful(k, _state_dict(rd, rank, k, cfg.get("with_rep_leaf", False), zero=(phase == "restore")))
        return app

    budget = {"set": 10 ** 9, "unset": None, "garbage": "12MB"}[cfg["override"]]
    env_prev = os.environ.get("TORCH_SNAPSHOT_DISABLE_PARTITIONER")
    if cfg.get("nopart"):
        os.environ["TORCH_SNAPSHOT_DISABLE_PARTITIONER"] = "1"

    def phase_run(phase):
        apps: Dict[int, Any] = {}

        def fn(rank, pg):
            app = build(rank, phase)
            apps[rank] = app
            if phase == "take":
                saved[rank] = {k: gen.deep_clone(v.sd) for k, v in app.items() if isinstance(v, EvStateful)}
                if cfg["async"]:
                    snap = Snapshot.async_take(path, app, pg=pg, replicated=list(ranks[rank].get("replicated", []))).wait()
                else:
                    snap = Snapshot.take(path, app, pg=pg, replicated=list(ranks[rank].get("replicated", [])))
                return sorted(snap.get_manifest().keys())
            Snapshot(path, pg=pg).restore(app)
            return None

        res = world.run(fn)
        return res, apps, [list(m) for m in world.hub.mixed], [list(l) for l in world.hub.log]

    try:
        with sim.knobs(chunk=512, slab=256 if not cfg["nobatch"] else None, nobatch=cfg["nobatch"], budget=budget):
            phases = ["take"]
            results: Dict[str, Any] = {}
            results["take"] = phase_run("take")
            take_ok = all(t == "ok" for t, _ in results["take"][0])
            if take_ok:
                results["restore"] = phase_run("restore")
                phases.append("restore")
    finally:
        if cfg.get("nopart"):
            if env_prev is None:
                os.environ.pop("TORCH_SNAPSHOT_DISABLE_PARTITIONER", None)
            else:
                os.environ["TORCH_SNAPSHOT_DISABLE_PARTITIONER"] = env_prev

    mode = {"take": "async_take" if cfg["async"] else "take", "restore": "restore"}
    expect_raise = bool(invalid) or cfg.get("nopart")
    for phase in phases:
        res, apps, mixed, log = results[phase]
        # ---------------- oracle (independent of the model)
        if not expect_raise:
            for r, (tag, val) in enumerate(res):
                if tag != "ok":
                    sig = "collective-mismatch" if isinstance(val, sim.Mismatch) else "rank-raised"
                    fails.append((f"{phase}-{sig}", f"{phase} did not complete on rank {r}", f"{type(val).__name__}: {str(val)[:300]}"))
            if any(l != log[0] for l in log[1:]):
                fails.append((f"{phase}-ranks-differ", "ranks logged different collective sequences",
                              {str(r): l for r, l in enumerate(log)}))
            if all(t == "ok" for t, _ in res):
                if phase == "take":
                    man = res[0][1]
                    tops = {(p.split("/")[0], "/".join(p.split("/")[1:2])) for p in man}
                    for r in range(W):
                        from torchsnapshot.flatten import _encode  # escaped form of a key in logical paths
                        have = {k for (rr, k) in tops if rr == str(r)}
                        want = {_encode(k) for k in ranks[r]["keys"] + ranks[r]["rng"]}
                        if have != want:
                            fails.append(("take-listed-under-wrong-ranks", f"manifest lists {sorted(have)} under rank {r}, registered {sorted(want)}", None))
                else:
                    for r in range(W):
                        for k, st in apps[r].items():
                            if st.load_calls != 1:
                                fails.append(("restore-load-count", f"rank {r} key {k!r}: load_state_dict called {st.load_calls} times", None))
                            elif isinstance(st, EvStateful):
                                d = gen.deep_eq(saved[r][k], st.loaded)
                                if d:
                                    fails.append(("restore-wrong-state", f"rank {r} key {k!r} did not get back what it saved: {d}", None))
        else:
            # an invalid rank / disabled partitioner must surface as exceptions, never as a hang
            for r, (tag, val) in enumerate(res):
                if tag == "ok":
                    fails.append((f"{phase}-invalid-completed", f"rank {r} completed although the job is invalid", None))
        # ---------------- correspondence with the model
        if ctx.driver:
            inp = {"op": "coll_world", "mode": mode[phase], "locals": _model_locals(ranks, phase),
                   "cfg": {"override": cfg["override"] == "set", "nobatch": cfg["nobatch"], "nopart": bool(cfg.get("nopart")), "bootstrap": False}}
            rep = ctx.driver.call(inp)
            if "ranks" not in rep:
                ctx.disagree("coll_world", cfg, None, rep, "driver error")
                continue
            for r in range(W):
                mseq, tags = _model_events(rep["ranks"][r]["events"])
                iseq = [["coll", e[1]] if e[0] == "coll" else e for e in mixed[r]]
                icls = [e[3] for e in mixed[r] if e[0] == "coll"]
                if invalid and r not in invalid:
                    ok = iseq == mseq[:len(iseq)]          # stuck where the invalid rank stopped: a prefix
                else:
                    ok = iseq == mseq
                if not ok:
                    ctx.disagree("coll_world", {"cfg": cfg, "phase": phase, "rank": r}, iseq, mseq, "event sequence")
                    break
                bad = [(i, t, c) for i, (t, c) in enumerate(zip(tags, icls)) if t != "gatherKeys" and not class_ok(EXPECT[t], c)]
                if bad:
                    ctx.disagree("coll_world", {"cfg": cfg, "phase": phase, "rank": r}, bad, [EXPECT[t] for _, t, _ in bad], "payload class at call site")
                    break
                # the keys this rank contributed to _gather_keys are exactly its non-RNG keys
                gk = [e[2] for e, t in zip([e for e in mixed[r] if e[0] == "coll"], tags) if t == "gatherKeys"]
                want = [k for k in apps[r] if not isinstance(apps[r][k], RNGState)] if r in apps else None
                if gk and want is not None and sorted(gk[0]) != sorted(want):
                    ctx.disagree("coll_world", {"cfg": cfg, "phase": phase, "rank": r}, gk[0], want, "keys gathered")
                    break
            else:
                if not invalid and not cfg.get("nopart"):
                    # global key list: python's sorted(set(..)) of what was actually gathered vs the model's sortKeys
                    allk = []
                    for r in range(W):
                        colls = [e for e in mixed[r] if e[0] == "coll"]
                        _, tags = _model_events(rep["ranks"][r]["events"])
                        for e, t in zip(colls, tags):
                            if t == "gatherKeys" and e[2] is not None:
                                allk += e[2]
                    if [cps(k) for k in sorted(set(allk))] != rep["global_keys"]:
                        ctx.disagree("coll_world", {"cfg": cfg, "phase": phase}, sorted(set(allk)), rep["global_keys"], "global key order")
            if verbose:
                for r in range(W):
                    print(f"[{phase}] rank {r} impl :", [e[1] if e[0] == "coll" else f"{e[0]}:{''.join(map(chr, e[1]))}" for e in mixed[r]])
                    print(f"[{phase}] rank {r} model:", [e[1] if e[0] == "coll" else f"{e[0]}:{''.join(map(chr, e[1]))}" if e[0] in ("sd", "load") else e[0]
                                                         for e in rep["ranks"][r]["events"]])
                    print(f"[{phase}] rank {r} result:", res[r][0], None if res[r][0] == "ok" else repr(res[r][1])[:200])
        elif verbose:
            for r in range(W):
                print(f"[{phase}] rank {r} impl :", log[r], res[r][0], None if res[r][0] == "ok" else repr(res[r][1])[:200])

    for sig, what, obs in fails:
        ctx.fail(sig, what, cfg, obs)
    ctx.count(f"W.{W}")
    ctx.count("shape." + cfg.get("shape", "?"))
    ctx.count("override." + cfg["override"])
    ctx.count("mode." + ("async_take" if cfg["async"] else "take"))
    ctx.count("batching." + ("off" if cfg["nobatch"] else "on"))
    ctx.count("rng_ranks.%d" % sum(1 for rd in ranks if rd["rng"]))
    if invalid:
        ctx.count("invalid.two-rngstates")
    if cfg.get("nopart"):
        ctx.count("partitioner-disabled")
    if any(rd.get("replicated") for rd in ranks):
        ctx.count("replicated-globs")
    for rd in ranks:
        for ks in rd["kinds"].values():
            for k in ks:
                ctx.count("leaf." + k)
    locs = [(sorted(rd["keys"]), rd["rng"], sorted(map(str, rd["kinds"].items()))) for rd in ranks]
    return W >= 2 and any(l != locs[0] for l in locs[1:])


def user_collective_case(ctx: Ctx, cfg: Dict[str, Any], suite: str = "user_collectives"):
    """Statefuls that communicate: a key registered on EVERY rank whose state_dict()/load_state_dict() issue a collective
    of their own (DDP / FSDP style), next to rank-exclusive keys registered before or after it in each rank's dict, and
    optionally one rank with a very large state (> 1024 logical paths).  All ranks must go through the same sequence of
    collectives - library and user ones interleaved - and get their state back."""
    import gen
    import sim
    import torch
    from torchsnapshot import Snapshot

    W = cfg["W"]
    world = sim.World(W)
    saved: Dict[int, Dict[str, Any]] = {}

    class Talker:
        def __init__(self, key, sd):
            self.key, self.sd, self.loaded = key, sd, None

        def state_dict(self):
            sim.current_world().hub.collective(sim.current_rank(), "user_collective:sd:" + self.key, None)
            return self.sd

        def load_state_dict(self, sd):
            sim.current_world().hub.collective(sim.current_rank(), "user_collective:load:" + self.key, None)
            self.loaded = sd

    def build(rank, zero):
        app: Dict[str, Any] = {}
        for k in cfg["order"][rank]:
            if k in cfg["shared"]:
                v = {"w": torch.arange(3, dtype=torch.float32) + rank + len(k)}
                app[k] = Talker(k, {"w": torch.zeros(3)} if zero else v)
            else:
                n = cfg.get("big", {}).get(k, 0)
                v = {"x": rank * 10 + len(k)} if not n else {f"s{i}": i + rank for i in range(n)}
                app[k] = gen.RecStateful({kk: (-1) for kk in v} if zero else v)
        return app

    def take(rank, pg):
        app = build(rank, False)
        saved[rank] = {k: gen.deep_clone(getattr(v, "sd", None)) for k, v in app.items()}
        if cfg["async"]:
            Snapshot.async_take("/c12/talk", app, pg=pg).wait()
        else:
            Snapshot.take("/c12/talk", app, pg=pg)
        return True

    def restore(rank, pg):
        app = build(rank, True)
        Snapshot("/c12/talk", pg=pg).restore(app)
        out = {}
        for k, v in app.items():
            out[k] = gen.deep_eq(saved[rank][k], v.loaded)
        return out

    with sim.knobs(budget=10 ** 9 if cfg.get("override") else None):
        res = world.run(take)
        bad = [(r, x[1]) for r, x in enumerate(res) if x[0] != "ok"]
        if not bad:
            res2 = world.run(restore)
            bad = [(r, x[1]) for r, x in enumerate(res2) if x[0] != "ok"]
            if not bad:
                for r, x in enumerate(res2):
                    for k, d in x[1].items():
                        if d is not None:
                            ctx.fail("restore-wrong-state", f"rank {r} key {k!r} did not get back what it saved: {d}", dict(cfg, user_collectives=True), None, suite=suite)
    for r, e in bad:
        sig = "collective-mismatch" if isinstance(e, sim.Mismatch) else "rank-raised"
        ctx.fail("user-" + sig, f"rank {r}: {type(e).__name__}: {str(e)[:300]}", dict(cfg, user_collectives=True), None, suite=suite)
        break
    ctx.count("user_collectives.jobs")
    if cfg.get("big"):
        ctx.count("user_collectives.big_manifest")
    ctx.case(suite, cfg, nontrivial=True, key=cfg)


def gen_user_collective_cfg(rng, big: bool = False) -> Dict[str, Any]:
    W = rng.choice([2, 2, 3])
    shared = rng.sample(["model", "optim", "zshared"], rng.randint(1, 2))
    order = []
    bigmap = {}
    for r in range(W):
        excl = [k for k in rng.sample(["aprog", "progress", "zlast", "mid%", "n/k"], rng.randint(0, 2))]
        excl = [f"{k}{r}" if rng.random() < 0.5 else k for k in excl]
        ks = shared + excl
        rng.shuffle(ks)
        order.append(ks)
    if big:
        r = rng.randrange(W)
        order[r].append("bigstate")
        bigmap["bigstate"] = 1100
    return {"W": W, "shared": shared, "order": order, "async": rng.random() < 0.4, "override": rng.random() < 0.5, "big": bigmap}


def run(ctx: Ctx):
    for i in range(ctx.n(24, 300)):
        user_collective_case(ctx, gen_user_collective_cfg(ctx.rng, big=(i % 8 == 0)))
    # the runner's deadline counts the Lean build; on a loaded machine keep at least 60% of the budget for the cases
    import time
    import os as _os
    _b = float(_os.environ.get("VERIF_BUDGET_S", "0")) or (BUDGET_S[0] if ctx.quick else BUDGET_S[1])
    ctx.deadline = max(ctx.deadline, time.time() + 0.6 * _b)
    for cfg in CORPUS:
        nt = run_config(ctx, cfg)
        ctx.case("corpus", cfg, nontrivial=nt, key=cfg)
    # bounded-exhaustive small scope: quick 2 keys x W=2; thorough 3 keys x W<=3 (W=3 with the override unset,
    # the case in which the hostname all-gather exists)
    scopes = [exhaustive_configs(["a", "b"], [2])] if ctx.quick else [exhaustive_configs(["a", "b", "c"], [1, 2])]
    done = 0

    def sweep(scope, reserve):
        nonlocal done
        for cfg in scope:
            if ctx.time_left() < reserve:
                ctx.notes.append(f"exhaustive scope stopped early after {done} configurations")
                return
            nt = run_config(ctx, cfg)
            ctx.case("exhaustive_small", cfg, nontrivial=nt, key=cfg)
            done += 1

    for sc in scopes:
        sweep(sc, 30)
    n = ctx.n(80, 600)
    for i in range(n):
        if ctx.time_left() < 8:
            ctx.notes.append(f"random suite stopped early at {i}/{n}")
            break
        cfg = gen_config(ctx.rng)
        nt = run_config(ctx, cfg)
        ctx.case("random_jobs", cfg, nontrivial=nt, key=cfg)
    if not ctx.quick or os.environ.get("VERIF_C12_GLOO"):
        for i, cfg in enumerate(GLOO_CONFIGS):
            if ctx.time_left() < 90:
                ctx.notes.append(f"real gloo suite stopped early at {i}")
                break
            run_gloo(ctx, cfg, i)
    if not ctx.quick:
        sweep(exhaustive_configs(["a", "b", "c"], [3], overrides=("unset",)), 10)
    ctx.notes.append(f"exhaustive scope: {done} configurations")


# ----------------------------------------------------------------------------------------------
# real gloo (multi-process) — validates that the fake process group does not mask behaviour
# ----------------------------------------------------------------------------------------------

GLOO_CONFIGS: List[Dict[str, Any]] = [
    {"W": 2, "override": "unset", "nobatch": False, "async": False,
     "ranks": [{"keys": ["a"], "rng": [], "restore": ["a"], "restore_rng": False},
               {"keys": ["b"], "rng": ["rng"], "restore": ["b"], "restore_rng": True}]},
    {"W": 2, "override": "unset", "nobatch": True, "async": True,
     "ranks": [{"keys": [], "rng": [], "restore": [], "restore_rng": False},
               {"keys": ["b", "a"], "rng": ["r"], "restore": ["a"], "restore_rng": True}]},
    {"W": 3, "override": "unset", "nobatch": False, "async": False,
     "ranks": [{"keys": ["a", "b", "c"], "rng": [], "restore": ["a", "b", "c"], "restore_rng": False},
               {"keys": ["a", "b"], "rng": ["rng"], "restore": ["b"], "restore_rng": True},
               {"keys": ["a"], "rng": [], "restore": [], "restore_rng": False}]},
    {"W": 3, "override": "set", "nobatch": False, "async": True,
     "ranks": [{"keys": [], "rng": ["rng"], "restore": [], "restore_rng": True},
               {"keys": ["c"], "rng": [], "restore": ["c"], "restore_rng": False},
               {"keys": ["b"], "rng": ["rng"], "restore": ["b"], "restore_rng": False}]},
    {"W": 2, "override": "garbage", "nobatch": False, "async": False,
     "ranks": [{"keys": ["b"], "rng": ["a"], "restore": ["b"], "restore_rng": True},
               {"keys": ["a"], "rng": [], "restore": ["a"], "restore_rng": False}]},
]


def run_gloo(ctx: Ctx, cfg: Dict[str, Any], idx: int, verbose: bool = False):
    import json
    import shutil
    import subprocess
    import sys
    from common import OUT_DIR, REPO
    W = cfg["W"]
    root = os.path.join(OUT_DIR, f"c12_gloo_{os.getpid()}_{idx}")
    shutil.rmtree(root, ignore_errors=True)
    os.makedirs(root)
    cfg_path = os.path.join(root, "cfg.json")
    json.dump(cfg, open(cfg_path, "w"))
    worker = os.path.join(os.path.dirname(os.path.abspath(__file__)), "c12_gloo_worker.py")
    env = dict(os.environ, VERIF_REPO=REPO)
    procs = [subprocess.Popen([sys.executable, worker, cfg_path, str(r), str(W), os.path.join(root, "init"), root,
                               os.path.join(root, f"out{r}.json")], env=env, stdout=subprocess.PIPE, stderr=subprocess.STDOUT)
             for r in range(W)]
    outs, timed_out = [], False
    import time
    import sim as _sim
    t_end = time.time() + 3 * _sim.wait_limit()   # watchdog (60 s, scaled with machine load): a collective mismatch is a hang on a real process group
    for p in procs:
        try:
            o, _ = p.communicate(timeout=max(1, t_end - time.time()))
        except subprocess.TimeoutExpired:
            timed_out = True
            p.kill()
            o, _ = p.communicate()
        outs.append(o.decode("utf-8", "replace")[-600:])
    res = []
    for r in range(W):
        f = os.path.join(root, f"out{r}.json")
        res.append(json.load(open(f)) if os.path.exists(f) else None)
    full = dict(cfg, gloo=True)
    if timed_out or any(x is None for x in res):
        ctx.fail("gloo-hang-or-crash", "real gloo job did not complete within the watchdog on every rank (hang = collective mismatch)", full,
                 {"timed_out": timed_out, "tails": outs})
    else:
        for r, x in enumerate(res):
            if not x["ok"]:
                ctx.fail("gloo-wrong-state", f"rank {r}: {x['problems']}", full, x["problems"])
        for ph in ("take", "restore"):
            if any(x[ph] != res[0][ph] for x in res):
                ctx.fail(f"gloo-{ph}-ranks-differ", "ranks logged different collective sequences on real gloo", full,
                         {str(r): x[ph] for r, x in enumerate(res)})
        if ctx.driver:
            for ph, mode in (("take", "async_take" if cfg["async"] else "take"), ("restore", "restore")):
                ranks = [dict(rd, kinds={}, replicated=[]) for rd in cfg["ranks"]]
                rep = ctx.driver.call({"op": "coll_world", "mode": mode, "locals": _model_locals(ranks, ph),
                                       "cfg": {"override": cfg["override"] == "set", "nobatch": cfg["nobatch"], "nopart": False, "bootstrap": False}})
                for r in range(W):
                    if rep["ranks"][r]["kinds"] != res[r][ph]:
                        ctx.disagree("real_gloo", full, {"rank": r, ph: res[r][ph]}, {"rank": r, ph: rep["ranks"][r]["kinds"]})
    if verbose:
        for r in range(W):
            print("rank", r, res[r] if res[r] else outs[r])
    shutil.rmtree(root, ignore_errors=True)
    ctx.count("gloo.jobs")
    ctx.case("real_gloo", full, nontrivial=True, key=full)


def replay(ctx: Ctx, rec):
    cfg = rec["input"]
    if cfg.get("user_collectives"):
        user_collective_case(ctx, {k: v for k, v in cfg.items() if k != "user_collectives"}, "replay")
        for f in ctx.failures[:5]:
            print("FAIL", f["sig"], f["what"])
        return
    if "cfg" in cfg and "W" not in cfg:
        cfg = cfg["cfg"]
    if cfg.get("gloo"):
        run_gloo(ctx, {k: v for k, v in cfg.items() if k != "gloo"}, 0, verbose=True)
        return
    print("configuration:", cfg)
    run_config(ctx, cfg, verbose=True)


LEVEL_TEXT = ("Lean 4 theorems (unbounded in world size, key sets, key names, leaf kinds, which ranks hold an RNGState, knobs): the "
              "collective sequence of take / async_take / restore of any valid rank equals a function of the global inputs only, so any "
              "two ranks of any job agree; one barrier per global key; the hostname all-gather happens once, outside the per-key loop; a "
              "key is state_dict'ed / loaded exactly once by exactly the ranks that registered it; the pre-D8 restore is proved to "
              "diverge on two concrete jobs. The model mirrors every PGWrapper call site and is tied to the real code on every run by "
              "comparing per-rank event sequences recorded by the fake process group; the oracle (no mismatch, all ranks complete, "
              "identical sequences, each rank gets back what it saved) is evaluated on the real code.")
LEVEL_NOTE = ("Trusted: Lean kernel (+propext, Classical.choice, Quot.sound), the hand model lean/TsModel/Collective.lean, the "
              "simulator's fake process group (atomic rendezvous). Real gloo runs are not part of this check. User collectives inside "
              "state_dict() are outside the model.")
TECHNIQUE = "Lean 4 proof over executable model (trace independence) + differential correspondence of per-rank collective/event sequences + oracle in the multi-rank simulator"
