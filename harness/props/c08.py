"""C08 — Resharding: any saved sharding loads correctly into any target sharding."""
from __future__ import annotations

import asyncio
import itertools
import random
from concurrent.futures import ThreadPoolExecutor

from common import Ctx

PROP = "C08"
LEAN_MODULE = "TsProofs.Properties.C08"
THEOREMS = [
    "Ts.Shard.C08_region_correct",
    "Ts.Shard.C08_subdivide_partition",
    "Ts.Shard.C08_write_preserves",
    "Ts.Shard.C08_reshard",
    "Ts.Shard.C08_reshard_all",
    "Ts.Shard.C08_dense",
    "Ts.Shard.C08_dense_full",
    "Ts.Shard.C08_write_then_load",
    "Ts.Shard.C08_order_independent",
    "Ts.Shard.C08_tensor_shape",
    "Ts.Shard.C08_skip_sound",
    "Ts.Shard.C08_witness_empty_shard_raises",
]
BUDGET_S = (75, 840)
RULE = ("overlap: box pairs (1-3 dims, offsets 0..9, sizes 1..9 plus a zero-size stream) through torch's "
        "_check_shard_metadata_pair_overlap and the real _shards_get_overlap_region_wrt_saved_tensor vs the Lean "
        "overlaps/overlapRegion, with a brute-force index-set oracle; subdivide: real subdivide_shard on real tensors "
        "(9 dtypes, every dim, thresholds 1 B .. > shard bytes, plus <=0 / empty-shard / bad-dim error stream) vs Lean "
        "subdivide, oracle = exact partition + view contents; reshard: real ShardedTensors in a 1-rank gloo group with "
        "grid / guillotine local-shard layouts, real prepare_write under max-shard-size overrides, write requests "
        "executed into a dict, entry shuffled / partially dropped, real prepare_read into another sharding (same or "
        "different global shape) / dense / smaller-or-larger dense / obj_out=None, read requests executed in shuffled "
        "order; every destination element compared with the saved global tensor or the sentinel (oracle), per-request "
        "written sets compared with the saved boxes (unique writer), and everything compared with the Lean "
        "prepareWrite/reshard/wrote prediction; tensor_shape: real ShardedTensorEntry.get_tensor_shape on shuffled partitions / arbitrary "
        "box lists vs Lean tensorShape. Bounded-exhaustive: all 1-d box pairs over [0,5), all grid-partition "
        "pairs of small shapes. Non-trivial = overlapping pair / >=2 sub-shards / source and destination layouts differ.")
TRUSTED = ["torch: narrow, copy_, contiguous row-major layout, ShardedTensor construction/validation, "
           "torch's _check_shard_metadata_pair_overlap (modelled and compared, not verified)",
           "TensorIOPreparer (de)serialisation of one tensor (subject of C17)"]
ASSUMPTIONS = ["all box sizes > 0 (an empty shard makes subdivide_shard raise ZeroDivisionError: D16, outside the domain)",
               "non-negative sharding dim; math.floor(a/b), math.ceil(a/b) exact (operands < 2^53)",
               "local shard tensors of a ShardedTensor are distinct objects (no aliasing between local shards)"]
LEVEL_TEXT = ("Lean 4 theorems for any number of dimensions, shards and sizes: the overlap region is exact per dimension; "
              "subdivide_shard is an exact partition along dim for every positive threshold; prepare_write persists "
              "disjoint shards holding the global tensor; loading pairwise-disjoint saved shards into any local shard "
              "or dense tensor sets every element covered by a saved box to the global value, written by exactly that "
              "one shard, and leaves every other element untouched, independent of request order. Tied to the real "
              "ShardedTensorIOPreparer by differential runs on every check.")
LEVEL_NOTE = ("Trusted: Lean kernel (+propext, Classical.choice, Quot.sound), the hand model lean/TsModel/Shard.lean, the "
              "harness; torch narrow/copy_/layout and tensor (de)serialisation are assumed and sampled, not proved.")
TECHNIQUE = "Lean 4 proof over executable box/narrow/copy model + differential correspondence with the real io_preparer"

DTYPES = ["float32", "float64", "int64", "int32", "int16", "uint8", "int8", "float16", "bfloat16"]
SMALL = {"uint8", "int8", "bfloat16"}
ELEM = {"float32": 4, "float64": 8, "int64": 8, "int32": 4, "int16": 2, "uint8": 1, "int8": 1, "float16": 2, "bfloat16": 2}

# Minimised inputs that caught hand-made mutants (run first on every check).
CORPUS = [
    {"kind": "overlap", "saved": [[2], [5]], "current": [[4], [6]]},
    {"kind": "overlap", "saved": [[4, 0], [3, 2]], "current": [[1, 1], [5, 4]]},
    {"kind": "overlap", "saved": [[0, 3, 1], [2, 2, 2]], "current": [[1, 0, 2], [3, 4, 1]]},
    {"kind": "subdivide", "offsets": [3, 1], "sizes": [5, 3], "dim": 0, "max": 24, "dtype": "float32"},
    {"kind": "subdivide", "offsets": [3, 1], "sizes": [5, 3], "dim": 1, "max": 41, "dtype": "int64"},
    {"kind": "subdivide", "offsets": [0], "sizes": [7], "dim": 0, "max": 3, "dtype": "uint8"},
    {"kind": "tshape", "boxes": [[[1, 2], [3, 3]], [[0, 0], [1, 5]], [[1, 0], [3, 2]]], "partition_of": [4, 5]},
    {"kind": "reshard", "shape": [5], "dtype": "float32", "src": [[[0], [2]], [[2], [3]]], "spec_dim": None, "max": 4,
     "perm_seed": 1, "drop": [], "dst": {"type": "sharded", "shape": [5], "boxes": [[[0], [3]], [[3], [2]]]}, "order_seed": 1, "executor": False},
    {"kind": "reshard", "shape": [4, 5], "dtype": "int32", "src": [[[0, 0], [1, 5]], [[1, 0], [3, 2]], [[1, 2], [3, 3]]],
     "spec_dim": None, "max": 8, "perm_seed": 3, "drop": [], "dst": {"type": "dense", "shape": [3, 6]}, "order_seed": 2, "executor": False},
    {"kind": "reshard", "shape": [3, 4], "dtype": "float64", "src": [[[0, 0], [3, 1]], [[0, 1], [3, 3]]], "spec_dim": 1, "max": 24,
     "perm_seed": 0, "drop": [1], "dst": {"type": "sharded", "shape": [4, 3], "boxes": [[[0, 0], [1, 3]], [[1, 0], [3, 3]]]},
     "order_seed": 5, "executor": True},
    {"kind": "reshard", "shape": [2, 3, 2], "dtype": "uint8", "src": [[[0, 0, 0], [2, 1, 2]], [[0, 1, 0], [2, 2, 2]]], "spec_dim": None,
     "max": 1, "perm_seed": 7, "drop": [], "dst": {"type": "none"}, "order_seed": 0, "executor": False},
]

_state = {}


def _setup():
    """1-rank gloo group (needed by ShardedTensor), one event loop, one executor."""
    if _state:
        return _state
    import torch
    import torch.distributed as dist
    if not dist.is_initialized():
        dist.init_process_group("gloo", store=dist.HashStore(), rank=0, world_size=1)
    _state["loop"] = asyncio.new_event_loop()
    _state["pool"] = ThreadPoolExecutor(max_workers=2)
    _state["torch"] = torch
    return _state


# ------------------------------------------------------------------------------------------
# small helpers
# ------------------------------------------------------------------------------------------

def _indices(offsets, sizes):
    return itertools.product(*[range(o, o + s) for o, s in zip(offsets, sizes)])


def _err_name(e: BaseException) -> str:
    n = type(e).__name__
    return n if n in ("ValueError", "TypeError", "IndexError", "ZeroDivisionError") else "Other:" + n


def _gval(dtype: str, shape, gidx) -> int:
    lin = 0
    for s, i in zip(shape, gidx):
        lin = lin * s + i
    return 1 + (lin % 97 if dtype in SMALL else lin)


def _sentinel(dtype: str) -> int:
    return 120 if dtype in SMALL else 30000


def _tdtype(dtype: str):
    import torch
    return getattr(torch, dtype)


def _global_tensor(dtype, shape):
    import torch
    vals = [_gval(dtype, shape, g) for g in _indices([0] * len(shape), shape)]
    return torch.tensor(vals, dtype=torch.float64).reshape(shape).to(_tdtype(dtype))


def _flat_ints(t):
    import torch
    return [int(v) for v in t.detach().to(torch.float64).reshape(-1).tolist()]


def _slices(offsets, sizes):
    return tuple(slice(o, o + s) for o, s in zip(offsets, sizes))


def _md(offsets, sizes):
    from torch.distributed._shard.sharded_tensor import ShardMetadata
    return ShardMetadata(shard_offsets=list(offsets), shard_sizes=list(sizes), placement="rank:0/cpu")


def _build_st(shape, boxes, dtype, tensors, spec_dim):
    """A real ShardedTensor whose local shards are exactly `boxes` (all on rank 0)."""
    import torch
    from torch.distributed._shard.sharded_tensor import Shard, ShardedTensor, ShardedTensorMetadata
    from torch.distributed._shard.sharded_tensor.metadata import TensorProperties
    from torch.distributed._shard.sharding_spec import ChunkShardingSpec
    shards = [Shard(tensor=t, metadata=_md(o, s)) for (o, s), t in zip(boxes, tensors)]
    md = ShardedTensorMetadata(
        shards_metadata=[s.metadata for s in shards], size=torch.Size(shape),
        tensor_properties=TensorProperties(dtype=_tdtype(dtype), layout=torch.strided, requires_grad=False,
                                           memory_format=torch.contiguous_format, pin_memory=False))
    spec = None if spec_dim is None else ChunkShardingSpec(dim=spec_dim, placements=["rank:0/cpu"])
    return ShardedTensor._init_from_local_shards_and_global_metadata(shards, md, sharding_spec=spec)


# ------------------------------------------------------------------------------------------
# generators
# ------------------------------------------------------------------------------------------

def _rand_cuts(rng, n, p=None):
    """a composition of n: list of (start, len) intervals"""
    p = rng.choice([0.0, 0.2, 0.5, 0.8, 1.0]) if p is None else p
    cuts = [0] + [c for c in range(1, n) if rng.random() < p] + [n]
    return [(a, b - a) for a, b in zip(cuts, cuts[1:])]


def _grid(per_dim):
    return [[[iv[0] for iv in combo], [iv[1] for iv in combo]] for combo in itertools.product(*per_dim)]


def _rand_grid(rng, shape):
    return _grid([_rand_cuts(rng, n) for n in shape])


def _rand_guillotine(rng, shape, max_boxes=10):
    """recursive axis-aligned splits: more general than a grid (T-junctions, uneven pieces)"""
    boxes = [([0] * len(shape), list(shape))]
    for _ in range(rng.randint(0, max_boxes - 1)):
        k = rng.randrange(len(boxes))
        o, s = boxes[k]
        dims = [d for d in range(len(s)) if s[d] >= 2]
        if not dims:
            continue
        d = rng.choice(dims)
        c = rng.randint(1, s[d] - 1)
        s1, s2 = list(s), list(s)
        o2 = list(o)
        s1[d], s2[d], o2[d] = c, s[d] - c, o[d] + c
        boxes[k:k + 1] = [(o, s1), (o2, s2)]
    rng.shuffle(boxes)
    return [[list(o), list(s)] for o, s in boxes]


def _rand_layout(rng, shape):
    return _rand_grid(rng, shape) if rng.random() < 0.5 else _rand_guillotine(rng, shape)


def _rand_shape(rng, maxdim=9):
    nd = rng.choice([1, 2, 2, 3])
    hi = {1: maxdim, 2: maxdim, 3: 5}[nd]
    return [rng.randint(1, hi) for _ in range(nd)]


def _all_grids(shape):
    per_dim = []
    for n in shape:
        comps = []
        for mask in range(1 << (n - 1)):
            cuts = [0] + [c for c in range(1, n) if mask >> (c - 1) & 1] + [n]
            comps.append([(a, b - a) for a, b in zip(cuts, cuts[1:])])
        per_dim.append(comps)
    return [_grid(list(c)) for c in itertools.product(*per_dim)]


# ------------------------------------------------------------------------------------------
# suite 1: overlap predicate + region (per-function differential + brute-force oracle)
# ------------------------------------------------------------------------------------------

def _case_overlap(ctx: Ctx, inp, suite="overlap_region"):
    from torch.distributed._shard.sharding_spec._internals import _check_shard_metadata_pair_overlap
    from torchsnapshot.io_preparers.sharded_tensor import ShardedTensorIOPreparer as P
    (so, ss), (co, cs) = inp["saved"], inp["current"]
    smd, cmd = _md(so, ss), _md(co, cs)
    ov = bool(_check_shard_metadata_pair_overlap(cmd, smd))
    region = [list(map(int, t)) for t in P._shards_get_overlap_region_wrt_saved_tensor(saved_shard=smd, current_shard=cmd)]
    impl = {"overlaps": ov, "region": region}
    # oracle: index sets
    inter = set(_indices(so, ss)) & set(_indices(co, cs))
    nonempty = all(s > 0 for s in ss + cs)
    if nonempty and ov != bool(inter):
        ctx.fail("overlap-pred-wrong", "pair-overlap predicate disagrees with the index-set intersection", inp,
                 {"overlaps": ov, "intersection_size": len(inter)}, suite)
    if inter:
        if len(region) != len(so) or [t[0] for t in region] != list(range(len(so))):
            ctx.fail("region-wrong", "region does not have one tuple per dimension", inp, impl, suite)
        else:
            src_set = set(itertools.product(*[range(so[k] + t[1], so[k] + t[1] + t[3]) for k, t in enumerate(region)]))
            dst_set = set(itertools.product(*[range(co[k] + t[2], co[k] + t[2] + t[3]) for k, t in enumerate(region)]))
            inside = all(t[1] >= 0 and t[2] >= 0 and t[3] > 0 and t[1] + t[3] <= ss[k] and t[2] + t[3] <= cs[k]
                         for k, t in enumerate(region))
            if src_set != inter or dst_set != inter or not inside:
                ctx.fail("region-wrong", "overlap region is not the intersection of the two boxes (seen from either shard)",
                         inp, impl, suite)
    if ctx.driver:
        rep = ctx.driver.call({"op": "overlap_region", "saved": {"offsets": so, "sizes": ss},
                               "current": {"offsets": co, "sizes": cs}})
        if rep != impl:
            ctx.disagree(suite, inp, impl, rep)
    ctx.count("overlap." + ("overlapping" if inter else "disjoint"))
    ctx.count(f"overlap.ndim{len(so)}")
    if not nonempty:
        ctx.count("overlap.zero_size")
    ctx.case(suite, inp, nontrivial=bool(inter), key=inp)


def _rand_box(rng, nd, lo_size=1):
    return [[rng.randint(0, 9) for _ in range(nd)], [rng.randint(lo_size, 9) for _ in range(nd)]]


def _overlap_suite(ctx: Ctx):
    rng = ctx.rng
    # bounded-exhaustive: every pair of non-empty 1-d boxes inside [0, N)
    N = 5 if ctx.quick else 7
    boxes = [(o, s) for o in range(N) for s in range(1, N - o + 1)]
    for (o1, s1), (o2, s2) in itertools.product(boxes, boxes):
        _case_overlap(ctx, {"kind": "overlap", "saved": [[o1], [s1]], "current": [[o2], [s2]]}, "overlap_exhaustive_1d")
    if not ctx.quick:
        b2 = [([o1, o2], [s1, s2]) for o1 in range(3) for s1 in range(1, 4 - o1) for o2 in range(3) for s2 in range(1, 4 - o2)]
        for (oa, sa), (ob, sb) in itertools.product(b2, b2):
            _case_overlap(ctx, {"kind": "overlap", "saved": [oa, sa], "current": [ob, sb]}, "overlap_exhaustive_2d")
            if ctx.time_left() < 60:
                break
    for _ in range(ctx.n(600, 8000)):
        nd = rng.choice([1, 2, 2, 3, 3])
        a = _rand_box(rng, nd)
        if rng.random() < 0.6:   # bias towards overlapping / touching pairs with unaligned cuts
            b = [[max(0, a[0][k] + rng.randint(-4, 4)) for k in range(nd)], [rng.randint(1, 9) for _ in range(nd)]]
        else:
            b = _rand_box(rng, nd)
        _case_overlap(ctx, {"kind": "overlap", "saved": a, "current": b})
    for _ in range(ctx.n(40, 400)):   # zero-size stream: correspondence only (outside the property's domain)
        nd = rng.choice([1, 2, 3])
        _case_overlap(ctx, {"kind": "overlap", "saved": _rand_box(rng, nd, 0), "current": _rand_box(rng, nd, 0)}, "overlap_zero_size")


# ------------------------------------------------------------------------------------------
# suite 2: subdivide_shard
# ------------------------------------------------------------------------------------------

def _case_subdivide(ctx: Ctx, inp, suite="subdivide"):
    import torch
    from torchsnapshot.io_preparers.sharded_tensor import ShardedTensorIOPreparer as P
    offsets, sizes, dim, mx, dtype = inp["offsets"], inp["sizes"], inp["dim"], inp["max"], inp["dtype"]
    numel = 1
    for s in sizes:
        numel *= s
    shard = (torch.arange(numel, dtype=torch.float64) % 97).reshape(sizes).to(_tdtype(dtype))
    valid = len(offsets) == len(sizes) and len(sizes) > 0 and 0 <= dim < len(sizes) and mx > 0 and all(s > 0 for s in sizes)
    try:
        # a sharding dim may be given from the end (ChunkShardingSpec(dim=-1)): same dimension, negative spelling
        real_dim = dim - len(sizes) if (inp.get("neg") and valid) else dim
        res = P.subdivide_shard(shard=shard, offsets=list(offsets), sizes=list(sizes), dim=real_dim, max_shard_sz_bytes=mx)
        impl = {"subs": [[o[dim] - offsets[dim], z[dim], list(o), list(z)] for _, o, z in res]}
    except Exception as e:  # noqa: BLE001
        res, impl = None, {"err": _err_name(e)}
    if valid:
        if res is None:
            ctx.fail("subdivide-raises", "subdivide_shard raised on a non-empty shard with a positive threshold", inp, impl, suite)
        else:
            # oracle: exact partition, non-empty, only `dim` differs, views hold the right slice
            seen = {}
            ok = len(res) > 0
            for k, (view, o, z) in enumerate(res):
                if len(o) != len(sizes) or any(x <= 0 for x in z) or list(view.shape) != list(z):
                    ok = False
                    break
                for d in range(len(sizes)):
                    if d != dim and (o[d] != offsets[d] or z[d] != sizes[d]):
                        ok = False
                for g in _indices(o, z):
                    if g in seen:
                        ok = False
                    seen[g] = k
                exp = shard[_slices([o[d] - offsets[d] for d in range(len(o))], z)]
                if not torch.equal(view, exp):
                    ok = False
            if ok and set(seen) != set(_indices(offsets, sizes)):
                ok = False
            if not ok:
                ctx.fail("subdivide-not-partition", "sub-shards are not an exact partition of the shard along dim "
                         "(gap, overlap, empty piece, other dim changed, or view holds the wrong slice)", inp, impl, suite)
            ctx.count("subdivide.pieces." + ("1" if len(res) == 1 else "2-3" if len(res) <= 3 else "4+"))
            if len(res) > 1 and res[-1][2][dim] != res[0][2][dim]:
                ctx.count("subdivide.uneven_tail")
    else:
        ctx.count("subdivide.err." + impl.get("err", "none"))
    if ctx.driver and 0 <= dim:
        rep = ctx.driver.call({"op": "subdivide", "offsets": offsets, "sizes": sizes, "dim": dim, "max": mx, "elem": ELEM[dtype]})
        if rep != impl:
            ctx.disagree(suite, inp, impl, rep)
    ctx.count(f"subdivide.dim{dim}")
    ctx.case(suite, inp, nontrivial=bool(res) and len(res) >= 2, key=inp)


def _thresholds(rng, sizes, dim, elem):
    numel = 1
    for s in sizes:
        numel *= s
    slice_b = max(numel // max(sizes[dim], 1) * elem, 1)
    return [1, elem, slice_b - 1 or 1, slice_b, slice_b + 1, 2 * slice_b, 2 * slice_b + rng.randint(0, slice_b), 3 * slice_b - 1,
            max(numel * elem - 1, 1), numel * elem, numel * elem + 1, rng.randint(1, numel * elem + 8), 512 * 1024 * 1024]


def _subdivide_suite(ctx: Ctx):
    rng = ctx.rng
    # bounded-exhaustive: every 1-d / 2-d shard up to 6 / 3x4, every dim, every threshold 1..bytes+1 (uint8, int16)
    lim = (5, [2, 3]) if ctx.quick else (8, [3, 4])
    for n in range(1, lim[0] + 1):
        for dtype in ("uint8", "int16"):
            for mx in range(1, n * ELEM[dtype] + 2):
                _case_subdivide(ctx, {"kind": "subdivide", "offsets": [3], "sizes": [n], "dim": 0, "max": mx, "dtype": dtype},
                                "subdivide_exhaustive")
    for a in range(1, lim[1][0] + 1):
        for b in range(1, lim[1][1] + 1):
            for dim in (0, 1):
                for mx in range(1, a * b + 2):
                    _case_subdivide(ctx, {"kind": "subdivide", "offsets": [1, 2], "sizes": [a, b], "dim": dim, "max": mx,
                                          "dtype": "uint8"}, "subdivide_exhaustive")
    for _ in range(ctx.n(500, 6000)):
        nd = rng.choice([1, 2, 2, 3])
        offsets, sizes = _rand_box(rng, nd)
        dim = rng.randrange(nd)
        dtype = rng.choice(DTYPES)
        mx = rng.choice(_thresholds(rng, sizes, dim, ELEM[dtype]))
        _case_subdivide(ctx, {"kind": "subdivide", "offsets": offsets, "sizes": sizes, "dim": dim, "max": mx, "dtype": dtype,
                              "neg": rng.random() < 0.3})
    for _ in range(ctx.n(40, 400)):   # error stream
        nd = rng.choice([1, 2, 3])
        offsets, sizes = _rand_box(rng, nd, 0)
        mode = rng.randrange(4)
        dim, mx = rng.randrange(nd), rng.randint(1, 64)
        if mode == 0:
            mx = rng.choice([0, -1, -100])
        elif mode == 1:
            sizes[rng.randrange(nd)] = 0
        elif mode == 2:
            dim = nd + rng.randint(0, 2)
        _case_subdivide(ctx, {"kind": "subdivide", "offsets": offsets, "sizes": sizes, "dim": dim, "max": mx,
                              "dtype": rng.choice(DTYPES)}, "subdivide_errors")


# ------------------------------------------------------------------------------------------
# suite 3: system level — real prepare_write -> dict -> real prepare_read
# ------------------------------------------------------------------------------------------

def _run_reqs(st, entry_store, reqs, order, use_pool):
    async def go():
        for i in order:
            rr = reqs[i]
            buf = entry_store[rr.path]
            if rr.byte_range is not None:
                buf = buf[rr.byte_range[0]:rr.byte_range[1]]
            await rr.buffer_consumer.consume_buffer(buf, st["pool"] if use_pool else None)
    st["loop"].run_until_complete(go())


def _case_reshard(ctx: Ctx, inp, suite="reshard", verbose=False):
    import torch
    from torchsnapshot.io_preparers.sharded_tensor import ShardedTensorIOPreparer as P
    from torchsnapshot.knobs import override_max_shard_size_bytes
    from torchsnapshot.manifest import ShardedTensorEntry
    from torch.distributed._shard.sharded_tensor import ShardedTensor
    from torch.distributed._shard.sharding_spec import ChunkShardingSpec
    import contextlib

    st = _setup()
    shape, dtype, src_boxes = inp["shape"], inp["dtype"], inp["src"]
    G = _global_tensor(dtype, shape)
    elem = ELEM[dtype]

    def bad(sig, what, observed=None):
        ctx.fail(sig, what, inp, observed, suite)

    # ---- write side ------------------------------------------------------------------------
    src_tensors = [G[_slices(o, s)].clone().contiguous() for o, s in src_boxes]
    src = _build_st(shape, src_boxes, dtype, src_tensors, inp.get("spec_dim"))
    spec = src.sharding_spec()
    dim = spec.dim if isinstance(spec, ChunkShardingSpec) else 0
    if not isinstance(dim, int) or dim < 0:
        return
    mx = inp.get("max")
    cm = override_max_shard_size_bytes(mx) if mx is not None else contextlib.nullcontext()
    try:
        with cm:
            entry, wrs = P.prepare_write("st", src)
        if inp.get("batch") is not None:
            # Snapshot.take's default path: small shard writes are packed into slabs, so several shards of one
            # tensor share a file and differ only by byte range
            from torchsnapshot.batcher import batch_write_requests
            _, wrs = batch_write_requests(entries=[entry], write_reqs=wrs, slab_size_threshold_bytes=inp["batch"])
        store = {}

        async def write_all():
            for wr in wrs:
                store[wr.path] = bytes(await wr.buffer_stager.stage_buffer())
        st["loop"].run_until_complete(write_all())
    except Exception as e:  # noqa: BLE001
        bad("reshard-write-raises", "prepare_write / staging raised on a valid sharded tensor", {"err": repr(e)[:300]})
        ctx.case(suite, inp, nontrivial=False)
        return
    # source tensors must not be disturbed by writing
    for (o, s), t in zip(src_boxes, src_tensors):
        if not torch.equal(t, G[_slices(o, s)]):
            bad("reshard-write-mutates-source", "prepare_write changed a source shard")
    # what was persisted, decoded independently of prepare_read: one buffer per persisted shard
    from torchsnapshot.io_preparers.tensor import TensorBufferConsumer
    saved_impl = []
    # a persisted shard is identified by (location, byte range): with slab batching several shards share one object
    paths = [(sh.tensor.location, tuple(sh.tensor.byte_range) if sh.tensor.byte_range else None) for sh in entry.shards]
    for sh in entry.shards:
        buf = store.get(sh.tensor.location)
        if buf is None:
            bad("reshard-write-missing", "a manifest shard has no write request", {"location": sh.tensor.location})
            ctx.case(suite, inp, nontrivial=False)
            return
        if sh.tensor.byte_range is not None:
            buf = buf[sh.tensor.byte_range[0]:sh.tensor.byte_range[1]]
        try:
            t = TensorBufferConsumer.deserialize_tensor(buf=buf, entry=sh.tensor)
            if list(t.shape) != list(sh.sizes):
                raise ValueError(f"persisted tensor shape {list(t.shape)} != shard sizes {list(sh.sizes)}")
        except Exception as e:  # noqa: BLE001
            bad("reshard-saved-undecodable", "the bytes written for a persisted shard do not decode to a tensor of the shard's shape",
                {"location": sh.tensor.location, "err": repr(e)[:200], "paths": paths})
            ctx.case(suite, inp, nontrivial=False)
            return
        saved_impl.append({"offsets": list(sh.offsets), "sizes": list(sh.sizes), "data": _flat_ints(t)})
    if len(set(paths)) != len(paths):
        bad("reshard-write-alias", "two persisted shards share a storage location and byte range", {"paths": paths})
    # oracle (write): persisted boxes partition the tensor and hold G
    seen = set()
    write_ok = True
    for sv in saved_impl:
        idx = list(_indices(sv["offsets"], sv["sizes"]))
        exp = [_gval(dtype, shape, g) for g in idx]
        if sv["data"] != exp or seen & set(idx):
            bad("reshard-saved-wrong", "a persisted shard does not hold the global tensor on its box, or boxes overlap",
                {"box": [sv["offsets"], sv["sizes"]], "data": sv["data"][:40], "expected": exp[:40]})
            write_ok = False
            break
        seen |= set(idx)
    else:
        if seen != set(_indices([0] * len(shape), shape)):
            bad("reshard-saved-incomplete", "persisted shards do not cover the sharded tensor", {"covered": len(seen)})
            write_ok = False
    if ctx.driver:
        rep = ctx.driver.call({"op": "reshard", "src": [
            {"offsets": o, "sizes": s, "data": _flat_ints(t)} for (o, s), t in zip(src_boxes, src_tensors)],
            "dim": dim, "max": mx if mx is not None else 512 * 1024 * 1024, "elem": elem, "dst": []})
        if rep.get("saved") != saved_impl:
            ctx.disagree(suite + ".prepare_write", inp, saved_impl, rep.get("saved", rep))

    if not write_ok:   # the reader's precondition (disjoint shards holding G) is already broken
        ctx.case(suite, inp, nontrivial=False)
        return

    # ---- manifest as the reader sees it: any order, possibly missing shards --------------------
    order = list(range(len(entry.shards)))
    random.Random(inp.get("perm_seed", 0)).shuffle(order)
    drop = set(inp.get("drop") or [])
    order = [i for k, i in enumerate(order) if k not in drop] or order[:1]
    rentry = ShardedTensorEntry(shards=[entry.shards[i] for i in order])
    saved_list = [saved_impl[i] for i in order]
    saved_boxes = [(sv["offsets"], sv["sizes"]) for sv in saved_list]
    loc_to_idx = {(sh.tensor.location, tuple(sh.tensor.byte_range) if sh.tensor.byte_range else None): k for k, sh in enumerate(rentry.shards)}

    # ---- destination --------------------------------------------------------------------------
    dst = inp["dst"]
    sent = _sentinel(dtype)

    def make_dst():
        if dst["type"] == "sharded":
            ts = [torch.full(tuple(s), sent, dtype=_tdtype(dtype)) for _, s in dst["boxes"]]
            return _build_st(dst["shape"], dst["boxes"], dtype, ts, None), ts, dst["boxes"]
        if dst["type"] == "dense":
            t = torch.full(tuple(dst["shape"]), sent, dtype=_tdtype(dtype))
            return t, [t], [[[0] * len(dst["shape"]), list(dst["shape"])]]
        return None, None, None

    def covering(g):
        return [k for k, (o, s) in enumerate(saved_boxes) if all(o[d] <= g[d] < o[d] + s[d] for d in range(len(g)))]

    try:
        obj, tensors, dboxes = make_dst()
        reqs, fut = P.prepare_read(rentry, obj)
        if dst["type"] == "none":
            out = fut.obj
            if type(out) is not torch.Tensor:
                bad("reshard-none-type", "prepare_read(entry, None) did not produce a dense tensor", {"type": str(type(out))})
                ctx.case(suite, inp, nontrivial=False)
                return
            out.fill_(sent)   # torch.empty contents are arbitrary: make "untouched" observable
            tensors, dboxes = [out], [[[0] * out.dim(), list(out.shape)]]
            full = not drop
            if full and list(out.shape) != list(shape):
                bad("reshard-none-shape", "dense tensor created from the entry does not have the saved global shape",
                    {"shape": list(out.shape), "expected": shape})
        rorder = list(range(len(reqs)))
        random.Random(inp.get("order_seed", 0)).shuffle(rorder)
        _run_reqs(st, store, reqs, rorder, bool(inp.get("executor")))
    except Exception as e:  # noqa: BLE001
        bad("reshard-read-raises", "prepare_read / consume_buffer raised", {"err": repr(e)[:300]})
        ctx.case(suite, inp, nontrivial=False)
        return
    if obj is not None and fut.obj is not obj:
        bad("reshard-not-inplace", "prepare_read did not load into the given destination object")

    # ---- oracle on the destination: every element --------------------------------------------------
    impl_dst = [_flat_ints(t) for t in tensors]
    n_loaded = n_kept = 0
    for (o, s), flat in zip(dboxes, impl_dst):
        for pos, g in enumerate(_indices(o, s)):
            cov = covering(g)
            if len(cov) > 1:
                raise RuntimeError("harness: saved boxes overlap")
            got = flat[pos]
            if cov:
                n_loaded += 1
                exp = _gval(dtype, shape, g)
                if got != exp:
                    sig = "reshard-not-loaded" if got == sent else "reshard-wrong-value"
                    bad(sig, "destination element covered by a saved shard does not equal the saved global tensor",
                        {"dst_box": [o, s], "global_index": list(g), "got": got, "expected": exp, "saved_box": saved_boxes[cov[0]]})
                    break
            else:
                n_kept += 1
                if got != sent:
                    bad("reshard-touched-outside", "destination element outside every saved shard was modified",
                        {"dst_box": [o, s], "global_index": list(g), "got": got, "sentinel": sent})
                    break
    # one read request per overlapping persisted shard, each at most once
    req_paths = [(r.path, tuple(r.byte_range) if r.byte_range else None) for r in reqs]
    if len(set(req_paths)) != len(req_paths):
        bad("reshard-duplicate-read", "a persisted shard is read more than once", {"paths": req_paths})

    # ---- unique writer: run each read request alone on a fresh sentinel destination -------------------
    impl_writers = None
    if len(reqs) <= 24 and dst["type"] != "none":
        impl_writers = [[[] for _ in range(len(f))] for f in impl_dst]
        try:
            for i in range(len(reqs)):
                obj2, tensors2, _ = make_dst()
                reqs2, _ = P.prepare_read(rentry, obj2)
                if [(r.path, tuple(r.byte_range) if r.byte_range else None) for r in reqs2] != req_paths:
                    bad("reshard-nondeterministic-plan", "prepare_read produced a different request list on identical input")
                    break
                _run_reqs(st, store, reqs2, [i], False)
                k = loc_to_idx[(reqs2[i].path, tuple(reqs2[i].byte_range) if reqs2[i].byte_range else None)]
                for di, t2 in enumerate(tensors2):
                    for pos, v in enumerate(_flat_ints(t2)):
                        if v != sent:
                            impl_writers[di][pos].append(k)
        except Exception as e:  # noqa: BLE001
            bad("reshard-read-raises", "a single read request raised", {"err": repr(e)[:300]})
            impl_writers = None
        if impl_writers is not None:
            for (o, s), wl in zip(dboxes, impl_writers):
                for pos, g in enumerate(_indices(o, s)):
                    if sorted(wl[pos]) != covering(g):
                        bad("reshard-writer-wrong", "element not written exactly once by the unique saved shard containing it",
                            {"dst_box": [o, s], "global_index": list(g), "writers": wl[pos], "containing": covering(g),
                             "saved_boxes": saved_boxes})
                        break
                wl[:] = [sorted(w) for w in wl]

    # ---- correspondence with the Lean model ------------------------------------------------------
    if ctx.driver:
        q = {"op": "reshard", "saved": saved_list,
             "dst": [{"offsets": o, "sizes": s, "data": [sent] * len(f)} for (o, s), f in zip(dboxes, impl_dst)],
             "dense": dst["type"] != "sharded"}
        rep = ctx.driver.call(q)
        model = {"dst": rep.get("dst", rep)}
        impl = {"dst": impl_dst}
        if impl_writers is not None:
            model["writers"] = rep.get("writers")
            impl["writers"] = impl_writers
        if model != impl:
            ctx.disagree(suite + ".load", inp, impl, model)
        if verbose:
            print("model:", model)
    if verbose:
        print("saved boxes (reader order):", saved_boxes)
        print("impl dst:", list(zip(dboxes, impl_dst)))
        print("impl writers:", impl_writers)

    # ---- statistics -------------------------------------------------------------------------------
    ctx.count("reshard.dst." + dst["type"])
    ctx.count(f"reshard.ndim{len(shape)}")
    ctx.count("reshard.dtype." + dtype)
    ctx.count(f"reshard.sharding_dim{dim}")
    ctx.count("reshard.subdivided" if len(entry.shards) > len(src_boxes) else "reshard.not_subdivided")
    ctx.count("reshard.elements_loaded", n_loaded)
    ctx.count("reshard.elements_kept", n_kept)
    if drop:
        ctx.count("reshard.partial_manifest")
    if dst["type"] != "none" and list(dst["shape"]) != list(shape):
        ctx.count("reshard.shape_differs")
    same_layout = dst["type"] == "sharded" and sorted(map(str, dst["boxes"])) == sorted(map(str, [list(b) for b in saved_boxes]))
    ctx.case(suite, inp, nontrivial=(len(saved_boxes) + len(dboxes) > 2 and not same_layout), key=inp)


def _rand_dst(rng, shape):
    r = rng.random()
    nd = len(shape)
    if r < 0.40:
        return {"type": "sharded", "shape": list(shape), "boxes": _rand_layout(rng, shape)}
    if r < 0.55:
        sh = [max(1, n + rng.randint(-2, 2)) for n in shape]
        return {"type": "sharded", "shape": sh, "boxes": _rand_layout(rng, sh)}
    if r < 0.70:
        return {"type": "dense", "shape": list(shape)}
    if r < 0.92:
        return {"type": "dense", "shape": [max(1, n + rng.randint(-3, 2)) for n in shape]}
    return {"type": "none"}


def _rand_reshard_input(rng):
    shape = _rand_shape(rng)
    dtype = rng.choice(DTYPES)
    src = _rand_layout(rng, shape)
    nd = len(shape)
    numel = 1
    for n in shape:
        numel *= n
    mx = rng.choice([None, 1, ELEM[dtype], 2 * ELEM[dtype], rng.randint(1, 8 * ELEM[dtype]), rng.randint(1, numel * ELEM[dtype] + 4),
                     numel * ELEM[dtype]])
    drop = []
    if rng.random() < 0.2:
        drop = sorted(rng.sample(range(6), rng.randint(1, 3)))
    return {"kind": "reshard", "shape": shape, "dtype": dtype, "src": src,
            "spec_dim": rng.choice([None, None] + list(range(nd))), "max": mx, "perm_seed": rng.randrange(1000), "drop": drop,
            "dst": _rand_dst(rng, shape), "order_seed": rng.randrange(1000), "executor": rng.random() < 0.15,
            "batch": rng.choice([None, None, 10 ** 9, 10 ** 9, numel * ELEM[dtype] + 1, max(numel * ELEM[dtype] // 2, 1)])}


def _reshard_suite(ctx: Ctx):
    rng = ctx.rng
    # bounded-exhaustive: all (source grid, destination grid) pairs of small shapes
    shapes = [[4], [2, 3], [2, 2, 2]] if ctx.quick else [[5], [4, 4], [3, 3, 2], [2, 5]]
    for shape in shapes:
        grids = _all_grids(shape)
        numel = 1
        for s in shape:
            numel *= s
        done = 0
        for gs, gd in itertools.product(grids, grids):
            if ctx.time_left() < (15 if ctx.quick else 120):
                ctx.notes.append(f"exhaustive grid pairs of shape {shape} stopped early after {done}/{len(grids) ** 2}")
                break
            mx = rng.choice([None, 1, 2, rng.randint(1, numel + 1)])
            _case_reshard(ctx, {"kind": "reshard", "shape": shape, "dtype": "uint8", "src": gs, "spec_dim": rng.choice([None] + list(range(len(shape)))),
                                "max": mx, "perm_seed": done, "drop": [],
                                "dst": {"type": "sharded", "shape": shape, "boxes": gd}, "order_seed": done, "executor": False,
                                "batch": (10 ** 9 if done % 2 else None)},
                          "reshard_exhaustive")
            done += 1
        ctx.count(f"reshard.exhaustive.shape{'x'.join(map(str, shape))}.pairs", done)
    n = ctx.n(450, 4000)
    for i in range(n):
        if ctx.time_left() < (5 if ctx.quick else 20):
            ctx.notes.append(f"random reshard stream stopped early at {i}/{n}")
            break
        _case_reshard(ctx, _rand_reshard_input(rng))


# ------------------------------------------------------------------------------------------
# suite 4: ShardedTensorEntry.get_tensor_shape (shape of the tensor created for obj_out=None)
# ------------------------------------------------------------------------------------------

def _case_tshape(ctx: Ctx, inp, suite="tensor_shape"):
    from torchsnapshot.manifest import Shard, ShardedTensorEntry, TensorEntry
    boxes = inp["boxes"]
    entry = ShardedTensorEntry(shards=[
        Shard(offsets=list(o), sizes=list(s),
              tensor=TensorEntry(location=f"x_{k}", serializer="buffer_protocol", dtype="float32", shape=list(s), replicated=False))
        for k, (o, s) in enumerate(boxes)])
    try:
        impl = {"shape": [int(x) for x in entry.get_tensor_shape()]}
    except AssertionError:
        impl = {"err": "AssertionError"}
    except Exception as e:  # noqa: BLE001
        impl = {"err": _err_name(e)}
    full = inp.get("partition_of")
    if full is not None and impl.get("shape") != list(full):
        ctx.fail("tensor-shape-wrong", "get_tensor_shape of shards that partition a tensor is not the tensor's shape", inp, impl, suite)
    if ctx.driver:
        rep = ctx.driver.call({"op": "tensor_shape", "boxes": [{"offsets": o, "sizes": s} for o, s in boxes]})
        if rep != impl:
            ctx.disagree(suite, inp, impl, rep)
    ctx.count("tensor_shape." + ("partition" if full is not None else "arbitrary" if boxes else "empty"))
    ctx.case(suite, inp, nontrivial=len(boxes) >= 2, key=inp)


def _tshape_suite(ctx: Ctx):
    rng = ctx.rng
    _case_tshape(ctx, {"kind": "tshape", "boxes": []})
    for shape in ([[3], [2, 2]] if ctx.quick else [[4], [3, 3], [2, 2, 2]]):   # every grid, every order (<= 4 cells) / rotations
        for g in _all_grids(shape):
            orders = itertools.permutations(g) if len(g) <= 4 else [g[k:] + g[:k] for k in range(len(g))]
            for o in orders:
                _case_tshape(ctx, {"kind": "tshape", "boxes": [list(b) for b in o], "partition_of": shape}, "tensor_shape_exhaustive")
    for _ in range(ctx.n(150, 2000)):
        shape = _rand_shape(rng)
        boxes = _rand_layout(rng, shape)
        rng.shuffle(boxes)
        if rng.random() < 0.7:
            _case_tshape(ctx, {"kind": "tshape", "boxes": boxes, "partition_of": shape})
        else:   # arbitrary subset / arbitrary boxes: correspondence only
            sub = rng.sample(boxes, rng.randint(1, len(boxes))) if rng.random() < 0.6 else [
                _rand_box(rng, len(shape)) for _ in range(rng.randint(1, 5))]
            _case_tshape(ctx, {"kind": "tshape", "boxes": sub})


# ------------------------------------------------------------------------------------------

def _dispatch(ctx: Ctx, inp, suite=None, **kw):
    k = inp.get("kind")
    if k == "overlap":
        _case_overlap(ctx, inp, suite or "overlap_region")
    elif k == "subdivide":
        _case_subdivide(ctx, inp, suite or "subdivide")
    elif k == "reshard":
        _case_reshard(ctx, inp, suite or "reshard", **kw)
    elif k == "tshape":
        _case_tshape(ctx, inp, suite or "tensor_shape")
    else:
        raise ValueError(f"unknown case kind {k!r}")


import os as _os_dt
os = _os_dt


def _dtensor_job(ctx: Ctx, cfg, idx: int, suite: str = "dtensor_reshard", verbose: bool = False):
    """DTensor entries (io_preparers/dtensor.py) are not in the Lean model; this suite is an oracle only: real gloo ranks
    save a DTensor under one placement and restore it under another, including uneven shardings."""
    import json
    import shutil
    import subprocess
    import sys
    import time
    import sim
    from common import OUT_DIR, REPO
    W = cfg["W"]
    root = os.path.join(OUT_DIR, f"c08_dt_{os.getpid()}_{idx}")
    shutil.rmtree(root, ignore_errors=True)
    os.makedirs(root)
    cfg_path = os.path.join(root, "cfg.json")
    json.dump(cfg, open(cfg_path, "w"))
    worker = os.path.join(os.path.dirname(os.path.abspath(__file__)), "c08_dtensor_worker.py")
    procs = [subprocess.Popen([sys.executable, worker, cfg_path, str(r), str(W), os.path.join(root, "init"), root,
                               os.path.join(root, f"out{r}.json")], env=dict(os.environ, VERIF_REPO=REPO),
                              stdout=subprocess.PIPE, stderr=subprocess.STDOUT) for r in range(W)]
    t_end = time.time() + 5 * sim.wait_limit()
    outs = []
    for p in procs:
        try:
            o, _ = p.communicate(timeout=max(1, t_end - time.time()))
        except subprocess.TimeoutExpired:
            p.kill()
            o, _ = p.communicate()
        outs.append(o.decode("utf-8", "replace")[-400:])
    res = []
    for r in range(W):
        f = os.path.join(root, f"out{r}.json")
        res.append(json.load(open(f)) if os.path.exists(f) else None)
    inp = dict(cfg, kind="dtensor")
    shutil.rmtree(root, ignore_errors=True)
    if any(x is None for x in res):
        ctx.count("dtensor.job_failed")
        ctx.notes.append(f"dtensor job {idx} did not complete: {outs[0][-200:]}")
        ctx.case(suite, dict(inp, completed=False), nontrivial=False, key=inp)
        return
    for x in res:
        for pr in x["problems"]:
            ctx.fail("dtensor-reshard-wrong-values", f"rank {pr['rank']}: DTensor saved with placement dim {pr['pair'][0]} and restored with "
                     f"{pr['pair'][1]} differs from the saved global tensor", inp, pr, suite=suite)
            if verbose:
                print("FAIL", pr)
    ctx.count("dtensor.jobs")
    ctx.case(suite, inp, nontrivial=True, key=inp)


def _dtensor_suite(ctx: Ctx):
    rng = ctx.rng
    jobs = [{"W": 2, "shape": [5, 4], "dtype": "float32", "pairs": [[0, 1], [1, 0]]}]
    for _ in range(ctx.n(1, 10)):
        W = rng.choice([2, 2, 3])
        shape = [rng.randint(1, 9), rng.randint(1, 7)]
        jobs.append({"W": W, "shape": shape, "dtype": rng.choice(["float32", "int64", "bfloat16"]),
                     "pairs": [[rng.choice([0, 1]), rng.choice([0, 1, -1])] for _ in range(rng.randint(1, 3))]})
    for i, cfg in enumerate(jobs):
        if ctx.time_left() < 20:
            break
        _dtensor_job(ctx, cfg, i)


def run(ctx: Ctx):
    _setup()
    for inp in CORPUS:
        _dispatch(ctx, inp, "corpus")
    _overlap_suite(ctx)
    _subdivide_suite(ctx)
    _tshape_suite(ctx)
    _reshard_suite(ctx)
    _dtensor_suite(ctx)


def replay(ctx: Ctx, rec):
    """Re-run a recorded failing input on the implementation and the model."""
    _setup()
    if "input" not in rec:   # broken-tie record: replay the (first) recorded disagreements
        for d in rec.get("disagreements", [])[:3]:
            replay(ctx, {"input": d["input"]})
        return
    inp = rec["input"]
    if isinstance(inp, dict) and inp.get("kind") == "dtensor":
        _dtensor_job(ctx, {k: v for k, v in inp.items() if k != "kind"}, 0, "replay", verbose=True)
        return
    print("input:", inp)
    n0 = len(ctx.failures)
    d0 = len(ctx.disagreements)
    _dispatch(ctx, inp, None, **({"verbose": True} if inp.get("kind") == "reshard" else {}))
    for f in ctx.failures[n0:]:
        print("FAILS on the implementation:", f["sig"], "-", f["what"], f["observed"])
    for d in ctx.disagreements[d0:]:
        print("impl :", d["impl"])
        print("model:", d["model"])
    if len(ctx.failures) == n0 and len(ctx.disagreements) == d0:
        print("no failure, implementation and model agree")
