"""C18 harness library: real read_object under budgets, consumer probe, in-flight accounting."""
from __future__ import annotations

import json
import os
import threading
from typing import Any, Dict, List, Optional

from common import Ctx

PROP = "C18"
ROOT = "/snap/c18"

_PATCHED = {"done": False}
_EVENTS: List[Any] = []
_LOCK = threading.Lock()


def _install_consumer_probe():
    """Record consume begin/end (with buffer length) on every BufferConsumer subclass (class-level wrap)."""
    if _PATCHED["done"]:
        return
    import torchsnapshot.batcher  # noqa  (define all subclasses)
    import torchsnapshot.io_preparer  # noqa
    from torchsnapshot.io_types import BufferConsumer

    def subclasses(c):
        out = []
        for s in c.__subclasses__():
            out.append(s)
            out.extend(subclasses(s))
        return out

    for cls in subclasses(BufferConsumer):
        if "consume_buffer" not in cls.__dict__:
            continue
        orig = cls.__dict__["consume_buffer"]

        def make(orig):
            async def consume_buffer(self, buf, executor=None):
                n = len(buf)
                with _LOCK:
                    _EVENTS.append(("consume_begin", id(self), n))
                try:
                    return await orig(self, buf, executor)
                finally:
                    with _LOCK:
                        _EVENTS.append(("consume_end", id(self), n))
            return consume_buffer
        setattr(cls, "consume_buffer", make(orig))
    _PATCHED["done"] = True


def peak_inflight(events) -> Dict[str, int]:
    """events: ("read", n) when storage hands out an n-byte buffer, ("consume_end", n) when it is released."""
    cur = peak = 0
    cnt = peakcnt = 0
    worst = (0, 0)
    for e in events:
        if e[0] == "read":
            cur += e[1]
            cnt += 1
        elif e[0] == "consume_end":
            cur -= e[1]
            cnt -= 1
        if cur > peak:
            peak = cur
        if cnt >= 2 and cur > worst[0]:
            worst = (cur, cnt)
    return {"peak": peak, "peak_with_2plus": worst[0], "n_at_peak2": worst[1]}


def lookup(saved, manifest_key: str):
    from urllib.parse import unquote
    comps = manifest_key.split("/")[2:]
    cur = saved
    for c in comps:
        if isinstance(cur, list):
            cur = cur[int(c)]
        else:
            d = unquote(c)
            hit = [k for k in cur if str(k) == d]
            cur = cur[hit[0]]
    return cur


def read_cases(ctx: Ctx, case: Dict[str, Any], suite: str):
    import gen
    import sim
    import torch
    from torchsnapshot import Snapshot
    from torchsnapshot.manifest import ChunkedTensorEntry, TensorEntry
    from torchsnapshot.manifest_utils import is_container_entry

    _install_consumer_probe()
    W = case["world"]
    world = sim.World(W)
    saved = [None] * W

    def take(r, pg):
        tree = gen.build_tree(case["states"][r])
        saved[r] = gen.deep_clone(tree)
        Snapshot.take(ROOT, {"s": gen.RecStateful(tree)}, pg=pg, replicated=case.get("replicated") or None)

    with sim.knobs(**case["knobs"]):
        if W == 1:
            world.run1(lambda: take(0, None))
        else:
            res = world.run(take)
            if any(r[0] != "ok" for r in res):
                ctx.notes.append("take raised in c18 generator")
                return
    w1 = sim.World(1)
    w1.storage = world.storage
    manifest = w1.run1(lambda: Snapshot(ROOT).get_manifest())
    paths = [k for k, e in manifest.items() if not is_container_entry(e)]
    if ctx.quick and len(paths) > 6:
        paths = sorted(ctx.rng.sample(paths, 6))
    for path in paths:
        rank = int(path.split("/", 1)[0])
        want = lookup(saved[rank], path)
        entry = manifest[path]
        is_tensor = isinstance(entry, (TensorEntry, ChunkedTensorEntry))
        size = 0
        es = 1
        if is_tensor and isinstance(want, torch.Tensor):
            es = want.element_size()
            size = es * want.numel()
        budgets = [None, 1, max(es - 1, 1), es, max(size // 3, 1), max(size, 1), 10 * max(size, 1)]
        if ctx.quick:
            budgets = [None, 1] + ctx.rng.sample(budgets[2:], 2)
        for budget in budgets:
            for out_kind in (["none", "match", "match_view", "mismatch", "mismatch_dtype"] if is_tensor else ["none"]):
                if ctx.quick and out_kind != "none" and ctx.rng.random() < 0.4:
                    continue
                nobatch = ctx.rng.random() < 0.5
                if out_kind == "match" and isinstance(want, torch.Tensor):
                    obj_out = torch.full(want.shape, 1, dtype=want.dtype) if want.dtype != torch.bool else torch.ones(want.shape, dtype=torch.bool)
                elif out_kind == "match_view" and isinstance(want, torch.Tensor) and want.dim() >= 2 and want.numel() > 0:
                    # matching dtype/shape, but a column block of a wider buffer: cannot be viewed flat
                    wide = torch.zeros(list(want.shape[:-1]) + [want.shape[-1] + 2], dtype=want.dtype)
                    obj_out = wide[..., : want.shape[-1]]
                elif out_kind == "mismatch" and isinstance(want, torch.Tensor):
                    obj_out = torch.zeros(list(want.shape) + [2], dtype=want.dtype)
                elif out_kind == "mismatch_dtype" and isinstance(want, torch.Tensor):
                    # same shape, another dtype: cannot be loaded in place, the saved dtype must come back
                    obj_out = torch.zeros(want.shape, dtype=torch.int32 if want.dtype != torch.int32 else torch.float64)
                else:
                    obj_out = None
                inp = {"case": case, "path": path, "budget": budget, "obj_out": out_kind, "read_batching": not nobatch}
                w1.storage.log.clear()
                import random as _r
                w1.storage.yield_rng = _r.Random(ctx.rng.random())
                with _LOCK:
                    _EVENTS.clear()
                evs: List[Any] = []

                def on_event(e):
                    if e["op"] == "read" and not e["raw"].endswith(".snapshot_metadata"):
                        with _LOCK:
                            _EVENTS.append(("read", e["len"]))
                w1.storage.on_event = on_event
                try:
                    with sim.knobs(nobatch=nobatch, conc=ctx.rng.choice([1, 2, 16])):
                        got = w1.run1(lambda: Snapshot(ROOT).read_object(path, obj_out=obj_out, memory_budget_bytes=budget))
                except Exception as e:  # noqa
                    ctx.fail("read-object-raised", f"read_object raised {type(e).__name__}: {str(e)[:200]}", inp, None, suite=suite)
                    continue
                finally:
                    w1.storage.on_event = None
                    w1.storage.yield_rng = None
                d = gen.deep_eq(want, got)
                if d is not None:
                    ctx.fail("read-object-value", "read_object returned a value different from the saved one", inp, d, suite=suite)
                if out_kind == "match" and isinstance(got, torch.Tensor) and got is not obj_out:
                    ctx.count("inplace.not_same_object")
                if budget is not None:
                    with _LOCK:
                        ev = [(e[0], e[-1]) for e in _EVENTS if e[0] in ("read", "consume_end")]
                    pk = peak_inflight(ev)
                    if pk["peak_with_2plus"] > budget:
                        # D15: torch_save-serialized pieces (complex dtypes, objects) are not tiled and their declared cost ignores
                        # the pickle/zip overhead, so several of them can be in flight above the budget. Anything else is new.
                        sers = {getattr(ch.tensor, "serializer", None) for ch in getattr(entry, "chunks", [])} | {getattr(entry, "serializer", None)}
                        sig = "torch-save-cost-underdeclared" if "torch_save" in sers else "read-object-over-budget"
                        ctx.fail(sig, "more than one buffer in flight with total bytes above memory_budget_bytes", inp,
                                 dict(pk, budget=budget, serializers=sorted(x for x in sers if x)), suite=suite)
                    ctx.count("budget.single_oversized" if pk["peak"] > budget else "budget.within")
                    ctx.count("reads", sum(1 for e in ev if e[0] == "read"))
                if ctx.driver and budget is not None and is_tensor and isinstance(want, torch.Tensor):
                    _tie_tiles(ctx, entry, budget, [e for e in w1.storage.log if e["op"] == "read" and not e["raw"].endswith(".snapshot_metadata")], inp)
                ctx.count("entry." + type(entry).__name__)
                ctx.count("out." + out_kind)
                ctx.case(suite, {"path": path, "budget": budget, "obj_out": out_kind, "entry": type(entry).__name__, "size": size},
                         nontrivial=True, key=[case["states"], case["knobs"], path, budget, out_kind, nobatch])
    # one Snapshot object serving a sequence of read_object calls that alternate between the ranks' views (seed C18-H:
    # state remembered from an earlier call on the same object must not leak into a later one); deterministic order
    alt = sorted(paths, key=lambda p: (p.split("/", 1)[1], int(p.split("/", 1)[0])))
    for order_name, order in (("alternating", alt), ("alternating_reversed", alt[::-1])):
        if len({p.split("/", 1)[0] for p in order}) < 2:
            break
        shared = w1.run1(lambda: Snapshot(ROOT))
        for path in order:
            want = lookup(saved[int(path.split("/", 1)[0])], path)
            inp = {"case": case, "path": path, "budget": None, "obj_out": "none", "shared_object": order_name, "sequence": order}
            try:
                got = w1.run1(lambda: shared.read_object(path))
            except Exception as e:  # noqa
                ctx.fail("read-object-raised", f"read_object on a shared Snapshot object raised {type(e).__name__}: {str(e)[:200]}", inp, None, suite=suite)
                continue
            d = gen.deep_eq(want, got)
            if d is not None:
                ctx.fail("read-object-value", "read_object on a Snapshot object that served another rank's path before returned a value different from the saved one",
                         inp, d, suite=suite)
            ctx.count("shared_object.reads")
            ctx.case(suite, {"path": path, "shared_object": order_name}, nontrivial=True, key=[case["states"], case["knobs"], path, order_name])
        try:
            w1.run1(lambda: shared.read_object("0/s/__nope__"))
            ctx.fail("read-object-missing-path-no-raise", "read_object of a path not in the manifest returned normally (shared object)",
                     {"case": case, "path": "0/s/__nope__", "shared_object": order_name}, None, suite=suite)
        except Exception:
            pass
    # paths not in the manifest raise
    for bogus in ["0/s/__nope__", "0/nope", str(W + 3) + "/s", paths[0] + "/x" if paths else "0/x"]:
        try:
            w1.run1(lambda: Snapshot(ROOT).read_object(bogus))
            ctx.fail("read-object-missing-path-no-raise", "read_object of a path not in the manifest returned normally", {"case": case, "path": bogus}, None, suite=suite)
        except Exception:
            ctx.count("missing.raised")
        ctx.case(suite, {"path": bogus, "missing": True}, nontrivial=False)


def _tie_tiles(ctx, entry, budget, reads, inp):
    """The byte ranges the real read_object requested must be exactly the model's tiles of every raw unit."""
    from torchsnapshot.manifest import ChunkedTensorEntry
    units = [ch.tensor for ch in entry.chunks] if isinstance(entry, ChunkedTensorEntry) else [entry]
    expected = []
    for te in units:
        if te.serializer != "buffer_protocol":
            expected.append((te.location, tuple(te.byte_range) if te.byte_range else None))
            continue
        lead = 1
        for x_ in list(te.shape)[:-1]:
            lead *= x_
        # a destination that is a column block of a wider buffer can be viewed flat only when it is a single row
        flat = not (inp.get("obj_out") == "match_view" and lead > 1 and list(te.shape)[-1] > 1)
        rep = ctx.driver.call({"op": "tile", "shape": list(te.shape), "dtype": te.dtype.replace("torch.", ""), "flat": flat,
                               "limit": budget, "base": list(te.byte_range) if te.byte_range else None})
        if "tiles" not in rep:
            ctx.disagree("read_object_tiles", {k: v for k, v in inp.items() if k != "case"}, "real read succeeded", rep)
            return
        expected += [(te.location, tuple(t["range"])) for t in rep["tiles"]]
    got = sorted((e["raw"], tuple(e["range"]) if e["range"] else None) for e in reads)
    if got != sorted(expected):
        ctx.disagree("read_object_tiles", {k: v for k, v in inp.items() if k != "case"}, got[:12], sorted(expected)[:12],
                     "byte ranges read by read_object differ from the model's tiles")


def sharded_cases(ctx: Ctx, n: int, suite: str = "read_object_sharded"):
    """read_object of sharded entries returns the full dense tensor (any budget, with / without an output tensor)."""
    import gen
    import sim
    import torch
    from props import c07
    from torchsnapshot import Snapshot
    if not c07._ensure_gloo():
        ctx.notes.append("1-rank gloo group unavailable: sharded read_object suite skipped")
        return
    for it_ in range(n):
        if ctx.time_left() < 10:
            break
        irregular = ctx.rng.random() < 0.5 or it_ == 0       # 2-d layouts that are not a grid (T-junctions), shards listed in any order
        rows, cols = ctx.rng.randint(2, 8), (ctx.rng.randint(2, 6) if irregular else ctx.rng.randint(1, 3))
        dt = ctx.rng.choice([torch.float32, torch.int64, torch.bfloat16, torch.uint8])
        if it_ == 0:
            rows, cols = 8, 8
        base = (torch.arange(rows * cols) * 3 + 1).reshape(rows, cols)
        global_t = base.to(dt)
        cuts = sorted({0, rows} | {ctx.rng.randint(1, rows - 1) for _ in range(ctx.rng.randint(0, 3))})
        blocks = list(zip(cuts, cuts[1:]))
        boxes = None
        if irregular:
            from props import c08
            c08._setup()
            boxes = c08._rand_guillotine(ctx.rng, [rows, cols], max_boxes=6)
            if it_ == 0:
                # corpus layout: the shard with the greatest offsets ([4,0]) does not own the far corner ([8,8])
                rows, cols = 8, 8
                boxes = [[[0, 0], [4, 4]], [[0, 4], [8, 4]], [[4, 0], [4, 4]]]
            blocks = boxes
        kn = {"shard": ctx.rng.choice([None, 1, 8, 16]), "slab": ctx.rng.choice([None, 1, 16]), "nobatch": ctx.rng.random() < 0.4,
              "budget": 10 ** 9}
        world = sim.World(1)

        def take():
            if boxes is not None:
                from props import c08
                tensors = [global_t[o[0]:o[0] + z[0], o[1]:o[1] + z[1]].clone() for o, z in boxes]
                st = c08._build_st([rows, cols], boxes, str(dt).replace("torch.", ""), tensors, None)
            else:
                st = c07._mk_sharded(global_t.clone(), blocks)
            Snapshot.take(ROOT, {"s": gen.RecStateful({"st": st, "w": torch.ones(3)})})
        with sim.knobs(**kn):
            try:
                world.run1(take)
            except Exception as e:  # noqa
                ctx.fail("sharded-take-raised", f"take of a ShardedTensor raised {type(e).__name__}: {str(e)[:200]}",
                         {"rows": rows, "cols": cols, "blocks": blocks, "knobs": kn}, None, suite=suite)
                continue
        size = global_t.numel() * global_t.element_size()
        for budget in [None, 1, max(size // 3, 1), 10 * size]:
            for out_kind in ("none", "dense"):
                obj_out = torch.zeros_like(global_t) if out_kind == "dense" else None
                inp = {"rows": rows, "cols": cols, "dtype": str(dt), "blocks": blocks, "knobs": kn, "budget": budget, "obj_out": out_kind}
                try:
                    with sim.knobs(nobatch=ctx.rng.random() < 0.5):
                        got = world.run1(lambda: Snapshot(ROOT).read_object("0/s/st", obj_out=obj_out, memory_budget_bytes=budget))
                except Exception as e:  # noqa
                    ctx.fail("read-object-raised", f"read_object of a sharded entry raised {type(e).__name__}: {str(e)[:200]}", inp, None, suite=suite)
                    continue
                d = gen.deep_eq(global_t, got)
                if d is not None:
                    ctx.fail("read-object-value", "read_object of a sharded entry differs from the saved global tensor", inp, d, suite=suite)
                ctx.count("entry.ShardedTensorEntry")
                ctx.case(suite, inp, nontrivial=True, key=[inp, list(gen.tensor_bytes(global_t))])


def real_fs_many_pieces(ctx: Ctx, n: int, suite: str = "read_object_real_fs"):
    """A chunked tensor whose many one-row chunks sit in ONE slab file, read with read_object through the REAL filesystem
    plugin under budgets that admit several pieces at once (concurrent ranged reads of one file)."""
    import shutil
    import gen
    import sim
    import torch
    from common import OUT_DIR
    from torchsnapshot import Snapshot
    for i in range(n):
        if ctx.time_left() < 10:
            break
        rows = ctx.rng.choice([48, 64, 96])
        dt = ctx.rng.choice([torch.float32, torch.int16, torch.float64])
        t = (torch.arange(rows * 4) * 7 + 3).reshape(rows, 4).to(dt)
        row_bytes = 4 * t.element_size()
        fs_dir = os.path.join(OUT_DIR, f"c18_fs_{os.getpid()}")
        shutil.rmtree(fs_dir, ignore_errors=True)
        world = sim.World(1)
        world.storage = sim.FsStore(fs_dir)
        try:
            with sim.knobs(chunk=row_bytes, slab=10 ** 6, budget=10 ** 9):
                world.run1(lambda: Snapshot.take(ROOT, {"s": gen.RecStateful({"big": t.clone(), "w": torch.ones(3)})}))
            for budget in [None, 8 * row_bytes, 48 * row_bytes, 10 ** 6]:
                inp = {"rows": rows, "dtype": str(dt), "budget": budget, "real_fs": True}
                try:
                    got = world.run1(lambda: Snapshot(ROOT).read_object("0/s/big", memory_budget_bytes=budget))
                except Exception as e:  # noqa
                    ctx.fail("read-object-raised", f"read_object through the real FS plugin raised {type(e).__name__}: {str(e)[:200]}", inp, None, suite=suite)
                    import gc
                    gc.collect()
                    continue
                d = gen.deep_eq(t, got)
                if d is not None:
                    ctx.fail("read-object-value", "read_object through the real FS plugin differs from the saved tensor", inp, d, suite=suite)
                ctx.count("real_fs.reads")
                ctx.case(suite, inp, nontrivial=True, key=[inp, i])
        finally:
            shutil.rmtree(fs_dir, ignore_errors=True)


def gen_case(rng) -> Dict[str, Any]:
    import gen
    W = rng.choice([1, 1, 1, 2])
    base = gen.rand_tree_desc(rng, 2, tensors=0.8, max_elems=24)
    if base["t"] not in ("dict", "odict"):
        base = {"t": "dict", "items": [[gen.key_desc("w"), base], [gen.key_desc("b"), gen.rand_tensor_desc(rng, 24)]]}
    states = [base for _ in range(W)]
    kn = {"chunk": rng.choice([None, 1, 8, 16, 40]), "slab": rng.choice([None, 1, 16, 64]), "nobatch": rng.choice([False, True]),
          "budget": 10 ** 9}
    replicated = rng.choice([[], ["**"]]) if W > 1 else []
    if W > 1 and not replicated:
        # nothing replicated: the ranks hold DIFFERENT values under the same logical paths, and one path exists on the last
        # rank only - a read through the wrong rank's view is then visible (seed C18-H)
        have = {json.dumps(it[0], sort_keys=True) for it in base["items"]}
        states = []
        for r in range(W):
            extra = [[gen.key_desc("rkint"), {"t": "int", "v": str(1000 + r)}], [gen.key_desc("rktensor"), gen.rand_tensor_desc(rng, 24)]]
            if r == W - 1:
                extra.append([gen.key_desc("rkonly"), {"t": "str", "v": [ord(c) for c in "last"]}])
            extra = [it for it in extra if json.dumps(it[0], sort_keys=True) not in have]
            states.append({"t": base["t"], "items": list(base["items"]) + extra})
    return {"world": W, "states": states, "replicated": replicated, "knobs": kn}
