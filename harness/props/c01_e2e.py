"""C01 — take then restore reproduces the application state exactly.  (draft: Lean part attached after merges)"""
from __future__ import annotations

from typing import Any, Dict

from common import Ctx

PROP = "C01"
ROOT = "/snap/c01"


def one_case(ctx: Ctx, case: Dict[str, Any], suite: str):
    import e2e
    import gen
    import sim
    (status, res), world, saved = e2e.run_take_restore(case, ROOT, ctx.rng)
    inp = case
    if status == "take-raised":
        kinds = sorted({type(r[1]).__name__ + ": " + str(r[1])[:160] for r in res if r[0] != "ok"})
        ctx.fail("take-raised", "Snapshot.take raised on a legal application state", inp, kinds, suite=suite)
        ctx.case(suite, {"world": case["world"], "take": "raised"}, nontrivial=False)
        return
    for r, rr in enumerate(res):
        if rr[0] != "ok":
            e = rr[1]
            sig = "collective-mismatch" if isinstance(e, sim.Mismatch) else "restore-raised"
            ctx.fail(sig, f"restore raised {type(e).__name__}: {str(e)[:200]}", inp, {"rank": r}, suite=suite)
            continue
        for k, diff in rr[1].items():
            if diff is not None:
                ctx.fail("restored-state-differs", "restored state differs from the saved one", inp, {"rank": r, "key": repr(k), "diff": diff}, suite=suite)
    ctx.count("world.%d" % case["world"])
    ctx.count("mode." + case.get("mode", "fresh"))
    ctx.count("async" if case.get("async") else "sync")
    ctx.count("subset" if case.get("subset") else "all_keys")
    ctx.count("take.batching." + ("off" if case["take_knobs"].get("nobatch") else "on"))
    ctx.count("restore.batching." + ("off" if case["restore_knobs"].get("nobatch") else "on"))
    n_writes = len([e for e in world.storage.writes() if not e["raw"].endswith(".snapshot_metadata")])
    ctx.count("payload_writes", n_writes)
    ctx.case(suite, {"world": case["world"], "mode": case.get("mode"), "subset": case.get("subset"), "async": case.get("async"),
                     "take_knobs": case["take_knobs"], "restore_knobs": case["restore_knobs"], "replicated": case.get("replicated"),
                     "states": gen.short(case["states"])}, nontrivial=n_writes > 0, key=case)
