"""C07 — Who can load what: replicated everywhere, sharded reshards, private stays put."""
from __future__ import annotations

import copy
import os
from collections import OrderedDict
from typing import Any, Dict, List, Optional, Tuple

from common import Ctx
from manifest_enc import (Interner, S, unS, canon_manifest, enc_manifest, err_name, show_manifest)

PROP = "C07"
LEAN_MODULE = "TsProofs.Properties.C07"
THEOREMS = [
    "Ts.ManifestOps.C07_replicated_everywhere",
    "Ts.ManifestOps.C07_replicated_everywhere_saved",
    "Ts.ManifestOps.C07_private_stays",
    "Ts.ManifestOps.C07_sharded_available",
    "Ts.ManifestOps.C07_sharded_delivered_partial",
    "Ts.ManifestOps.C07_witness_sharded_escaped_key",
    "Ts.ManifestOps.C07_containers",
    "Ts.ManifestOps.C07_saved_manifests_roundtrip",
    # whole-job data plane (TsModel/World.lean; tied by C01's world_tie suite)
    "Ts.World.C07_world_replicated_everywhere",
    "Ts.Glob.glob_subtree",
    "Ts.Glob.glob_subtree_sibling",
    "Ts.Glob.glob_suffix",
]
BUDGET_S = (100, 840)
RULE = ("synth: for (W, W') in 1..6 x 1..6, random per-rank state trees (depth <= 4; dict / OrderedDict / list; keys with "
        "'/', '%', ints, bools; replicated / private / sharded / chunked leaves; per-rank key differences, missing "
        "private keys, shuffled key order) are flattened with the real flatten(), given real Entry objects, consolidated "
        "with the real consolidate_replicated_entries and round-tripped through SnapshotMetadata.to_yaml/from_yaml; for "
        "every restoring rank r < W' and every app key the real get_manifest_for_rank + "
        "handle_sharded_tensor_elasticity is compared with the Lean restoreView, and the real inflate() of the result is "
        "compared with the rule (oracle). take_restore: real Snapshot.take on W simulated ranks (real tensors, "
        "primitives, objects, ShardedTensors, replication globs), real restore on W' ranks sharing the storage; the state "
        "passed to load_state_dict on every rank is compared with the rule, and the committed metadata with the "
        "model. A case is non-trivial if at least one leaf is delivered and one is withheld.")
TRUSTED = ["torch ShardedTensor objects are built on a 1-rank gloo group and trimmed to per-rank local shards by the harness",
           "flatten()/inflate() (C15's subject) are used as given to turn manifests into delivered state",
           "DTensor entries are not modelled"]
ASSUMPTIONS = ["replicated objects hold the same value on every rank (the caller's contract)",
               "app-state keys are non-empty (the empty key is a D13 finding of C05)",
               "rank 0 saved every app key that a rank >= W restores"]
LEVEL_TEXT = ("Lean 4 theorems over the executable model of get_manifest_for_rank / _remove_entry / merged sharded entries / "
              "handle_sharded_tensor_elasticity, unbounded in W, W', rank, number of entries and nesting depth: replicated "
              "leaves reach every rank with their saved entry, private leaves reach exactly the rank that saved them, merged "
              "sharded entries hold every saved shard and reach exactly the requesting ranks, containers keep kind and the "
              "surviving keys in saved order. Tied to the real functions on every run by differential correspondence on "
              "synthesised and real gathered manifests; the rule is also evaluated on the real restore."
              " At byte level (C07_world_replicated_everywhere) the consolidated entry of a replicated leaf is the same through every rank's view, ranks >= W included, and restores the saved value although its chunks were written by different ranks.")
LEVEL_NOTE = ("Trusted: Lean kernel, the hand model lean/TsModel/ManifestOps.lean, the harness. Known finding kept: a rank that "
              "did not save a sharded tensor receives it under the escaped path component instead of the original key.")
TECHNIQUE = "Lean 4 proof over executable model + differential correspondence with manifest_ops.py + rule oracle on real take/restore"

KNOWN_SIGS = {"sharded-nonsaving-rank-escaped-key", "new-rank-sharded-key-appended", "unrequested-sharded-sole-child-none"}
_known_seen: Dict[str, int] = {}


def _fail(ctx: Ctx, sig, what, inp, observed=None, suite="oracle"):
    """record an oracle failure; known-finding signatures are recorded a few times only (the failure list is capped,
    and an unlisted failure must never be crowded out)"""
    if sig in KNOWN_SIGS:
        _known_seen[sig] = _known_seen.get(sig, 0) + 1
        ctx.count("known-finding." + sig)
        if _known_seen[sig] > 3:
            return
    ctx.fail(sig, what, inp, observed, suite=suite)


KEY_POOL = ["a", "b", "c/d", "%", "x y", 1, 2, "10", "k", "w%2Fz", "é", -3, "weight", "bias", True, False, "a/b/c", "%25", 0, "True"]
APP_KEYS = ["app", "m/1", "opt%", "s"]


def _enc_comp(k) -> str:
    """path component flatten() derives from a container key (independent re-statement of _encode(str(k)))"""
    return str(k).replace("%", "%25").replace("/", "%2F")


def _plain_key(k) -> bool:
    return isinstance(k, str) and "/" not in k and "%" not in k


# ----------------------------------------------------------------------------------------------
# template trees
# ----------------------------------------------------------------------------------------------

class Leaf:
    """placeholder leaf of a synthetic state tree"""
    __slots__ = ("kind", "id", "cls", "owner", "pos")

    def __init__(self, kind, id_, cls, owner=None, pos="fixed"):
        # pos (expected trees only): "fixed" = keeps its saved position; "moved" = sharded leaf of a rank >= W (the code
        # removes and re-adds it); "float" = sharded leaf the rank did not save (no saved position)
        self.kind, self.id, self.cls, self.owner, self.pos = kind, id_, cls, owner, pos

    def __repr__(self):
        return f"<{self.kind}{self.id}{'' if self.owner is None else '@' + str(self.owner)}>"


def _pick_keys(rng, n):
    ks, seen = [], set()
    for k in rng.sample(KEY_POOL, min(len(KEY_POOL), n + 3)):
        if str(k) in seen or any(k == q for q in ks):
            continue
        seen.add(str(k))
        ks.append(k)
        if len(ks) == n:
            break
    return ks


def _gen_template(rng, depth, counter, shard_ok=True, sh_in_list=True):
    if depth == 0 or rng.random() < 0.3:
        counter[0] += 1
        kind = rng.choices(["rep", "priv", "sh", "reppartial"], [3, 4, 2 if shard_ok else 0, 1])[0]
        cls = rng.choice(["tensor", "prim", "obj", "chunked"]) if kind != "sh" else "sharded"
        return {"t": kind, "id": counter[0], "cls": cls}
    r = rng.random()
    if r < 0.25:
        return {"t": "list", "items": [[None, _gen_template(rng, depth - 1, counter, shard_ok and sh_in_list, sh_in_list)]
                                       for _ in range(rng.randint(0, 3))]}
    ks = _pick_keys(rng, rng.randint(0, 4))
    return {"t": "dict" if r < 0.7 else "odict", "items": [[k, _gen_template(rng, depth - 1, counter, shard_ok, sh_in_list)] for k in ks]}


def _rank_tree(rng, node, rank, W, top=True):
    """derive rank `rank`'s tree from the template (None = absent on this rank)"""
    t = node["t"]
    if t == "rep":
        return Leaf("rep", node["id"], node["cls"])
    if t == "reppartial":      # matches a replication glob but is absent on one rank: stays private
        if W == 1:
            return Leaf("rep", node["id"], node["cls"])
        if rank == node["id"] % W:
            return None
        return Leaf("priv", node["id"], node["cls"], rank)
    if t == "priv":
        if rank != 0 and rng.random() < 0.2:
            return None
        return Leaf("priv", node["id"], node["cls"], rank)
    if t == "sh":
        holders = [r for r in range(W) if (node["id"] * 7 + r * 3) % 4 != 0] or [0]
        if rank not in holders:
            return None
        return Leaf("sh", node["id"], "sharded", rank)
    items = []
    for k, ch in node["items"]:
        sub = _rank_tree(rng, ch, rank, W, top=False)
        if sub is not None:
            items.append((k, sub))
    if t == "list":
        return [v for _, v in items]
    # rank-specific extra private keys, sometimes a different key order
    if rng.random() < 0.3:
        used = {str(k) for k, _ in items} | {str(k) for k, _ in node["items"]}
        for k in _pick_keys(rng, rng.randint(1, 2)):
            if str(k) not in used and not any(k == q for q, _ in items) and not any(k == q for q, _ in node["items"]):
                items.append((k, Leaf("priv", 100000 + rank * 1000 + rng.randrange(1000), rng.choice(["tensor", "prim"]), rank)))
                used.add(str(k))
    if rank != 0 and rng.random() < 0.15:
        rng.shuffle(items)
    if not top and rank != 0 and rng.random() < 0.08:
        return None                       # the whole container is missing on this rank
    return OrderedDict(items) if t == "odict" else dict(items)


def _has_rep_everywhere(trees: List[Any]):
    """demote 'rep' leaves that are not present on every rank (their containers may be missing) to private"""
    def paths(node, pre, out):
        if node is None:
            return
        if isinstance(node, Leaf):
            out[pre] = node
        elif isinstance(node, list):
            for i, v in enumerate(node):
                paths(v, pre + (("i", i),), out)
        else:
            for k, v in node.items():
                paths(v, pre + (("k", str(k)),), out)
    per = []
    for t in trees:
        o: Dict[Any, Leaf] = {}
        paths(t, (), o)
        per.append(o)
    for r, o in enumerate(per):
        for p, leaf in o.items():
            if leaf.kind == "rep" and not all(p in q and q[p].kind == "rep" and q[p].id == leaf.id for q in per):
                leaf.kind, leaf.owner = "priv", r


# ----------------------------------------------------------------------------------------------
# entries for synthetic leaves
# ----------------------------------------------------------------------------------------------

def _tensor_entry(loc, replicated, tag):
    from torchsnapshot.manifest import TensorEntry
    return TensorEntry(location=loc, serializer="buffer_protocol", dtype="torch.float32", shape=[2, tag % 5 + 1], replicated=replicated)


def _leaf_entry(leaf: Leaf, path: str, rank: int, W: int = 1):
    from torchsnapshot.manifest import ChunkedTensorEntry, ObjectEntry, PrimitiveEntry, Shard, ShardedTensorEntry
    rep = leaf.kind == "rep"
    base = ("replicated/" if rep else f"{rank}/") + path
    if leaf.kind == "sh":
        # each holder contributes two row blocks of a tensor whose rows are partitioned among ranks
        return ShardedTensorEntry(shards=[
            Shard(offsets=[rank * 4 + j * 2, 0], sizes=[2, 3], tensor=_tensor_entry(f"sharded/{path}_{rank * 4 + j * 2}_0", False, leaf.id))
            for j in range(2)])
    if leaf.cls == "tensor":
        return _tensor_entry(base, rep, leaf.id)
    if leaf.cls == "prim":
        return PrimitiveEntry("int", str(leaf.id if rep else leaf.id * 100 + rank), rep)
    if leaf.cls == "obj":
        return ObjectEntry(location=base, serializer="torch_save", obj_type="builtins.set", replicated=rep)
    chunks = [Shard(offsets=[o], sizes=[2], tensor=_tensor_entry(f"{base}_{o}", False, leaf.id)) for o in (0, 2, 4)]
    if rep:
        # after partitioning every rank's entry lists only the chunks that rank writes (none: no entry at all)
        chunks = [c for j, c in enumerate(chunks) if (j + leaf.id) % W == rank]
        if not chunks:
            return None
    return ChunkedTensorEntry(dtype="torch.float32", shape=[6], chunks=chunks, replicated=rep)


def _rank_manifest(tree_by_app: Dict[str, Any], rank: int, W: int):
    from torchsnapshot.flatten import flatten
    manifest, leaves = {}, {}
    for app, tree in tree_by_app.items():
        m, f = flatten(tree, prefix=app)
        manifest.update(m)
        for p, leaf in f.items():
            leaves[p] = leaf
    prim, obj = {}, {}
    for p, leaf in leaves.items():
        e = _leaf_entry(leaf, p, rank, W)
        if e is None:
            continue
        (prim if type(e).__name__ == "PrimitiveEntry" else obj)[p] = e
    manifest.update(dict(**prim, **obj))      # take: primitives first, then object entries
    return manifest, leaves


# ----------------------------------------------------------------------------------------------
# the rule (oracle), stated on trees
# ----------------------------------------------------------------------------------------------

class Irregular(Exception):
    """the requested sharded tensor's parent container does not exist on the restoring rank (documented best effort)"""


def _walk(tree, path):
    """yield (path, node, key, parent_path) for every node below `tree` rooted at `path`"""
    if isinstance(tree, Leaf) or not isinstance(tree, (list, dict)):
        return
    items = list(enumerate(tree)) if isinstance(tree, list) else list(tree.items())
    for k, v in items:
        p = f"{path}/{_enc_comp(k)}"
        yield p, v, k, path
        yield from _walk(v, p)


def _expected(tree, path, r, W, requested: set):
    """prune the tree saved by the base rank (r if r < W else 0) by the rule; returns (tree, n_delivered, n_withheld)"""
    cnt = [0, 0]
    keep_private = r < W
    marks = set()       # id() of expected dicts left without any child because (also) an unrequested sharded leaf was withheld
    nodes: Dict[str, Any] = {}      # saved path of a container -> its expected node (list indices shift when items are withheld)

    def go(node, p):
        if isinstance(node, Leaf):
            k = node.kind
            keep = (k == "rep") or (k == "priv" and keep_private) or (k == "sh" and p in requested)
            cnt[0 if keep else 1] += 1
            if not keep:
                return None
            return (Leaf(k, node.id, node.cls, node.owner, "moved" if (k == "sh" and r >= W) else "fixed"),)
        if isinstance(node, list):
            out = []
            nodes[p] = out
            for i, v in enumerate(node):
                x = go(v, f"{p}/{i}")
                if x is not None:
                    out.append(x[0])
            return (out,)
        out = OrderedDict() if isinstance(node, OrderedDict) else {}
        nodes[p] = out
        for k, v in node.items():
            x = go(v, f"{p}/{_enc_comp(k)}")
            if x is not None:
                out[k] = x[0]
        if not out and r < W and any(isinstance(v, Leaf) and v.kind == "sh" for v in node.values()):
            marks.add(id(out))
        return (out,)

    res = go(tree, path)
    return (res[0] if res is not None else None), cnt[0], cnt[1], marks, nodes


def _tk(k):
    return (type(k).__name__, k)


def _normalise_nonplain(exp, act, path, out):
    """Known finding: a sharded leaf that the code re-adds (rank >= W, or a rank that did not save it) is listed under the
    escaped path component (a str) instead of its key. Check delivery under the original key for keys that are not plain
    strings, record the known signature, and remove those keys from both trees so that everything else is still compared."""
    if isinstance(exp, list) and isinstance(act, list):
        for i, (x, y) in enumerate(zip(exp, act)):
            _normalise_nonplain(x, y, f"{path}[{i}]", out)
        return
    if not (isinstance(exp, dict) and isinstance(act, dict)):
        return
    for k in list(exp.keys()):
        v = exp[k]
        if isinstance(v, Leaf) and v.kind == "sh" and v.pos in ("moved", "float") and not _plain_key(k):
            ok = any(_tk(k) == _tk(q) for q in act.keys())
            if not ok:
                out.append(("sharded-nonsaving-rank-escaped-key",
                            f"{path}: requested sharded tensor not delivered under its key {k!r}"))
            else:
                act.pop(k)
            exp.pop(k)
            comp = _enc_comp(k)
            if comp in act and not any(_tk(comp) == _tk(q) for q in exp.keys()):
                act.pop(comp)
    for k in exp.keys():
        for q in act.keys():
            if _tk(k) == _tk(q):
                _normalise_nonplain(exp[k], act[q], f"{path}/{k!r}", out)


def _find(tree, root_path, target):
    """the (container chain) node at path `target` in `tree`, or None"""
    if target == root_path:
        return tree
    for p, node, _, _ in _walk(tree, root_path):
        if p == target:
            return node
    return None


def _add_foreign_sharded(exp_nodes, base_tree, app_path, requested, sharded_info):
    """requested sharded tensors that the base rank did not save are appended to their parent container, under the
    original key; returns the list of (parent_path, key, path) that were added"""
    added = []
    have = {p for p, _, _, _ in _walk(base_tree, app_path)}
    for p in requested:
        if p not in sharded_info or not p.startswith(app_path + "/"):
            continue
        if p in have:
            node = _find(base_tree, app_path, p)
            if not (isinstance(node, Leaf) and node.kind == "sh"):
                # the logical path of a sharded tensor saved by another rank names a DIFFERENT, non-sharded leaf on the
                # base rank (list indices are shifted between the ranks): no application state can ask for both
                raise Irregular(p)
            continue
        key, parent_path, leafobj = sharded_info[p]
        parent_exp = exp_nodes.get(parent_path)
        parent_base = _find(base_tree, app_path, parent_path)
        if parent_base is None or isinstance(parent_base, Leaf) or not isinstance(parent_base, (list, dict)):
            raise Irregular(p)
        if isinstance(parent_base, list):
            raise Irregular(p)
        if any(key == q for q in parent_base.keys()):
            # the foreign path comes from a rank whose list indices are shifted and lands in a container that already
            # has a Python-equal key (1 == True, 0 == False): no application state can hold both, the request is not
            # a legal one
            raise Irregular(p)
        parent_exp[key] = Leaf("sh", leafobj.id, "sharded", None, "float")
        added.append((parent_path, key, p))
    return added


def _compare(exp, act, path, leaf_ok, out, marks=frozenset()):
    """structural comparison of expected tree vs inflated actual; appends (sig, detail) to out"""
    if isinstance(exp, (list, dict)):
        if type(exp) is not type(act):
            out.append(("container-kind", f"{path}: expected {type(exp).__name__}, got {type(act).__name__}"))
            return
        if isinstance(exp, list):
            if len(exp) != len(act):
                out.append(("list-length", f"{path}: expected {len(exp)} items, got {len(act)}"))
                return
            for i, (x, y) in enumerate(zip(exp, act)):
                _compare(x, y, f"{path}[{i}]", leaf_ok, out, marks)
            return
        floating = lambda v: isinstance(v, Leaf) and v.kind == "sh" and v.pos in ("moved", "float")
        ke = [_tk(k) for k in exp.keys()]
        ka = [_tk(k) for k in act.keys()]
        missing = [k for k in ke if k not in ka]
        extra = [k for k in ka if k not in ke]
        if id(exp) in marks and not missing and extra and all(v is None for v in act.values()):
            # known finding: the dict lost its only children to the elasticity clean-up; inflate leaves its keys with None
            out.append(("unrequested-sharded-sole-child-none", f"{path}: keys {extra} delivered with value None"))
        elif missing or extra:
            out.append(("container-keys", f"{path}: missing {missing} extra {extra}"))
        else:
            fixed_e = [_tk(k) for k, v in exp.items() if not floating(v)]
            fixed_a = [k for k in ka if k in fixed_e]
            if fixed_e != fixed_a:
                out.append(("container-key-order", f"{path}: expected {fixed_e}, got {fixed_a}"))
            elif ke != ka and any(isinstance(v, Leaf) and v.pos == "moved" for v in exp.values()):
                # every key is there, the surviving keys are in saved order, but a sharded key of rank 0 was re-appended
                pos_e = [k for k in ke if k in fixed_e or exp[k[1]].pos == "moved"]
                pos_a = [k for k in ka if k in pos_e]
                if pos_e != pos_a:
                    out.append(("new-rank-sharded-key-appended", f"{path}: saved key order {ke}, delivered {ka}"))
        for k in exp.keys():
            for q in act.keys():
                if _tk(k) == _tk(q):
                    _compare(exp[k], act[q], f"{path}/{k!r}", leaf_ok, out, marks)
        return
    if isinstance(act, (list, dict)):
        out.append(("leaf-vs-container", f"{path}: expected a leaf, got {type(act).__name__}"))
        return
    r = leaf_ok(exp, act, path)
    if r:
        out.append(r)


# ----------------------------------------------------------------------------------------------
# suite A: synthesised manifests
# ----------------------------------------------------------------------------------------------

def _gen_synth_case(rng, W, W2, sh_in_list=True):
    counter = [0]
    apps = rng.sample(APP_KEYS, rng.randint(1, 2))
    templates = {a: {"t": rng.choice(["dict", "odict", "dict"]),
                     "items": [[k, _gen_template(rng, rng.randint(0, 3), counter, True, sh_in_list)]
                               for k in _pick_keys(rng, rng.randint(1, 4))]}
                 for a in apps}
    seed = rng.randrange(1 << 30)
    requests_plan = {"drop": rng.random(), "seed": rng.randrange(1 << 30), "extra": rng.random() < 0.3}
    return {"W": W, "W2": W2, "apps": apps, "templates": templates, "seed": seed, "req": requests_plan,
            "rootOnly": rng.random() < 0.1}


def _build_synth(case):
    import random
    rng = random.Random(case["seed"])
    W = case["W"]
    trees = []
    for r in range(W):
        trees.append({a: _rank_tree(rng, case["templates"][a], r, W) for a in case["apps"]})
    # some non-zero rank lacks an app key entirely
    if W > 1 and len(case["apps"]) > 1 and rng.random() < 0.3:
        del trees[rng.randrange(1, W)][case["apps"][-1]]
    for a in case["apps"]:
        _has_rep_everywhere([t.get(a) for t in trees])
    return trees


def _synth_one(ctx: Ctx, case, suite="view_synth", report=True):
    from torchsnapshot.flatten import _encode, inflate
    from torchsnapshot.manifest import SnapshotMetadata, ShardedTensorEntry
    from torchsnapshot.manifest_utils import is_container_entry
    from torchsnapshot.manifest_ops import get_manifest_for_rank, handle_sharded_tensor_elasticity
    from torchsnapshot.partitioner import consolidate_replicated_entries
    import random

    W, W2 = case["W"], case["W2"]
    trees = _build_synth(case)
    manifests, leaves = [], []
    for r in range(W):
        m, l = _rank_manifest(trees[r], r, W)
        manifests.append(m)
        leaves.append(l)
    saved = [dict(m) for m in manifests]                      # before consolidation (entries are not mutated)
    try:
        cons = consolidate_replicated_entries(rank_to_entries=[dict(m) for m in manifests])
    except Exception as e:          # cannot happen for these inputs
        ctx.notes.append(f"synth consolidate raised {e!r}")
        return
    glob = {}
    for r, m in enumerate(cons):
        for p, e in m.items():
            glob[os.path.join(str(r), p)] = e
    md = SnapshotMetadata(version="0.0.0", world_size=W, manifest=glob)
    md = SnapshotMetadata.from_yaml(md.to_yaml())

    # sharded paths: key chain information from whoever saved them
    sharded_info: Dict[str, Tuple[Any, str, Leaf]] = {}
    all_shards: Dict[str, List[Any]] = {}
    for r in range(W):
        for a, tree in trees[r].items():
            root = _encode(a)
            for p, node, k, parent in _walk(tree, root):
                if isinstance(node, Leaf) and node.kind == "sh":
                    sharded_info.setdefault(p, (k, parent, node))
                    all_shards.setdefault(p, []).extend(saved[r][p].shards)

    rq = random.Random(case["req"]["seed"])
    intern = Interner()
    enc_glob = enc_manifest(md.manifest, intern)
    n_deliv = n_with = 0
    for r in range(W2):
        base = r if r < W else 0
        for a in case["apps"]:
            if a not in trees[base]:
                continue
            root = _encode(a)
            own_sh = [p for p, n, _, _ in _walk(trees[base][a], root) if isinstance(n, Leaf) and n.kind == "sh"] if r < W else []
            other_sh = [p for p in sharded_info if p.startswith(root + "/") and p not in own_sh]
            requests = [p for p in own_sh if rq.random() >= case["req"]["drop"] * 0.5]
            requests += [p for p in other_sh if rq.random() < 0.6]
            # plain tensors of the current state are requested too (they are filtered out by the code)
            requests += [p for p, n, _, _ in _walk(trees[base][a], root) if isinstance(n, Leaf) and n.cls == "tensor"][:3]
            if case["req"]["extra"]:
                requests.append(root + "/nonexistent")
            rq.shuffle(requests)
            inp = {"op": "mo_restore_view", "W": W, "manifest": enc_glob, "rank": r, "rootOnly": case["rootOnly"],
                   "requests": [S(p) for p in requests]}
            # ---- implementation
            prev = os.environ.get("TORCHSNAPSHOT_ENABLE_SHARDED_TENSOR_ELASTICITY_ROOT_ONLY")
            if case["rootOnly"]:
                os.environ["TORCHSNAPSHOT_ENABLE_SHARDED_TENSOR_ELASTICITY_ROOT_ONLY"] = "1"
            else:
                os.environ.pop("TORCHSNAPSHOT_ENABLE_SHARDED_TENSOR_ELASTICITY_ROOT_ONLY", None)
            try:
                local, merged = get_manifest_for_rank(metadata=md, rank=r)
                handle_sharded_tensor_elasticity(manifest=local, merged_sd_entries=merged, tensor_requests=list(requests))
                impl = {"manifest": canon_manifest(enc_manifest(local, intern))}
            except (KeyError, IndexError, AttributeError, ValueError) as e:
                impl, local = {"err": err_name(e)}, None
            finally:
                if prev is None:
                    os.environ.pop("TORCHSNAPSHOT_ENABLE_SHARDED_TENSOR_ELASTICITY_ROOT_ONLY", None)
                else:
                    os.environ["TORCHSNAPSHOT_ENABLE_SHARDED_TENSOR_ELASTICITY_ROOT_ONLY"] = prev
            ctx.count("synth.view." + ("new-rank" if r >= W else "existing-rank"))
            if "err" in impl:
                ctx.count("synth.err." + impl["err"])
            # ---- model
            if ctx.driver:
                rep = ctx.driver.call(inp)
                mod = {"err": rep["err"]} if "err" in rep else {"manifest": canon_manifest(rep.get("manifest", []))}
                if mod != impl:
                    ctx.disagree(suite, {"case": case, "rank": r, "app": a, "requests": requests}, impl, mod)
            # ---- oracle: the rule, on trees
            if local is None:
                continue
            if case["rootOnly"]:
                continue            # the root-only knob deliberately disables elasticity for nested sharded tensors
            requested = set(requests)
            exp, nd, nw, marks, exp_nodes = _expected(trees[base][a], root, r, W, requested)
            n_deliv += nd
            n_with += nw
            try:
                _add_foreign_sharded(exp_nodes, trees[base][a], root, requests, sharded_info)
            except Irregular:
                ctx.count("synth.irregular-parent")
                continue
            containers = {k: v for k, v in local.items() if is_container_entry(v)}
            flat = {k: (k, v) for k, v in local.items() if not is_container_entry(v)}
            try:
                act = inflate(containers, flat, prefix=a)
            except Exception as e:
                if report:
                    ctx.fail("inflate-raises", f"inflate of the rank view raised {type(e).__name__}",
                             {"case": case, "rank": r, "app": a, "requests": requests}, repr(e)[:300], suite=suite)
                continue
            problems: List[Tuple[str, str]] = []
            _normalise_nonplain(exp, act, a, problems)

            def leaf_ok(e, a_, path):
                if a_ is None:      # the container lists the key but nothing was delivered for it
                    return ({"rep": "replicated-missing", "priv": "private-missing", "sh": "sharded-missing"}[e.kind],
                            f"{path}: key present, value None")
                p, entry = a_
                if e.kind == "sh":
                    if not isinstance(entry, ShardedTensorEntry):
                        return ("sharded-wrong-entry", f"{path}: {type(entry).__name__}")
                    want = sorted((tuple(s.offsets), tuple(s.sizes), s.tensor.location) for s in all_shards[p])
                    got = sorted((tuple(s.offsets), tuple(s.sizes), s.tensor.location) for s in entry.shards)
                    return None if want == got else ("sharded-shards-incomplete", f"{path}: saved {len(want)} shards, delivered {len(got)}")
                owner = 0 if e.kind == "rep" else r
                want = saved[owner].get(p) if owner < W else None
                if e.kind == "rep":
                    want = next((saved[q][p] for q in range(W) if p in saved[q]), None)
                    if getattr(want, "chunks", None) is not None:
                        key = lambda c: (tuple(c.offsets), c.tensor.location)
                        allc = sorted(key(c) for q in range(W) if p in saved[q] for c in saved[q][p].chunks)
                        if getattr(entry, "chunks", None) is None or len(allc) != 3:
                            return ("replicated-wrong-entry", f"{path}: {entry!r:.100}")
                        return None if allc == sorted(map(key, entry.chunks)) else ("replicated-chunks-incomplete", path)
                if entry != want:
                    sig = "replicated-wrong-entry" if e.kind == "rep" else "private-foreign-entry"
                    return (sig, f"{path}: delivered {entry!r:.120} expected {want!r:.120}")
                return None

            _compare(exp, act, a, leaf_ok, problems, marks)
            # no foreign private leaf anywhere in the view (independent of the tree comparison)
            for p, e in local.items():
                if is_container_entry(e) or isinstance(e, ShardedTensorEntry) or getattr(e, "replicated", False):
                    continue
                if r >= W or saved[r].get(p) != e:
                    problems.append(("private-leak", f"{p}: non-replicated entry {e!r:.100} in the view of rank {r}"))
            if report:
                for sig, detail in problems:
                    _fail(ctx, sig, detail, {"case": case, "rank": r, "app": a, "requests": requests},
                          {"view": show_manifest(enc_manifest(local, Interner()))[:40]}, suite=suite)
    ctx.case(suite, {"W": W, "W2": W2, "apps": case["apps"], "entries": len(md.manifest)},
             nontrivial=(n_deliv > 0 and n_with > 0), key=case)
    ctx.count(f"synth.W={W}")
    ctx.count(f"synth.W2={'>W' if W2 > W else ('=W' if W2 == W else '<W')}")


# ----------------------------------------------------------------------------------------------
# suite B: real take on W ranks, real restore on W' ranks
# ----------------------------------------------------------------------------------------------

_GLOO = {"ok": None}


def _ensure_gloo():
    if _GLOO["ok"] is None:
        try:
            import torch.distributed as dist
            if not dist.is_initialized():
                dist.init_process_group("gloo", store=dist.HashStore(), rank=0, world_size=1)
            _GLOO["ok"] = True
        except Exception:
            _GLOO["ok"] = False
    return _GLOO["ok"]


def _mk_sharded(global_t, row_blocks):
    """a real ShardedTensor over `global_t` (2-d) whose local shards are the given row blocks [(r0, r1)];
    built as a full cover on the 1-rank group, then trimmed to the local blocks"""
    import torch
    from torch.distributed._shard.sharded_tensor import Shard as TShard, ShardedTensor, ShardMetadata, ShardedTensorMetadata
    from torch.distributed._shard.sharded_tensor.metadata import TensorProperties
    rows = global_t.shape[0]
    cuts = sorted({0, rows} | {a for a, _ in row_blocks} | {b for _, b in row_blocks})
    shards = []
    for a, b in zip(cuts, cuts[1:]):
        shards.append(TShard(global_t[a:b].clone(), ShardMetadata(shard_offsets=[a, 0], shard_sizes=[b - a, global_t.shape[1]],
                                                                  placement="rank:0/cpu")))
    md = ShardedTensorMetadata(shards_metadata=[s.metadata for s in shards], size=global_t.shape,
                               tensor_properties=TensorProperties(dtype=global_t.dtype))
    st = ShardedTensor._init_from_local_shards_and_global_metadata(shards, md)
    keep = [s for s in shards if any(a <= s.metadata.shard_offsets[0] and s.metadata.shard_offsets[0] + s.metadata.shard_sizes[0] <= b
                                     for a, b in row_blocks)]
    st._local_shards = keep
    return st


def _real_value(rng_seed, leaf_id, cls, rank=None):
    """deterministic real value of a leaf (rank=None: replicated, same on all ranks)"""
    import torch
    salt = leaf_id * 31 + (0 if rank is None else (rank + 1) * 7919)
    if cls == "tensor":
        return torch.arange(3, dtype=torch.float32) + salt
    if cls == "chunked":
        return torch.arange(12, dtype=torch.int64).reshape(6, 2) + salt       # 96 bytes > chunk knob
    if cls == "prim":
        return [salt, f"s{salt}", float(salt) + 0.5, bool(salt % 2), bytes([salt % 256])][leaf_id % 5]
    return {("t", salt)}          # a set: stored as an object entry


def _global_sharded(leaf_id):
    import torch
    return (torch.arange(12 * 2, dtype=torch.float32).reshape(12, 2) + leaf_id * 1000)


def _holder_rows(leaf_id, rank, W):
    """the row block of the 12-row global tensor that `rank` holds when it saves sharded leaf `leaf_id`"""
    holders = [r for r in range(W) if (leaf_id * 7 + r * 3) % 4 != 0] or [0]
    i, n = holders.index(rank), len(holders)
    return (12 * i) // n, (12 * (i + 1)) // n


def _materialise(tree, rank, W, restoring=False, layout_seed=0):
    """turn a placeholder tree into real values (take) or zeroed targets (restore)"""
    import torch
    if isinstance(tree, Leaf):
        if tree.kind == "sh":
            g = _global_sharded(tree.id)
            if restoring:
                # the restoring rank's own sharding: a different split of the rows
                k = (layout_seed + tree.id + rank) % 4
                if k == 3 and os.environ.get('VERIF_C07_NODENSE'):
                    k = 0
                if k == 3:
                    # the restoring rank asks for the saved sharded tensor as a plain dense tensor (C07/C08: a dense
                    # destination is a legal request for a sharded entry)
                    return torch.full_like(g, -1.0)
                blocks = [[(0, 5)], [(3, 12)], [(0, 2), (7, 10)]][k]
                return _mk_sharded(torch.full_like(g, -1.0), blocks)
            return _mk_sharded(g, [_holder_rows(tree.id, rank, W)])
        v = _real_value(0, tree.id, tree.cls, None if tree.kind == "rep" else rank)
        if restoring and isinstance(v, torch.Tensor):
            return torch.zeros_like(v)
        if restoring:
            return None if tree.cls == "obj" else type(v)()
        return v
    if isinstance(tree, list):
        return [_materialise(v, rank, W, restoring, layout_seed) for v in tree]
    items = [(k, _materialise(v, rank, W, restoring, layout_seed)) for k, v in tree.items()]
    return OrderedDict(items) if isinstance(tree, OrderedDict) else dict(items)


def _rep_globs(trees0: Dict[str, Any], rng):
    """replication globs that match exactly the 'rep' leaves (and the reppartial ones, which are absent on a rank)"""
    from torchsnapshot.flatten import _encode
    globs = []
    for a, tree in trees0.items():
        root = _encode(a)
        for p, n, _, _ in _walk(tree, root):
            if isinstance(n, Leaf) and n.kind in ("rep",):
                globs.append(p.replace("[", "[[]"))
    return globs


def _harness_timeout(ctx: Ctx, results) -> bool:
    """a simulated collective timed out (machine overload): a harness condition, never a finding"""
    excs = [v for k, v in results if k != "ok"]
    if excs and all(type(v).__name__ == "Mismatch" and ("timeout" in str(v) or "did not finish" in str(v) or "hung" in str(v))
                    for v in excs):
        ctx.count("harness.collective-timeout")
        ctx.notes.append("a simulated collective timed out (overloaded machine); case skipped")
        return True
    return False


def _take_restore_one(ctx: Ctx, case, suite="take_restore", report=True):
    import torch
    import gen
    import sim
    from torch.distributed._shard.sharded_tensor import ShardedTensor
    from torchsnapshot import Snapshot
    from torchsnapshot.flatten import _encode
    W, W2 = case["W"], case["W2"]
    trees = _build_synth(case)
    # globs: one (escaped) pattern per replicated leaf path; also for "reppartial" leaves, which match a glob but are
    # absent on one rank and must therefore stay private. A path is only used when it names the same leaf on every rank
    # that has it (list indices shift when an earlier element is missing on a rank).
    at: Dict[str, List[Leaf]] = {}
    for r in range(W):
        for a, tree in trees[r].items():
            for p, n, _, _ in _walk(tree, _encode(a)):
                if isinstance(n, Leaf):
                    at.setdefault(p, []).append(n)
    globs = set()
    for p, ls in at.items():
        if len({(n.id, n.kind == "sh") for n in ls}) != 1:
            continue
        if ls[0].kind == "rep" and len(ls) == W:
            globs.add(_glob_escape(p))
        elif ls[0].kind == "priv" and len(ls) < W and ls[0].id < 100000 and _template_kind(case, ls[0].id) == "reppartial":
            globs.add(_glob_escape(p))
            ctx.count("take.glob-partial-presence")
    globs = sorted(globs)
    knobs = dict(case.get("knobs") or {})
    world = sim.World(W)

    def take(rank, pg):
        app = {a: gen.RecStateful(_materialise(t, rank, W)) for a, t in trees[rank].items()}
        with sim.knobs(**knobs):
            snap = Snapshot.take("mem://c07", app, pg=pg, replicated=list(globs))
        return snap.metadata if rank == 0 else None

    res = world.run(take)
    inp = {"case": case, "globs": globs}
    if _harness_timeout(ctx, res):
        return
    if any(k != "ok" for k, _ in res):
        bad = [(i, repr(v)[:300]) for i, (k, v) in enumerate(res) if k != "ok"]
        if report:
            ctx.fail("take-raises", "Snapshot.take raised in the simulator", inp, bad, suite=suite)
        return
    md = res[0][1]

    # what each restoring rank asks for
    world2 = sim.World(W2)
    world2.storage = world.storage
    shapes = []
    for r in range(W2):
        base = r if r < W else 0
        shape = {a: copy.deepcopy(t) for a, t in trees[base].items()}
        shapes.append(shape)
    # elasticity: a rank drops a sharded tensor it saved / asks for one it did not save (only at the top level of an
    # app key, under a plain key, so that the restore is well defined)
    import random
    rq = random.Random(case["req"]["seed"])
    sharded_top: Dict[str, List[Tuple[Any, Leaf]]] = {}
    for r in range(W):
        for a, t in trees[r].items():
            for k, v in t.items():
                if isinstance(v, Leaf) and v.kind == "sh":
                    if not any(k == q and type(k) is type(q) for q, _ in sharded_top.setdefault(a, [])):
                        sharded_top[a].append((k, v))
    foreign = []
    for r in range(W2):
        for a, t in shapes[r].items():
            for k in [k for k, v in t.items() if isinstance(v, Leaf) and v.kind == "sh"]:
                if rq.random() < 0.25:
                    del t[k]
            for k, leaf in sharded_top.get(a, []):
                if not any(k == q and type(k) is type(q) for q in t.keys()) and str(k) not in {str(q) for q in t.keys()} and rq.random() < 0.7:
                    t[k] = Leaf("sh", leaf.id, "sharded", None)
                    foreign.append((r, a, k))

    def restore(rank, pg):
        app = {a: gen.RecStateful(_materialise(t, rank, W, restoring=True, layout_seed=case["seed"])) for a, t in shapes[rank].items()}
        with sim.knobs(**knobs):
            Snapshot("mem://c07", pg=pg).restore(app)
        return app

    res2 = world2.run(restore)
    if _harness_timeout(ctx, res2):
        return
    if any(k != "ok" for k, _ in res2):
        bad = [(i, repr(v)[:300]) for i, (k, v) in enumerate(res2) if k != "ok"]
        if report:
            ctx.fail("restore-raises", "Snapshot.restore raised in the simulator", inp, bad, suite=suite)
        return

    # rows of each sharded tensor that some rank really saved
    covered: Dict[int, List[Tuple[int, int]]] = {}
    for q in range(W):
        for a, t in trees[q].items():
            for p, n, _, _ in _walk(t, _encode(a)):
                if isinstance(n, Leaf) and n.kind == "sh":
                    covered.setdefault(n.id, []).append(_holder_rows(n.id, q, W))
    n_deliv = n_with = 0
    for r in range(W2):
        base = r if r < W else 0
        for a, st in res2[r][1].items():
            root = _encode(a)
            target_shape = shapes[r][a]
            requested = {p for p, n, _, _ in _walk(target_shape, root) if isinstance(n, Leaf) and n.kind == "sh"}
            # expectation from what the base rank saved, plus requested foreign sharded tensors (top level)
            exp, nd, nw, marks, exp_nodes = _expected(trees[base][a], root, r, W, requested)
            n_deliv += nd
            n_with += nw
            problems: List[Tuple[str, str]] = []
            act = st.loaded
            if st.load_calls != 1:
                if report:
                    ctx.fail("load-state-dict-calls", f"rank {r} app {a}: load_state_dict called {st.load_calls} times",
                             dict(inp, rank=r, app=a), None, suite=suite)
                continue
            for (rr, aa, k) in foreign:
                if rr == r and aa == a:
                    exp[k] = Leaf("sh", target_shape[k].id, "sharded", None, "float")
            act = copy.copy(act)              # shallow: only top-level keys are ever removed by the normalisation
            _normalise_nonplain(exp, act, a, problems)

            def leaf_ok(e, v, path):
                if e.kind == "sh":
                    g = torch.full_like(_global_sharded(e.id), -1.0)
                    for (a0, b0) in covered.get(e.id, []):
                        g[a0:b0] = _global_sharded(e.id)[a0:b0]
                    if (case["seed"] + e.id + r) % 4 == 3 and not os.environ.get('VERIF_C07_NODENSE'):
                        # dense destination: the whole saved tensor (rows nobody saved keep the target's -1)
                        if isinstance(v, ShardedTensor) or not isinstance(v, torch.Tensor):
                            return ("sharded-wrong-type", f"{path}: dense target came back as {type(v).__name__}")
                        if not torch.equal(v, g):
                            return ("sharded-dense-target-wrong-values", f"{path}: dense destination differs from the saved global tensor")
                        ctx.count("take.sharded_into_dense")
                        return None
                    if not isinstance(v, ShardedTensor):
                        return ("sharded-wrong-type", f"{path}: {type(v).__name__}")
                    for s in v.local_shards():
                        o, z = s.metadata.shard_offsets, s.metadata.shard_sizes
                        if not torch.equal(s.tensor, g[o[0]:o[0] + z[0]]):
                            return ("sharded-wrong-values", f"{path}: local shard at {o} differs from the saved global tensor")
                    return None
                want = _real_value(0, e.id, e.cls, None if e.kind == "rep" else (e.owner if e.owner is not None else r))
                d = gen.deep_eq(want, v, path)
                if d:
                    return ("replicated-wrong-value" if e.kind == "rep" else "private-wrong-value", d)
                return None

            _compare(exp, act, a, leaf_ok, problems, marks)
            if report:
                for sig, detail in problems:
                    _fail(ctx, sig, detail, dict(inp, rank=r, app=a), {"loaded": repr(act)[:600]}, suite=suite)
    # the committed metadata vs the model: per-rank views
    if ctx.driver:
        from torchsnapshot.manifest_ops import get_manifest_for_rank
        intern = Interner()
        try:
            enc = enc_manifest(md.manifest, intern)
        except TypeError:
            enc = None
        if enc is not None:
            for r in range(W2):
                local, merged = get_manifest_for_rank(metadata=md, rank=r)
                impl = {"local": canon_manifest(enc_manifest(local, intern)), "merged": canon_manifest(enc_manifest(merged, intern))}
                rep = ctx.driver.call({"op": "mo_view", "W": md.world_size, "manifest": enc, "rank": r})
                mod = {"err": rep["err"]} if "err" in rep else {"local": canon_manifest(rep["local"]), "merged": canon_manifest(rep["merged"])}
                if impl != mod:
                    ctx.disagree(suite + ".view", dict(inp, rank=r), impl, mod)
    ctx.case(suite, {"W": W, "W2": W2, "apps": case["apps"], "globs": globs[:6], "knobs": knobs, "foreign_sharded": len(foreign)},
             nontrivial=(n_deliv > 0 and n_with > 0), key=case)
    ctx.count(f"take.W={W}")
    ctx.count(f"take.W2={'>W' if W2 > W else ('=W' if W2 == W else '<W')}")
    ctx.count("take.foreign_sharded", len(foreign))


def _glob_escape(p: str) -> str:
    return "".join("[" + c + "]" if c in "*?[" else c for c in p)


def _template_kind(case, leaf_id):
    def go(n):
        if n["t"] in ("dict", "odict", "list"):
            for _, c in n["items"]:
                r = go(c)
                if r:
                    return r
            return None
        return n["t"] if n["id"] == leaf_id else None
    for t in case["templates"].values():
        r = go(t)
        if r:
            return r
    return None


# ----------------------------------------------------------------------------------------------
# adversarial stream: hand-written manifests (bad ranks, missing parents, list parents, rank >= W with W = 0 …)
# ----------------------------------------------------------------------------------------------

def _adversarial(ctx: Ctx):
    from torchsnapshot.manifest import DictEntry, ListEntry, OrderedDictEntry, PrimitiveEntry, Shard, ShardedTensorEntry, SnapshotMetadata
    from torchsnapshot.manifest_ops import get_manifest_for_rank, handle_sharded_tensor_elasticity
    T = lambda loc, rep=False: _tensor_entry(loc, rep, 1)
    SH = lambda loc, off: ShardedTensorEntry(shards=[Shard(offsets=[off], sizes=[2], tensor=T(loc))])
    cases = [
        # (W, manifest, rank, requests)
        (2, {"0/a": DictEntry(keys=["x"]), "0/a/x": T("0/a/x"), "1/a": DictEntry(keys=[])}, 5, []),
        (2, {"0/a/x": T("0/a/x")}, 3, []),                                  # parent container missing: KeyError
        (2, {"0/a": ListEntry(), "0/a/0": T("0/a/0"), "0/a/1": T("replicated/a/1", True)}, 2, []),
        (1, {"0/a": DictEntry(keys=["s"]), "1/a": DictEntry(keys=[])}, 0, []),     # rank token out of range: IndexError
        (1, {"x/a": DictEntry(keys=[])}, 0, []),                              # non-numeric rank token
        (2, {"0/a": ListEntry(), "1/a": ListEntry(), "1/a/0": SH("sharded/a/0_0", 0)}, 0, ["a/0"]),   # list parent: AttributeError
        (2, {"0/a": DictEntry(keys=["p"]), "0/a/p": T("0/a/p"), "1/a": DictEntry(keys=["s"]), "1/a/s": SH("sharded/a/s_0", 0)}, 0, ["a/s", "a/s"]),
        (2, {"0/a": DictEntry(keys=["s"]), "0/a/s": SH("sharded/a/s_0", 0), "1/a": DictEntry(keys=["s"]), "1/a/s": SH("sharded/a/s_2", 2)}, 1, []),
        (2, {"0/a": DictEntry(keys=["s"]), "0/a/s": SH("sharded/a/s_2", 2), "1/a": DictEntry(keys=["s"]), "1/a/s": SH("sharded/a/s_0", 0)}, 7, ["a/s"]),
        (2, {"0/a": OrderedDictEntry(keys=[True, 1, "1", "c/d"]), "0/a/True": T("0/a/True"), "0/a/1": T("replicated/a/1", True),
             "0/a/c%2Fd": T("0/a/c%2Fd"), "1/a": OrderedDictEntry(keys=[])}, 2, []),
        (3, {"0/a": DictEntry(keys=["q"]), "0/a/q": PrimitiveEntry("int", "1", True), "2/a": DictEntry(keys=["q", "z"]),
             "2/a/z": PrimitiveEntry("int", "2", False), "1/b": DictEntry(keys=[])}, 2, []),
        (2, {"0/a": DictEntry(keys=["b"]), "0/a/b": DictEntry(keys=["s"]), "0/a/b/s": SH("sharded/a/b/s_0", 0), "1/a": DictEntry(keys=[])}, 1, ["a/b/s"]),
    ]
    for W, man, rank, reqs in cases:
        md = SnapshotMetadata(version="0.0.0", world_size=W, manifest=copy.deepcopy(man))
        intern = Interner()
        inp = {"op": "mo_restore_view", "W": W, "manifest": enc_manifest(md.manifest, intern), "rank": rank, "rootOnly": False,
               "requests": [S(p) for p in reqs]}
        try:
            local, merged = get_manifest_for_rank(metadata=md, rank=rank)
            handle_sharded_tensor_elasticity(manifest=local, merged_sd_entries=merged, tensor_requests=list(reqs))
            impl = {"manifest": canon_manifest(enc_manifest(local, intern))}
        except (KeyError, IndexError, AttributeError, ValueError) as e:
            impl = {"err": err_name(e)}
        if ctx.driver:
            rep = ctx.driver.call(inp)
            mod = {"err": rep["err"]} if "err" in rep else {"manifest": canon_manifest(rep.get("manifest", []))}
            if mod.get("err") == "BadRank":
                mod = {"err": "ValueError"}
            if mod != impl:
                ctx.disagree("view_adversarial", {"W": W, "manifest": show_manifest(inp["manifest"]), "rank": rank, "requests": reqs}, impl, mod)
        ctx.count("adversarial." + (impl.get("err") or "ok"))
        ctx.case("view_adversarial", {"W": W, "rank": rank, "paths": list(man)[:5], "impl": impl.get("err", "ok")}, nontrivial=True,
                 key=[W, sorted(man), rank, reqs])


# ----------------------------------------------------------------------------------------------
# corpus of past failures (minimised)
# ----------------------------------------------------------------------------------------------

def _corpus(ctx: Ctx):
    """D14 (fixed): a rank >= W restores a snapshot whose rank 0 has private leaves under escaped / bool / int keys;
    each key must disappear from the container and nothing may raise."""
    from torchsnapshot.flatten import inflate
    from torchsnapshot.manifest import DictEntry, SnapshotMetadata
    from torchsnapshot.manifest_utils import is_container_entry
    from torchsnapshot.manifest_ops import get_manifest_for_rank
    keys = ["c/d", "%", True, 1, "w%2Fz", "plain"]
    man = {"0/app": DictEntry(keys=list(keys) + ["rep"]), "0/app/rep": _tensor_entry("replicated/app/rep", True, 2)}
    for k in keys:
        man[f"0/app/{_enc_comp(k)}"] = _tensor_entry(f"0/app/{_enc_comp(k)}", False, 1)
    md = SnapshotMetadata(version="0.0.0", world_size=1, manifest=man)
    inp = {"corpus": "D14", "keys": [repr(k) for k in keys]}
    try:
        local, _ = get_manifest_for_rank(metadata=md, rank=3)
        got = inflate({k: v for k, v in local.items() if is_container_entry(v)},
                      {k: k for k, v in local.items() if not is_container_entry(v)}, prefix="app")
        if list(got.keys()) != ["rep"] or local["app"].keys != ["rep"]:
            ctx.fail("new-rank-container-keys", "a rank >= W kept keys of removed private leaves (or lost the replicated one)",
                     inp, {"keys": repr(local["app"].keys), "inflated": repr(got)}, suite="corpus")
    except Exception as e:
        ctx.fail("new-rank-view-raises", f"get_manifest_for_rank raised {type(e).__name__} for a rank >= W (D14)", inp, repr(e)[:300],
                 suite="corpus")
    if ctx.driver:
        intern = Interner()
        rep = ctx.driver.call({"op": "mo_view", "W": 1, "manifest": enc_manifest(md.manifest, intern), "rank": 3})
        try:
            local, merged = get_manifest_for_rank(metadata=md, rank=3)
            impl = {"local": canon_manifest(enc_manifest(local, intern))}
        except Exception as e:
            impl = {"err": err_name(e)}
        mod = {"err": rep["err"]} if "err" in rep else {"local": canon_manifest(rep["local"])}
        if impl != mod:
            ctx.disagree("corpus", inp, impl, mod)
    ctx.case("corpus", inp, nontrivial=True)


# ----------------------------------------------------------------------------------------------

def run(ctx: Ctx):
    _known_seen.clear()
    _corpus(ctx)
    _adversarial(ctx)
    # whole-job tie of C07_world_replicated_everywhere (shared with C01)
    from props import c01_world
    for i in range(ctx.n(30, 400)):
        c01_world.world_tie_case(ctx, c01_world.gen_world_case(ctx.rng), "world_tie")
    pairs = [(W, W2) for W in range(1, 7) for W2 in range(1, 7)]
    per_pair = ctx.n(4, 40)
    for i in range(per_pair):
        # the first round always runs (a slow Lean build must not leave the tie unchecked)
        if i > 0 and ctx.time_left() < 35:
            ctx.notes.append(f"synth suite stopped early before round {i}")
            break
        for W, W2 in pairs:
            _synth_one(ctx, _gen_synth_case(ctx.rng, W, W2))
    if not _ensure_gloo():
        ctx.notes.append("1-rank gloo group unavailable: take/restore suite runs without ShardedTensors")
    rounds = ctx.n(1, 6)
    for i in range(rounds):
        order = list(pairs)
        ctx.rng.shuffle(order)
        for j, (W, W2) in enumerate(order):
            if (i > 0 or j >= 8) and ctx.time_left() < 8:
                ctx.notes.append(f"take/restore suite stopped early in round {i} after {j} pairs")
                return
            case = _gen_synth_case(ctx.rng, W, W2, sh_in_list=False)
            if not _GLOO["ok"]:
                case = _strip_sharded(case)
            case["knobs"] = {"chunk": ctx.rng.choice([16, 40, 1000, None]), "nobatch": ctx.rng.random() < 0.4,
                             "slab": ctx.rng.choice([16, 64, 4096, None])}
            _take_restore_one(ctx, case)


def _strip_sharded(case):
    def go(n):
        if n["t"] in ("dict", "odict", "list"):
            for it in n["items"]:
                go(it[1])
        elif n["t"] == "sh":
            n["t"], n["cls"] = "priv", "tensor"
    for t in case["templates"].values():
        go(t)
    return case


def replay(ctx: Ctx, rec):
    inp = rec["input"]
    if "glob" in inp or "glob" in (inp.get("case") or {}):
        from props import c01_world
        c01_world.world_tie_case(ctx, inp.get("case") or inp, "replay")
        for f in ctx.failures[:10]:
            print("FAIL", f["sig"], f["what"], f["observed"])
        return
    case = inp.get("case")
    if case is None:
        print("corpus / adversarial case: re-running the fixed streams")
        _corpus(ctx)
        _adversarial(ctx)
        return
    before = len(ctx.failures)
    if rec.get("suite", "").startswith("take_restore"):
        _ensure_gloo()
        _take_restore_one(ctx, case)
    else:
        _synth_one(ctx, case)
    for f in ctx.failures[before:]:
        print("FAIL", f["sig"], "-", f["what"])
    for d in ctx.disagreements:
        print("DISAGREE", d["suite"], "\n impl :", str(d["impl"])[:800], "\n model:", str(d["model"])[:800])
    if len(ctx.failures) == before and not ctx.disagreements:
        print("replayed: no failure")
