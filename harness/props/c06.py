"""C06 — Replicated objects are written once, by one rank, with balanced load."""
from __future__ import annotations

import copy
import fnmatch
import itertools
import os
import pickle
from typing import Any, Dict, List, Optional, Tuple

from common import Ctx
from manifest_enc import Interner, S, unS, canon_manifest, enc_entry, enc_manifest, err_name

PROP = "C06"
LEAN_MODULE = "TsProofs.Properties.C06"
THEOREMS = [
    "Ts.Partition.C06_exactly_once",
    "Ts.Partition.C06_balance",
    "Ts.Partition.C06_balance_bytes",
    "Ts.Partition.C06_partition_chunks",
    "Ts.Partition.C06_restore_complete",
    "Ts.Partition.C06_restore_complete_partitioned",
    "Ts.Partition.C06_partial_presence_private",
    # whole-job data plane (TsModel/World.lean; tied by C01's world_tie suite)
    "Ts.World.C06_world_written_once",
    "Ts.World.C06_world_kept_nodup",
    "Ts.World.C06_world_replicated_bytes_once",
    "Ts.World.C06_world_partition_independent_bytes",
    "Ts.World.C06_world_partition_independent_restore",
    "Ts.World.C07_world_replicated_everywhere",
    # which paths a replication glob selects (TsModel/Glob.lean, tied to fnmatch.fnmatch and to the real replicated sets)
    "Ts.Glob.glob_subtree",
    "Ts.Glob.glob_subtree_sibling",
    "Ts.Glob.glob_suffix",
    "Ts.Glob.glob_star_all",
    "Ts.Glob.glob_literal",
    "Ts.Glob.replicated_iff",
    "Ts.Glob.replicatedPaths_eq",
]
BUDGET_S = (100, 840)
RULE = ("partition: W in 1..8 simulated ranks, random flat states of replicated / non-replicated tensors and objects with "
        "arbitrary sizes (0..400 bytes), chunk thresholds 8..1000, replication globs incl. paths missing on one rank and "
        "'replicated' tensors that differ between ranks; the real _calculate_replicated_entries, prepare_write, "
        "partition_write_reqs (through the fake process group) and consolidate_replicated_entries run unmodified; their "
        "inputs and the broadcast partition are read from the collective traffic, the visiting order is observed through a "
        "recording rank_to_size list; the Lean assign / partitionRank / consolidate / replicatedPaths replay the same inputs. "
        "take_restore: real Snapshot.take with batching off, oracle on the storage write log (each replicated location written "
        "once, balance inequality on real bytes) and real restore on every rank. loads_exhaustive: every load vector / unit "
        "size vector in a small scope through the real _partition_write_loads. A case is non-trivial if at least two ranks "
        "and two replicated units are involved.")
TRUSTED = ["fnmatch (stdlib) decides which paths match a glob; the model takes the match result per path",
           "write-load sizes are the partitioner's own estimates (tensor nbytes / sys.getsizeof of objects)",
           "DTensor partial replication is not modelled"]
ASSUMPTIONS = ["replicated objects hold the same value on every rank (the caller's contract); when they do not, only the "
               "assignment function is compared, not the restored values"]
LEVEL_TEXT = ("Lean 4 theorems over the executable model of _partition_write_loads / partition_write_reqs / "
              "consolidate_replicated_entries / _calculate_replicated_entries, unbounded in world size, number and sizes of "
              "units, and for every iteration order of the partitionables set: every replicated write unit goes to exactly one "
              "rank (replicated bytes written = sum of unit sizes), every rank that received work ends at most its last unit "
              "above any other rank, every rank's view after consolidation holds all chunks, and a glob-matching path missing on "
              "a rank stays private. Tied to the real code on every run by differential correspondence through the simulated "
              "process group; the property is also evaluated on real write logs and restores."
              ' Whole-job data plane: a replicated unit is kept by exactly the rank the partition names, and summed over all ranks the replicated bytes written are those of one copy, for every partition (C06_world_*); the glob model proves that K/** selects exactly the paths below K/ (glob_subtree, glob_subtree_sibling).')
LEVEL_NOTE = ("Trusted: Lean kernel, the hand model lean/TsModel/Partition.lean (+ManifestOps.lean), the harness/simulator; "
              "fnmatch and the size estimates are inputs of the model.")
TECHNIQUE = "Lean 4 proof (greedy-assignment induction) + differential correspondence through the simulated process group + write-log oracle"


# ----------------------------------------------------------------------------------------------
# state generation
# ----------------------------------------------------------------------------------------------

import threading as _threading
_ENV_LOCK = _threading.Lock()


def _unit_bytes(w, part) -> int:
    """bytes of one write unit, computed independently of the partitioner's own accounting for tensors (element count x
    element size of the piece, whatever its serializer); objects keep the partitioner's estimate (sys.getsizeof)"""
    import math
    import torch
    from torchsnapshot.serialization import string_to_dtype
    e = getattr(w.buffer_stager, "entry", None)
    if e is not None and hasattr(e, "dtype") and hasattr(e, "shape"):
        dt = string_to_dtype(e.dtype)
        return math.prod(e.shape) * torch.empty((), dtype=dt).element_size()
    return part._estimate_write_req_storage_size(w)


def _gen_partition_case(rng, W: int) -> Dict[str, Any]:
    n = rng.randint(1, 7)
    items = []
    for i in range(n):
        kind = rng.choices(["rep_tensor", "rep_obj", "priv_tensor", "priv_obj", "partial", "rep_mismatch", "rep_prim"],
                           [6, 2, 4, 1, 2, 1, 1])[0]
        name = rng.choice(["w", "b", "x/y", "p%", "emb", "0", "t"]) + str(i)
        it = {"kind": kind, "name": name, "numel": rng.choice([0, 1, 2, 3, 5, 8, 16, 33, 64, 100]),
              # complex64 travels through torch.save: its storage bytes are the tensor's, its staging cost twice that
              "dtype": rng.choice(["float32", "float64", "int8", "int16", "complex64", "complex64"]), "objlen": rng.choice([0, 3, 40, 300])}
        if kind == "priv_tensor":
            it["per_rank"] = [rng.choice([0, 1, 4, 16, 50, 100]) for _ in range(W)]
            it["priv_dtype"] = [rng.choice(["float32", "float32", "complex64"]) for _ in range(W)]
        if kind == "partial":
            it["absent"] = rng.randrange(W)
            it["sub"] = rng.choice(["tensor", "obj"])
        if kind == "rep_mismatch":
            it["odd_rank"] = rng.randrange(W)
            it["how"] = rng.choice(["shape", "dtype"])
        items.append(it)
    globs = rng.choice([["app/*"], ["**"]] + [None] * 6)
    case = {"W": W, "items": items, "globs": globs, "chunk": rng.choice([8, 16, 40, 64, 1000]),
            "private_rank_only": rng.random() < 0.2}
    if W > 1 and rng.random() < 0.12:
        # ranks configured with different max-chunk-size overrides: the same replicated tensor is chunked differently
        case["chunk_per_rank"] = [rng.choice([8, 16, 40, 64]) for _ in range(W)]
    return case


def _build_state(case, rank: int):
    """flat state dict of `rank` (the harness flattens with the real flatten())"""
    import torch
    W = case["W"]
    sd: Dict[str, Any] = {}
    for i, it in enumerate(case["items"]):
        k, name = it["kind"], it["name"]
        dt = getattr(torch, it["dtype"])
        if k == "rep_tensor":
            sd[name] = (torch.arange(it["numel"]) % 100 + i).to(dt)
        elif k == "rep_obj":
            sd[name] = {("o", i): "z" * it["objlen"]}
        elif k == "rep_prim":
            sd[name] = i * 11
        elif k == "priv_tensor":
            sd[name] = torch.full((it["per_rank"][rank],), float(rank + 1), dtype=getattr(torch, (it.get("priv_dtype") or ["float32"] * W)[rank]))
        elif k == "priv_obj":
            sd[name] = {("p", rank): "q" * (it["objlen"] + rank)}
        elif k == "partial":
            if W > 1 and rank == it["absent"]:
                continue
            sd[name] = (torch.arange(it["numel"]) + rank).to(dt) if it["sub"] == "tensor" else {("pp", rank)}
        elif k == "rep_mismatch":
            odd = rank == it["odd_rank"] and W > 1
            if it["how"] == "shape":
                sd[name] = torch.zeros(it["numel"] + (7 if odd else 0), dtype=dt)
            else:
                sd[name] = torch.zeros(it["numel"], dtype=torch.float64 if odd else torch.float32)
    return sd


def _globs_for(case) -> List[str]:
    """replication globs: explicit ones from the case, else one per item that is meant to be replicated"""
    from torchsnapshot.flatten import _encode
    if case["globs"] is not None:
        return list(case["globs"])
    out = []
    for it in case["items"]:
        if it["kind"] in ("rep_tensor", "rep_obj", "rep_prim", "partial", "rep_mismatch"):
            out.append("app/" + "".join("[" + c + "]" if c in "*?[" else c for c in _encode(it["name"])))
    return out


# ----------------------------------------------------------------------------------------------
# observing the real partitioner
# ----------------------------------------------------------------------------------------------

class RecList(list):
    """a rank_to_size list that records every store (rank, new value)"""

    def __init__(self, it):
        super().__init__(it)
        self.sets: List[Tuple[int, int]] = []

    def __setitem__(self, i, v):
        self.sets.append((int(i), int(v)))
        super().__setitem__(i, v)


class _Observer:
    """wraps partitioner._partition_write_loads (when it exists) to hand it a recording rank_to_size list"""

    def __init__(self):
        import torchsnapshot.partitioner as part
        self.part = part
        self.orig = getattr(part, "_partition_write_loads", None)
        self.calls: List[Dict[str, Any]] = []

    def __enter__(self):
        if self.orig is not None:
            obs = self

            def wrapped(rank_to_entries, rank_to_write_loads, rank_to_size, world_size):
                rec = RecList(rank_to_size)
                start = list(rec)
                res = obs.orig(rank_to_entries=rank_to_entries, rank_to_write_loads=rank_to_write_loads,
                               rank_to_size=rec, world_size=world_size)
                obs.calls.append({"start": start, "sets": list(rec.sets), "final": list(rec)})
                return res
            self.part._partition_write_loads = wrapped
        return self

    def __exit__(self, *a):
        if self.orig is not None:
            self.part._partition_write_loads = self.orig


def _wl(w) -> List[Any]:
    return [S(w.logical_path), int(w.write_req_idx), int(w.size)]


def _rank_input(entries, loads, size, intern) -> Dict[str, Any]:
    return {"entries": enc_manifest(entries, intern),
            "loads": [[S(p), [[int(w.write_req_idx), int(w.size)] for w in ws]] for p, ws in loads.items()],
            "size": int(size)}


def _rank_input_wire(ri):
    """the driver wants loads as [path, [[path, idx, size]]]"""
    return {"entries": ri["entries"], "size": ri["size"],
            "loads": [[p, [[p, i, s] for i, s in ws]] for p, ws in ri["loads"]]}


def _collective_payloads(world, op):
    """[(seq, {rank: payload})] of every completed collective `op` in the last run, in order"""
    out = []
    for seq in sorted(world.hub.round):
        slot = world.hub.round[seq]
        if slot and all(o == op for o, _ in slot.values()):
            out.append((seq, {r: pickle.loads(p) for r, (o, p) in slot.items()}))
    return out


def _harness_timeout(ctx: Ctx, results) -> bool:
    """a simulated collective timed out (machine overload): a harness condition, never a finding"""
    excs = [v for k, v in results if k != "ok"]
    if excs and all(type(v).__name__ == "Mismatch" and ("timeout" in str(v) or "did not finish" in str(v) or "hung" in str(v))
                    for v in excs):
        ctx.count("harness.collective-timeout")
        ctx.notes.append("a simulated collective timed out (overloaded machine); case skipped")
        return True
    return False


def _balance_problems(final: List[int], last_size: Dict[int, int]) -> List[str]:
    """the proved bound: a rank that received work ends at most its last unit above every other rank"""
    bad = []
    for r, s in last_size.items():
        for q in range(len(final)):
            if final[r] > final[q] + s:
                bad.append(f"rank {r} ends at {final[r]} > rank {q} at {final[q]} + its last unit {s}")
    return bad


# ----------------------------------------------------------------------------------------------
# suite: real partition_write_reqs through the fake process group
# ----------------------------------------------------------------------------------------------

def _partition_one(ctx: Ctx, case, suite="partition", report=True):
    import sim
    from torchsnapshot.flatten import flatten
    from torchsnapshot.io_preparer import prepare_write
    from torchsnapshot.manifest import PrimitiveEntry
    from torchsnapshot.partitioner import consolidate_replicated_entries, partition_write_reqs
    from torchsnapshot.pg_wrapper import PGWrapper
    from torchsnapshot.snapshot import Snapshot
    from torchsnapshot.dtensor_utils import is_sharded
    import torchsnapshot.partitioner as part

    W = case["W"]
    globs = _globs_for(case)
    world = sim.World(W)

    def fn(rank, pg):
        pgw = PGWrapper(pg)
        _, flattened = flatten(_build_state(case, rank), prefix="app")
        repl = Snapshot._calculate_replicated_entries(flattened, set(globs), pgw)
        entries, wrs, prims = {}, {}, {}
        per_rank_chunk = (case.get("chunk_per_rank") or [None] * W)[rank]
        # the chunk-size knob is an environment variable: ranks may run with different values.  The env is process-wide
        # here, so a rank with its own value prepares its write requests under a lock (prepare_write does no collective).
        import contextlib
        cm = contextlib.ExitStack()
        if per_rank_chunk is not None:
            cm.enter_context(_ENV_LOCK)
            cm.enter_context(sim.knobs(chunk=per_rank_chunk))
        with cm:
            for p, obj in flattened.items():
                e, w = prepare_write(obj=obj, logical_path=p, rank=rank, replicated=p in repl)
                if isinstance(e, PrimitiveEntry):
                    prims[p] = e
                else:
                    entries[p], wrs[p] = e, w
        new_entries, new_wrs = partition_write_reqs(entries=entries, write_reqs=wrs, pg=pgw)
        return {"flat": [(p, is_sharded(o)) for p, o in flattened.items()], "repl": sorted(repl), "entries": entries, "prims": prims,
                "sizes": {p: [_unit_bytes(w, part) for w in ws] for p, ws in wrs.items()},
                "new_entries": new_entries, "new_wr_paths": {p: [w.path for w in ws] for p, ws in new_wrs.items()},
                "wr_paths": {p: [w.path for w in ws] for p, ws in wrs.items()}}

    with sim.knobs(chunk=case["chunk"]), _Observer() as obs:
        res = world.run(fn)
    inp = {"case": case}
    if _harness_timeout(ctx, res):
        return
    if any(k != "ok" for k, _ in res):
        bad = [(i, repr(v)[:300]) for i, (k, v) in enumerate(res) if k != "ok"]
        if report:
            ctx.fail("partition-raises", "partition_write_reqs raised in the simulator", inp, bad, suite=suite)
        return
    outs = [v for _, v in res]
    intern = Interner()

    # ---- which paths are replicated: real vs model vs rule
    repl = outs[0]["repl"]
    if any(o["repl"] != repl for o in outs):
        if report:
            ctx.fail("replicated-paths-differ-between-ranks", "ranks disagree on the replicated path set", inp, [o["repl"] for o in outs], suite=suite)
        return
    match = lambda p: any(fnmatch.fnmatch(p, g) for g in globs)
    if ctx.driver:
        rep = ctx.driver.call({"op": "pt_replicated",
                               "rankFlat": [[[S(p), bool(match(p)), bool(sh)] for p, sh in o["flat"]] for o in outs]})
        if sorted(unS(p) for p in rep.get("paths", [])) != repl:
            ctx.disagree(suite + ".replicated", inp, repl, rep)
    everywhere = set.intersection(*[{p for p, _ in o["flat"]} for o in outs])
    for r, o in enumerate(outs):
        for p, _ in o["flat"]:
            should = match(p) and p in everywhere
            if (p in repl) != should:
                if report:
                    ctx.fail("partial-presence-not-private" if p in repl else "replicated-path-not-recognised",
                             f"{p}: matches a glob={match(p)}, present on all ranks={p in everywhere}, treated as replicated={p in repl}",
                             inp, {"rank": r}, suite=suite)
            e = o["entries"].get(p) or o["prims"].get(p)
            if not should and e is not None:
                loc = getattr(e, "location", None) or (e.chunks[0].tensor.location if getattr(e, "chunks", None) else None)
                if getattr(e, "replicated", False) or (loc is not None and not loc.startswith(f"{r}/")):
                    if report:
                        ctx.fail("private-entry-not-per-rank", f"{p}: non-replicated entry flagged/located as shared: {e!r:.160}", inp,
                                 {"rank": r}, suite=suite)
            if match(p) and p not in everywhere:
                ctx.count("partition.glob-match-missing-on-a-rank")

    # ---- whatever the ranks' chunk layouts: the pieces of a replicated chunked tensor kept by all ranks together tile it
    try:
        from torchsnapshot.manifest import ChunkedTensorEntry as _CTE
        for p in res[0][1]["repl"]:
            ivs = []
            rows = None
            for r in range(W):
                e = res[r][1]["new_entries"].get(p)
                if isinstance(e, _CTE):
                    rows = e.shape[0] if e.shape else 0
                    ivs += [(c.offsets[0], c.offsets[0] + c.sizes[0], r) for c in e.chunks]
            if rows is None or not ivs:
                continue
            ivs.sort()
            pos, ok = 0, True
            for (a, b, r) in ivs:
                if a != pos:
                    ok = False
                    break
                pos = b
            if (not ok or pos != rows) and report:
                ctx.fail("replicated-chunks-do-not-tile", f"{p}: the chunks kept by all ranks together do not cover rows [0,{rows}) exactly once: {ivs[:8]}",
                         inp, {"path": p, "intervals": ivs[:12]}, suite=suite)
    except (KeyError, IndexError, TypeError, AttributeError):
        pass

    # ---- the partitioner's inputs and result, from the collective traffic
    gathers = [pl for _, pl in _collective_payloads(world, "all_gather_object")
               if all(isinstance(v, tuple) and len(v) == 3 and isinstance(v[2], int) for v in pl.values())]
    bcasts = [pl for _, pl in _collective_payloads(world, "broadcast_object_list")
              if isinstance(pl.get(0), list) and len(pl[0]) == 1 and isinstance(pl[0][0], list)
              and all(isinstance(x, list) for x in pl[0][0]) and len(pl[0][0]) == W]
    if len(gathers) != 1 or len(bcasts) != 1:
        ctx.notes.append("partition: could not identify the partitioner's collectives; comparing results only")
        gathered = result = None
    else:
        gathered = [gathers[0][r] for r in range(W)]
        result = bcasts[0][0][0]
    n_units = 0
    if gathered is not None:
        ranks_in = [_rank_input(e, l, s, intern) for (e, l, s) in gathered]
        impl_result = [[_wl(w) for w in lst] for lst in result]
        n_units = sum(len(x) for x in impl_result)
        observed = obs.calls[0] if len(obs.calls) == 1 else None
        if ctx.driver:
            rep = ctx.driver.call({"op": "pt_assign", "ranks": [_rank_input_wire(ri) for ri in ranks_in], "result": impl_result})
            if "err" in rep or rep.get("result") != impl_result:
                ctx.disagree(suite + ".assign", inp, {"result": [[(unS(p), i, s) for p, i, s in l] for l in impl_result]},
                             rep if "err" in rep else {"result": [[(unS(p), i, s) for p, i, s in l] for l in rep["result"]]})
            elif observed is not None:
                # the sequence of (chosen rank, size added) must be the model's log, the final loads the model's loads
                cur = list(observed["start"])
                seq = []
                for (i, v) in observed["sets"]:
                    seq.append([i, v - cur[i]])
                    cur[i] = v
                if seq != rep.get("log") or observed["final"] != rep.get("loads"):
                    ctx.disagree(suite + ".assign-log", inp, {"log": seq, "loads": observed["final"]},
                                 {"log": rep.get("log"), "loads": rep.get("loads")})
        # ---- oracle: exactly once, balance (on the partitioner's own sizes)
        units: Dict[Tuple[str, int], int] = {}
        for (p, ws) in gathered[0][1].items():
            for w in ws:
                units[(p, w.write_req_idx)] = w.size
        owners: Dict[Tuple[str, int], List[int]] = {}
        for r, lst in enumerate(result):
            for w in lst:
                owners.setdefault((w.logical_path, w.write_req_idx), []).append(r)
        uniform = all(dict(g[1]) == dict(gathered[0][1]) for g in gathered)
        if uniform:
            for u in units:
                if len(owners.get(u, [])) != 1:
                    if report:
                        ctx.fail("unit-not-assigned-exactly-once", f"write unit {u} assigned to ranks {owners.get(u, [])}", inp,
                                 {"result": [[(w.logical_path, w.write_req_idx) for w in l] for l in result]}, suite=suite)
            extra = [u for u in owners if u not in units]
            if extra and report:
                ctx.fail("unknown-unit-assigned", f"assigned units that no rank declared: {extra[:4]}", inp, None, suite=suite)
            start = [g[2] for g in gathered]
            final = [start[r] + sum(w.size for w in result[r]) for r in range(W)]
            if observed is not None and observed["final"] != final and report:
                ctx.fail("loads-not-accounted", "rank_to_size after partitioning differs from start + assigned bytes", inp,
                         {"rank_to_size": observed["final"], "start+assigned": final}, suite=suite)
            if observed is not None:
                last: Dict[int, int] = {}
                cur = list(observed["start"])
                for (i, v) in observed["sets"]:
                    last[i] = v - cur[i]
                    cur[i] = v
            else:
                # without the recording list: the largest unit of the rank bounds its last unit
                last = {}
                for r, lst in enumerate(result):
                    if lst:
                        per_path: Dict[str, int] = {}
                        for w in lst:
                            per_path[w.logical_path] = per_path.get(w.logical_path, 0) + w.size
                        last[r] = max(list(per_path.values()) + [w.size for w in lst])
            # a rank that received units must appear in `last`
            for r, lst in enumerate(result):
                if lst and r not in last and report:
                    ctx.fail("loads-not-accounted", f"rank {r} received units but its load was never increased", inp, None, suite=suite)
            bad = _balance_problems(final, last)
            if bad and report:
                ctx.fail("balance-bound-exceeded", bad[0], inp, {"start": start, "final": final, "last_unit": last}, suite=suite)
            # the same bound on bytes counted independently of the partitioner's own accounting (element bytes of every
            # tensor piece, whatever its serializer): "counting each rank's non-replicated bytes as its starting load"
            try:
                szs = [res[r][1]["sizes"] for r in range(W)]
                repl_set = set(res[0][1]["repl"])
                start_t = [sum(sum(v) for p, v in szs[r].items() if p not in repl_set) for r in range(W)]
                unit_t = {(p, i): b for p, v in szs[0].items() if p in repl_set for i, b in enumerate(v)}
                final_t = [start_t[r] + sum(unit_t.get((w.logical_path, w.write_req_idx), 0) for w in result[r]) for r in range(W)]
                last_t: Dict[int, int] = {}
                for r, lst in enumerate(result):
                    if lst:
                        per_path_t: Dict[str, int] = {}
                        for w in lst:
                            per_path_t[w.logical_path] = per_path_t.get(w.logical_path, 0) + unit_t.get((w.logical_path, w.write_req_idx), 0)
                        last_t[r] = max(list(per_path_t.values()) + [unit_t.get((w.logical_path, w.write_req_idx), 0) for w in lst])
                bad_t = _balance_problems(final_t, last_t)
                if bad_t and not bad and report:
                    ctx.fail("balance-bound-exceeded-in-bytes", bad_t[0], inp,
                             {"start_bytes": start_t, "final_bytes": final_t, "largest_unit": last_t, "partitioner_start": start}, suite=suite)
                if any(a != b for a, b in zip(start_t, start)):
                    ctx.count("partition.accounting_differs_from_bytes")
            except (KeyError, IndexError, TypeError):
                pass
        else:
            ctx.count("partition.non-uniform-replicated-loads")

    # ---- entries after partitioning: real vs model
    if ctx.driver and result is not None:
        for r, o in enumerate(outs):
            rep = ctx.driver.call({"op": "pt_partition_rank", "entries": enc_manifest(o["entries"], intern),
                                   "assigned": [_wl(w) for w in result[r]]})
            impl = canon_manifest(enc_manifest(o["new_entries"], intern))
            mod = {"err": rep["err"]} if "err" in rep else canon_manifest(rep["manifest"])
            if impl != mod:
                ctx.disagree(suite + ".partition_rank", dict(inp, rank=r), impl, mod)

    # ---- oracle on the write requests each rank keeps: every replicated storage location exactly once, private ones kept
    loc_owner: Dict[str, List[int]] = {}
    for r, o in enumerate(outs):
        for p, locs in o["new_wr_paths"].items():
            for l in locs:
                loc_owner.setdefault(l, []).append(r)
    all_locs = {l for o in outs for ls in o["wr_paths"].values() for l in ls}
    uniform_wr = all(
        {p: ls for p, ls in o["wr_paths"].items() if p in repl} == {p: ls for p, ls in outs[0]["wr_paths"].items() if p in repl}
        for o in outs)
    for l in sorted(all_locs):
        n = len(loc_owner.get(l, []))
        if n != 1 and (uniform_wr or not l.startswith("replicated/")):
            if report:
                ctx.fail("location-not-written-exactly-once", f"storage location {l} is kept by ranks {loc_owner.get(l, [])}", inp, None, suite=suite)

    # ---- consolidation: real vs model, and completeness of every replicated object
    manifests = [dict(**o["prims"], **o["new_entries"]) for o in outs]
    try:
        cons = consolidate_replicated_entries(rank_to_entries=[copy.deepcopy(m) for m in manifests])
        impl_c: Any = [canon_manifest(enc_manifest(m, intern)) for m in cons]
    except ValueError as e:
        cons, impl_c = None, {"err": err_name(e)}
    if ctx.driver:
        rep = ctx.driver.call({"op": "pt_consolidate", "ranks": [enc_manifest(m, intern) for m in manifests]})
        mod_c = {"err": rep["err"]} if "err" in rep else [canon_manifest(m) for m in rep["ranks"]]
        if mod_c != impl_c:
            ctx.disagree(suite + ".consolidate", inp, impl_c, mod_c)
        elif cons is not None:
            # the global manifest as _gather_manifest builds it: os.path.join(str(rank), logical_path)
            glob = {}
            for r, m in enumerate(cons):
                for lp, e in m.items():
                    glob[os.path.join(str(r), lp)] = e
            if canon_manifest(enc_manifest(glob, intern)) != canon_manifest(rep["global"]):
                ctx.disagree(suite + ".gather", inp, sorted(glob), sorted(unS(k) for k, _ in rep["global"]))
    if cons is not None and uniform_wr:
        for p in repl:
            e0 = outs[0]["entries"].get(p) or outs[0]["prims"].get(p)
            if any((o["entries"].get(p) or o["prims"].get(p)) != e0 for o in outs):
                ctx.count("partition.replicated-path-differs-between-ranks")
                continue            # not a replicated object (the caller broke the contract): nothing is promised
            got = cons[0].get(p)
            if got is None:
                if report:
                    ctx.fail("replicated-entry-lost", f"{p}: no entry in rank 0's manifest after consolidation", inp, None, suite=suite)
                continue
            if getattr(e0, "chunks", None) is not None:
                want = sorted((tuple(c.offsets), c.tensor.location) for c in e0.chunks)
                have = sorted((tuple(c.offsets), c.tensor.location) for c in getattr(got, "chunks", []))
                if want != have and report:
                    ctx.fail("replicated-chunks-incomplete", f"{p}: consolidated entry has chunks {have}, the tensor has {want}", inp, None, suite=suite)
            elif got != e0 and report:
                ctx.fail("replicated-entry-changed", f"{p}: {got!r:.120} vs {e0!r:.120}", inp, None, suite=suite)
            for r in range(1, W):
                if p in cons[r] and report:
                    ctx.fail("replicated-entry-not-deduplicated", f"{p}: still in rank {r}'s manifest", inp, None, suite=suite)
    ctx.case(suite, {"W": W, "chunk": case["chunk"], "globs": globs[:5], "items": [(i["kind"], i["name"]) for i in case["items"]]},
             nontrivial=(W >= 2 and n_units >= 2), key=case)
    ctx.count(f"partition.W={W}")
    ctx.count("partition.units", n_units)
    ctx.count("partition.observed-order" if obs.calls else "partition.order-rebuilt-from-result")


# ----------------------------------------------------------------------------------------------
# suite: full take (batching off) -> write log oracle; restore on every rank
# ----------------------------------------------------------------------------------------------

def _take_one(ctx: Ctx, case, suite="take_restore", report=True):
    import torch
    import gen
    import sim
    from torchsnapshot import Snapshot
    W = case["W"]
    # the values oracle needs the caller's contract (replicated = same value): no mismatching items here
    case = dict(case, items=[it for it in case["items"] if it["kind"] != "rep_mismatch"], globs=None)
    if not case["items"]:
        return
    globs = _globs_for(case)
    world = sim.World(W)

    def take(rank, pg):
        st = gen.RecStateful(_build_state(case, rank))
        Snapshot.take("mem://c06", {"app": st}, pg=pg, replicated=list(globs))
        return None

    with sim.knobs(chunk=case["chunk"], nobatch=case.get("nobatch", True)):
        res = world.run(take)
        inp = {"case": case, "globs": globs}
        if _harness_timeout(ctx, res):
            return
        if any(k != "ok" for k, _ in res):
            if report:
                ctx.fail("take-raises", "Snapshot.take raised in the simulator", inp,
                         [(i, repr(v)[:300]) for i, (k, v) in enumerate(res) if k != "ok"], suite=suite)
            return
        writes = [e for e in world.storage.writes() if not e["path"].endswith(".snapshot_metadata")]

        def restore(rank, pg):
            tgt = {}
            for k, v in _build_state(case, rank).items():
                tgt[k] = torch.zeros_like(v) if isinstance(v, torch.Tensor) else None
            st = gen.RecStateful(tgt)
            Snapshot("mem://c06", pg=pg).restore({"app": st})
            return st.loaded

        res2 = world.run(restore)
    states = [_build_state(case, r) for r in range(W)]
    everywhere = set.intersection(*[set(s) for s in states])
    match = lambda name: any(fnmatch.fnmatch("app/" + _enc(name), g) for g in globs)
    rep_names = [n for n in everywhere if match(n)]
    if case.get("nobatch", True):
        # each replicated location written exactly once, by one rank
        by_path: Dict[str, List[int]] = {}
        for e in writes:
            by_path.setdefault(e["raw"], []).append(e["rank"])
        for p, rs in by_path.items():
            if len(rs) != 1 and report:
                ctx.fail("location-written-more-than-once", f"{p} written by ranks {rs}", inp, None, suite=suite)
        rep_written = sum(e["len"] for e in writes if e["raw"].startswith("replicated/"))
        tensors_only = all(isinstance(states[0][n], torch.Tensor) for n in rep_names)
        rep_size = sum(states[0][n].numel() * states[0][n].element_size() for n in rep_names if isinstance(states[0][n], torch.Tensor))
        if tensors_only and rep_written != rep_size and report:
            ctx.fail("replicated-bytes-written-differ", f"replicated bytes written {rep_written}, replicated objects total {rep_size}", inp,
                     {"writes": [(e["rank"], e["raw"], e["len"]) for e in writes][:40]}, suite=suite)
        for n in rep_names:
            if not any(e["raw"].startswith("replicated/app/" + _enc(n)) for e in writes) and not isinstance(states[0][n], (int, str, float, bytes, bool)):
                if report:
                    ctx.fail("replicated-object-not-written", f"{n}: no write under replicated/", inp, None, suite=suite)
        # balance on real bytes (tensors: estimated size == written size)
        all_tensors = all(isinstance(v, torch.Tensor) for s in states for v in s.values() if not isinstance(v, (int, str, float, bytes, bool)))
        if all_tensors:
            final = [sum(e["len"] for e in writes if e["rank"] == r) for r in range(W)]
            biggest = {r: max([e["len"] for e in writes if e["rank"] == r and e["raw"].startswith("replicated/")], default=None) for r in range(W)}
            bad = _balance_problems(final, {r: s for r, s in biggest.items() if s is not None})
            if bad and report:
                ctx.fail("balance-bound-exceeded-on-write-log", bad[0], inp, {"bytes_written": final, "largest_replicated_write": biggest}, suite=suite)
            ctx.count("take.balance-checked-on-real-bytes")
    if _harness_timeout(ctx, res2):
        return
    if any(k != "ok" for k, _ in res2):
        if report:
            ctx.fail("restore-raises", "Snapshot.restore raised in the simulator", inp,
                     [(i, repr(v)[:300]) for i, (k, v) in enumerate(res2) if k != "ok"], suite=suite)
        return
    for r in range(W):
        d = gen.deep_eq(states[r], res2[r][1], f"rank{r}")
        if d and report:
            name = d.split("/")[1].split(":")[0].strip("'\"") if "/" in d else ""
            sig = "restore-replicated-incomplete" if any(n in d for n in rep_names) else "restore-private-wrong"
            ctx.fail(sig, d, dict(inp, rank=r), None, suite=suite)
    ctx.case(suite, {"W": W, "chunk": case["chunk"], "nobatch": case.get("nobatch", True), "globs": globs[:5],
                     "items": [(i["kind"], i["name"]) for i in case["items"]]},
             nontrivial=(W >= 2 and len(rep_names) >= 1), key=case)
    ctx.count(f"take.W={W}")
    ctx.count("take.replicated-locations", len([e for e in writes if e["raw"].startswith("replicated/")]))


def _enc(s: str) -> str:
    return s.replace("%", "%25").replace("/", "%2F")


# ----------------------------------------------------------------------------------------------
# suite: bounded-exhaustive load vectors through the real _partition_write_loads
# ----------------------------------------------------------------------------------------------

def _loads_inputs(W: int, whole: List[int], chunks: List[int]):
    """rank_to_entries / rank_to_write_loads for: one tensor per `whole` size, one chunked tensor with `chunks`
    (identical on all ranks, as for a truly replicated state), and the same in driver wire format"""
    import torchsnapshot.partitioner as part
    from torchsnapshot.manifest import ChunkedTensorEntry, Shard, TensorEntry
    T = lambda loc, n, rep: TensorEntry(location=loc, serializer="buffer_protocol", dtype="torch.int8", shape=[n], replicated=rep)
    entries, loads, w_entries, w_loads = {}, {}, [], []
    for i, s in enumerate(whole):
        p = f"app/t{i}"
        entries[p] = T("replicated/" + p, s, True)
        loads[p] = [part._WriteLoad(logical_path=p, write_req_idx=0, size=s)]
        w_entries.append([S(p), {"t": "leaf", "r": True, "id": i}])
        w_loads.append([S(p), [[S(p), 0, s]]])
    if chunks:
        p = "app/c"
        off, shards, w_sh = 0, [], []
        for j, s in enumerate(chunks):
            shards.append(Shard(offsets=[off], sizes=[s], tensor=T(f"replicated/{p}_{off}", s, False)))
            w_sh.append({"o": [off], "s": [s], "id": 1000 + j})
            off += s
        entries[p] = ChunkedTensorEntry(dtype="torch.int8", shape=[off], chunks=shards, replicated=True)
        loads[p] = [part._WriteLoad(logical_path=p, write_req_idx=j, size=s) for j, s in enumerate(chunks)]
        w_entries.append([S(p), {"t": "chunked", "r": True, "meta": 0, "chunks": w_sh}])
        w_loads.append([S(p), [[S(p), j, s] for j, s in enumerate(chunks)]])
    return [entries] * W, [loads] * W, w_entries, w_loads


def _loads_eval(ctx: Ctx, loads0, whole, chunks, suite, report=True):
    """run the real _partition_write_loads on one small input; returns what the driver has to reproduce"""
    import torchsnapshot.partitioner as part
    W = len(loads0)
    rte, rtl, w_entries, w_loads = _loads_inputs(W, whole, chunks)
    rec = RecList(loads0)
    inp = {"loads0": list(loads0), "whole": list(whole), "chunks": list(chunks)}
    try:
        result = part._partition_write_loads(rank_to_entries=rte, rank_to_write_loads=rtl, rank_to_size=rec, world_size=W)
    except Exception as e:
        if report:
            ctx.fail("partition-raises", f"_partition_write_loads raised {type(e).__name__}", inp, repr(e)[:200], suite=suite)
        return None
    impl_result = [[_wl(w) for w in l] for l in result]
    cur, seq, last = list(loads0), [], {}
    for (i, v) in rec.sets:
        seq.append([i, v - cur[i]])
        last[i] = v - cur[i]
        cur[i] = v
    # oracle
    sizes = {(f"app/t{i}", 0): s for i, s in enumerate(whole)}
    sizes.update({("app/c", j): s for j, s in enumerate(chunks)})
    owners: Dict[Any, List[int]] = {}
    for r, l in enumerate(result):
        for w in l:
            owners.setdefault((w.logical_path, w.write_req_idx), []).append(r)
    for u in sizes:
        if len(owners.get(u, [])) != 1 and report:
            ctx.fail("unit-not-assigned-exactly-once", f"unit {u} assigned to {owners.get(u, [])}", inp, impl_result, suite=suite)
    final = [loads0[r] + sum(w.size for w in result[r]) for r in range(W)]
    if list(rec) != final and report:
        ctx.fail("loads-not-accounted", "rank_to_size after partitioning differs from start + assigned bytes", inp,
                 {"rank_to_size": list(rec), "start+assigned": final}, suite=suite)
    for r, l in enumerate(result):
        if l and r not in last and report:
            ctx.fail("loads-not-accounted", f"rank {r} received units but its load was never increased", inp, None, suite=suite)
    if not last and any(result):
        last = {r: max(w.size for w in l) for r, l in enumerate(result) if l}
    bad = _balance_problems(final, last)
    if bad and report:
        ctx.fail("balance-bound-exceeded", bad[0], inp, {"final": final, "last_unit": last}, suite=suite)
    ctx.case(suite, inp, nontrivial=(W >= 2 and len(whole) + len(chunks) >= 2), key=inp)
    op = {"op": "pt_assign", "ranks": [{"entries": w_entries, "loads": w_loads, "size": int(loads0[r])} for r in range(W)],
          "result": impl_result}
    return inp, op, {"result": impl_result, "log": seq, "loads": list(rec)}


def _loads_flush(ctx: Ctx, pending, suite):
    if ctx.driver and pending:
        reps = ctx.driver.call_many([op for _, op, _ in pending])
        for (inp, _, impl), rep in zip(pending, reps):
            if "err" in rep or {k: rep.get(k) for k in ("result", "log", "loads")} != impl:
                ctx.disagree(suite, inp, impl, rep)
    pending.clear()


def _loads_one(ctx: Ctx, loads0, whole, chunks, suite, report=True):
    r = _loads_eval(ctx, loads0, whole, chunks, suite, report)
    if r is not None:
        _loads_flush(ctx, [r], suite)


def _loads_exhaustive(ctx: Ctx):
    """quick: W <= 3, loads <= 2, <= 3 units of size <= 2, every size sequence. thorough: W <= 4, loads <= 4, sizes <= 4,
    every size sequence up to 3 units and every size multiset (sorted sequence) for 4 and 5 units. Loads are only ever
    compared with each other, so vectors are normalised to min = 0. Each size vector is tried as all whole objects, all
    chunks of one tensor, and first unit whole + rest chunks."""
    import torchsnapshot.partitioner as part
    if not hasattr(part, "_partition_write_loads") or not hasattr(part, "_WriteLoad"):
        ctx.notes.append("loads_exhaustive skipped: _partition_write_loads/_WriteLoad not found (covered by the partition suite)")
        return
    if ctx.quick:
        Ws, nmax, smax, lmax, nseq = (1, 2, 3), 3, 2, 2, 3
    else:
        Ws, nmax, smax, lmax, nseq = (1, 2, 3, 4), 5, 4, 4, 3
    n_done, pending = 0, []
    for W in Ws:
        for loads0 in itertools.product(range(lmax + 1), repeat=W):
            if min(loads0) != 0:
                continue
            for n in range(0, nmax + 1):
                it = itertools.product(range(1, smax + 1), repeat=n) if n <= nseq else \
                    itertools.combinations_with_replacement(range(1, smax + 1), n)
                for sizes in it:
                    splits = {0, n} | ({1} if n >= 2 else set())
                    for k in splits:
                        r = _loads_eval(ctx, list(loads0), list(sizes[:k]), list(sizes[k:]), "loads_exhaustive")
                        if r is not None:
                            pending.append(r)
                        n_done += 1
                    if len(pending) >= 256:
                        _loads_flush(ctx, pending, "loads_exhaustive")
            if ctx.time_left() < 25:
                _loads_flush(ctx, pending, "loads_exhaustive")
                ctx.notes.append(f"loads_exhaustive stopped early after {n_done} vectors (W={W}, loads0={loads0})")
                ctx.count("loads_exhaustive.vectors", n_done)
                return
    _loads_flush(ctx, pending, "loads_exhaustive")
    ctx.count("loads_exhaustive.vectors", n_done)
    ctx.notes.append(f"loads_exhaustive completed its scope: {n_done} vectors")


CORPUS = [
    # (loads0, whole-unit sizes, chunk sizes): ties, zero sizes, a heavy private rank
    ([0, 0], [], [1, 1, 1]),
    ([5, 0, 0], [3, 3], [2, 2, 2, 2]),
    ([0, 0, 0, 0], [0, 0], [0]),
    ([7, 7, 7], [1], [9, 1, 1, 1]),
    ([100, 0], [1, 1, 1, 1], []),
]


PARTITION_CORPUS = [
    # a rank whose private state is a torch.save'd (complex) tensor: its storage bytes are the element bytes, not the
    # staging cost; three small replicated units must go to the rank that is lighter IN BYTES
    {"W": 2, "chunk": 1000, "globs": None, "private_rank_only": False, "items": [
        {"kind": "priv_tensor", "name": "p0", "numel": 1, "dtype": "float32", "objlen": 0, "per_rank": [50, 16], "priv_dtype": ["float32", "complex64"]},
        {"kind": "rep_tensor", "name": "w1", "numel": 5, "dtype": "float32", "objlen": 0},
        {"kind": "rep_tensor", "name": "w2", "numel": 5, "dtype": "float32", "objlen": 0},
        {"kind": "rep_tensor", "name": "w3", "numel": 5, "dtype": "float32", "objlen": 0}]},
]


def run(ctx: Ctx):
    import torchsnapshot.partitioner as part
    for c in PARTITION_CORPUS:
        _partition_one(ctx, c)
    if hasattr(part, "_partition_write_loads"):
        for l0, whole, chunks in CORPUS:
            _loads_one(ctx, l0, whole, chunks, "corpus")
    _loads_exhaustive(ctx)
    import globtie
    globtie.fnmatch_suite(ctx, ctx.n(1500, 20000))
    # whole-job tie of the C06_world_* theorems (shared with C01): the real partition is fed to the Lean job model
    from props import c01_world
    for i in range(ctx.n(40, 500)):
        c01_world.world_tie_case(ctx, c01_world.gen_world_case(ctx.rng), "world_tie")
    n = ctx.n(200, 2000)
    for i in range(n):
        if i >= 24 and ctx.time_left() < 30:
            ctx.notes.append(f"partition suite stopped early at {i}")
            break
        _partition_one(ctx, _gen_partition_case(ctx.rng, 1 + i % 8))
    n = ctx.n(48, 600)
    for i in range(n):
        if i >= 8 and ctx.time_left() < 6:
            ctx.notes.append(f"take/restore suite stopped early at {i}")
            break
        case = _gen_partition_case(ctx.rng, 1 + i % 8)
        case["nobatch"] = ctx.rng.random() < 0.75
        # this suite's oracles read the storage write log, where a torch.save'd (complex) tensor occupies its pickle, not
        # its element bytes: keep it to raw-serialised dtypes (complex dtypes are covered by the partition suite above)
        for it in case["items"]:
            if it["dtype"] == "complex64":
                it["dtype"] = "float32"
            it.pop("priv_dtype", None)
        _take_one(ctx, case)


def replay(ctx: Ctx, rec):
    inp = rec["input"]
    before = len(ctx.failures)
    if "glob" in inp or "glob" in inp.get("case", {}):
        from props import c01_world
        c01_world.world_tie_case(ctx, inp.get("case", inp), "replay")
        for f in ctx.failures[:10]:
            print("FAIL", f["sig"], f["what"], f["observed"])
        return
    if "loads0" in inp:
        _loads_one(ctx, inp["loads0"], inp["whole"], inp["chunks"], "replay")
    elif rec.get("suite", "").startswith("take_restore"):
        _take_one(ctx, inp["case"])
    else:
        _partition_one(ctx, inp["case"])
    for f in ctx.failures[before:]:
        print("FAIL", f["sig"], "-", f["what"], "\n   observed:", str(f["observed"])[:600])
    for d in ctx.disagreements:
        print("DISAGREE", d["suite"], "\n impl :", str(d["impl"])[:800], "\n model:", str(d["model"])[:800])
    if len(ctx.failures) == before and not ctx.disagreements:
        print("replayed: no failure")
