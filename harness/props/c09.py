"""C09 — async_take captures the state at call time and equals a synchronous take."""
from __future__ import annotations

import asyncio
import threading
import time
from collections import OrderedDict
from typing import Any, Dict, List

from common import Ctx

PROP = "C09"
LEAN_MODULE = "TsProofs.Properties.C09"
THEOREMS = [
    "Ts.Stage.C09_no_alias_after_return",
    "Ts.Stage.C09_mutation_invisible",
    "Ts.Stage.C09_slab_mutation_invisible",
    "Ts.Stage.C09_equiv_sync",
    "Ts.Stage.C09_witness_alias_prefix",
    "Ts.Stage.C09_no_staging_after_handover",
    "Ts.Stage.C09_handover_stable",
    "Ts.Stage.C09_history_mutation_invisible",
    "Ts.Stage.C09_witness_pooled_staging",
]
BUDGET_S = (150, 900)
RULE = ("(a) real Snapshot.async_take of random nested states (all dtypes/layouts, objects, primitives) on in-memory storage with "
        "background writes gated: after async_take returns exactly k background writes are let through (k from 0 to all), then "
        "EVERY tensor is overwritten in place, every mutable object mutated and containers edited, then I/O is released, wait(), "
        "restore; the restored state must equal the pre-mutation copy bit-exactly and the manifest must equal a synchronous take's "
        "up to slab names. Knobs: batching on/off, chunk/slab thresholds from 1 byte, budgets 1 B..1 GB, 1-2 ranks. "
        "(b) per-stager tie: real TensorBufferStager/ObjectBufferStager.stage_buffer for (dtype, layout, is_async) - does the "
        "returned buffer alias the tensor's memory? - vs the Lean `stage`. Non-trivial = state has >= 1 payload leaf; distinct by hash.")
TRUSTED = ["GPU / UVM staging paths are not modelled (no GPU in the sandbox)",
           "asyncio/thread scheduling: the gate only orders storage writes; staging order inside one take is the scheduler's (C10/C11)"]
ASSUMPTIONS = ["mutations happen after async_take has returned on that rank (the property's premise)"]
LEVEL_TEXT = ("Lean 4 theorems over the staging model: for an async snapshot every staged buffer (plain, chunk, slab of any size, "
              "object) owns its bytes, so for EVERY later application memory the bytes written equal the serialisation at staging "
              "time; a sync take writes the same bytes; a proved witness shows the pre-fix copy predicate aliased. Tied to the real "
              "stagers by observing aliasing directly, and to the real async_take by mutating the whole state at every background-"
              "write position and comparing the restored snapshot and the manifest with a synchronous take."
              ' For histories (C09_history_mutation_invisible): any interleaving of several pending async snapshots, in-place mutations and background writes stores, for each snapshot, the state at its own call.')
LEVEL_NOTE = ("Trusted: Lean kernel, hand model TsModel/Stage.lean (CPU paths only), harness gate (orders storage writes of the real "
              "background thread). That all requests are staged before async_take returns is the pipeline model's exit condition (C10/C11).")
TECHNIQUE = "Lean 4 proof over staging/aliasing model + real async_take with gated background I/O and mutation at every write position"

ROOT_A = "/snap/c09_async"
ROOT_S = "/snap/c09_sync"


def _mutate_tensor(t):
    import gen
    import torch
    if t.numel() == 0:
        return
    raw = gen.tensor_bytes(t)
    flipped = bytes((b ^ 0xFF) for b in raw) if t.dtype != torch.bool else bytes((b ^ 1) for b in raw)
    src = gen.tensor_from_bytes(t.dtype, list(t.shape), flipped)
    with torch.no_grad():
        try:
            t.copy_(src)
        except RuntimeError:
            # expand()-ed tensors share one row; write through the base instead (still an in-place mutation of saved memory)
            base = t._base if t._base is not None else t
            braw = gen.tensor_bytes(base)
            bflip = bytes((b ^ 0xFF) for b in braw) if base.dtype != torch.bool else bytes((b ^ 1) for b in braw)
            base.copy_(gen.tensor_from_bytes(base.dtype, list(base.shape), bflip))


def _mutate_tree(x):
    """In-place mutation of everything mutable reachable from the app state."""
    import torch
    if isinstance(x, torch.Tensor):
        _mutate_tensor(x)
    elif type(x) is list:
        for v in x:
            _mutate_tree(v)
        x.append("appended-after-return")
    elif type(x) in (dict, OrderedDict):
        ks = list(x.keys())
        for k in ks:
            _mutate_tree(x[k])
        if all(isinstance(k, (str, int)) for k in ks):
            x["added-after-return"] = 1
            if ks:
                x[ks[0]] = "replaced-after-return"
        else:
            x[("mut",)] = 1          # opaque object (dict with non-str keys): mutate the object itself
    elif isinstance(x, set):
        x.add("mut")
    elif isinstance(x, list):            # opaque list subclass: mutate the object itself
        x.append("mut")
    elif isinstance(x, dict):            # opaque dict subclass (Counter, defaultdict, ...)
        x["mut"] = 1


def _canon_manifest(manifest) -> Any:
    """Manifest up to storage locations: slab names numbered by first appearance."""
    from dataclasses import asdict
    names: Dict[str, str] = {}

    def loc(l):
        if isinstance(l, str) and l.startswith("batched/"):
            return names.setdefault(l, f"batched/#{len(names)}")
        return l

    def walk(o):
        if isinstance(o, dict):
            return {k: (loc(v) if k == "location" else walk(v)) for k, v in o.items()}
        if isinstance(o, list):
            return [walk(v) for v in o]
        return o
    return {k: walk(asdict(e)) for k, e in sorted(manifest.items())}


def _one_case(ctx: Ctx, case: Dict[str, Any], suite: str):
    import gen
    import sim
    from torchsnapshot import Snapshot

    tree = gen.build_tree(case["state"])
    if not isinstance(tree, dict):
        tree = {"v": tree}
    before = gen.deep_clone(tree)
    world = sim.World(1)
    caller = threading.current_thread()
    gate = {"callers": {caller}, "allowed": 10 ** 9, "passed": 0}
    world.storage.gate = gate
    k = case["k"]
    inp = case

    def do_async():
        app = {"s": gen.RecStateful(tree)}
        gate["allowed"] = k              # background thread may complete at most k writes before we mutate
        pending = Snapshot.async_take(ROOT_A, app)
        # wait until k background writes went through or the background work is finished
        t0 = time.time()
        while gate["passed"] < k and not pending.done() and time.time() - t0 < 20:
            time.sleep(0.0005)
        n_bg_before = gate["passed"]
        _mutate_tree(tree)
        gate["allowed"] = 10 ** 9
        snap = pending.wait()
        dst = gen.RecStateful({kk: None for kk in before})
        Snapshot(ROOT_A).restore({"s": dst})
        return dst.loaded, snap.get_manifest(), n_bg_before

    with sim.knobs(**case["knobs"]):
        try:
            loaded, man_async, n_bg = world.run1(do_async)
        except Exception as e:  # noqa
            gate["allowed"] = 10 ** 9
            ctx.fail("async-take-raised", f"async_take/wait/restore raised {type(e).__name__}: {str(e)[:300]}", inp, None, suite=suite)
            ctx.case(suite, {"k": k, "knobs": case["knobs"], "raised": type(e).__name__}, nontrivial=False)
            return
        finally:
            world.storage.gate = None
        bg_total = gate["passed"]
        diff = gen.deep_eq(before, loaded)
        if diff is not None:
            ctx.fail("mutation-visible", "state restored from an async snapshot differs from the state at the time async_take returned",
                     inp, {"diff": diff, "background_writes_before_mutation": n_bg, "background_writes_total": bg_total}, suite=suite)
        # synchronous take of the same (pre-mutation) state
        world2 = sim.World(1)

        def do_sync():
            Snapshot.take(ROOT_S, {"s": gen.RecStateful(gen.deep_clone(before))})
            return Snapshot(ROOT_S).get_manifest()
        man_sync = world2.run1(do_sync)
        ca, cs = _canon_manifest(man_async), _canon_manifest(man_sync)
        if ca != cs:
            bad = [kk for kk in set(ca) | set(cs) if ca.get(kk) != cs.get(kk)][:3]
            ctx.fail("async-manifest-differs-from-sync", "async_take manifest differs from take's (up to storage locations)", inp,
                     {"keys": bad, "async": {kk: ca.get(kk) for kk in bad}, "sync": {kk: cs.get(kk) for kk in bad}}, suite=suite)
    ctx.count("mutate.after_%s_bg_writes" % ("0" if n_bg == 0 else ("all" if n_bg == bg_total else "some")))
    ctx.count("bg_writes_total", bg_total)
    ctx.count("batching.off" if case["knobs"].get("nobatch") else "batching.on")
    ctx.case(suite, {"k": k, "bg_writes_before_mutation": n_bg, "bg_writes_total": bg_total, "knobs": case["knobs"],
                     "state": gen.short(case["state"])}, nontrivial=bg_total > 0 or len(man_async) > 1, key=case)
    return bg_total


ROOT_B = "/snap/c09_async2"


def _overlap_case(ctx: Ctx, case: Dict[str, Any], suite: str = "async_overlap"):
    """Two pending snapshots at once: async_take #1 (background I/O held after k writes), mutate, async_take #2 of the
    same live state to another path, mutate again, release, wait for both.  #1 must restore the state at the time of the
    first call, #2 the state at the time of the second."""
    import gen
    import sim
    from torchsnapshot import Snapshot

    tree = gen.build_tree(case["state"])
    if not isinstance(tree, dict):
        tree = {"v": tree}
    v0 = gen.deep_clone(tree)
    world = sim.World(1)
    caller = threading.current_thread()
    gate = {"callers": {caller}, "allowed": 10 ** 9, "passed": 0}
    world.storage.gate = gate
    k = case["k"]

    def do():
        app = {"s": gen.RecStateful(tree)}
        gate["allowed"] = k
        p1 = Snapshot.async_take(ROOT_A, app)
        t0 = time.time()
        while gate["passed"] < k and not p1.done() and time.time() - t0 < 20:
            time.sleep(0.0005)
        _mutate_tree(tree)
        v1 = gen.deep_clone(tree)
        p2 = Snapshot.async_take(ROOT_B, app)
        _mutate_tree(tree)
        gate["allowed"] = 10 ** 9
        p1.wait()
        p2.wait()
        out = []
        for root in (ROOT_A, ROOT_B):
            dst = gen.RecStateful({kk: None for kk in v0})
            Snapshot(root).restore({"s": dst})
            out.append(dst.loaded)
        return out, v1

    with sim.knobs(**case["knobs"]):
        try:
            (l1, l2), v1 = world.run1(do)
        except Exception as e:  # noqa
            gate["allowed"] = 10 ** 9
            ctx.fail("async-take-raised", f"overlapping async_take/wait/restore raised {type(e).__name__}: {str(e)[:300]}", case, None, suite=suite)
            ctx.case(suite, {"k": k, "knobs": case["knobs"], "raised": type(e).__name__}, nontrivial=False)
            return
        finally:
            world.storage.gate = None
    for name, want, got in (("first", v0, l1), ("second", v1, l2)):
        d = gen.deep_eq(want, got)
        if d is not None:
            ctx.fail("mutation-visible", f"two overlapping async snapshots: the {name} one does not restore the state at the time of its call",
                     dict(case, overlap=True), {"snapshot": name, "diff": d}, suite=suite)
    # model tie: the same history in the Lean history model (take, mutate, take, mutate, then every background write)
    if ctx.driver:
        import torch
        from torchsnapshot.flatten import flatten
        BPD = {"float64", "float32", "float16", "bfloat16", "int64", "int32", "int16", "int8", "uint8", "bool"}

        def tensors(tree_):
            _, flat = flatten(tree_, prefix="s")
            return [(p, v) for p, v in flat.items() if isinstance(v, torch.Tensor) and gen.DT_NAME.get(v.dtype) in BPD and v.numel() > 0]
        t0, t1, t2 = tensors(v0), tensors(v1), tensors(gen.build_tree(case["state"]) if False else v1)
        if t0 and [p for p, _ in t0] == [p for p, _ in t1]:
            leaves = [{"addr": i, "ser": "buffer_protocol", "contig": bool(v.is_contiguous())} for i, (_, v) in enumerate(t0)]
            mem = lambda ts: [list(gen.tensor_bytes(v)) for _, v in ts]
            ops = [{"take": leaves}, {"mutate": mem(t1)}, {"take": leaves}, {"mutate": [[0] * len(b) for b in mem(t1)]}]
            ops += [{"write": [1, i]} for i in range(len(leaves))] + [{"write": [0, i]} for i in range(len(leaves))]
            rep = ctx.driver.call({"op": "stage_history", "mem0": mem(t0), "ops": ops})
            got = {(w["snap"], w["i"]): w["bytes"] for w in rep.get("written", [])}
            for snap_i, loaded in ((0, l1), (1, l2)):
                lt = dict(tensors(loaded)) if isinstance(loaded, dict) else {}
                for i, (p, _) in enumerate(t0):
                    real = list(gen.tensor_bytes(lt[p])) if p in lt else None
                    if real != got.get((snap_i, i)):
                        ctx.disagree("stage_history", dict(case, overlap=True), {"snapshot": snap_i, "path": p, "restored": (real or [])[:16]},
                                     {"snapshot": snap_i, "model_written": (got.get((snap_i, i)) or [])[:16]},
                                     "restored bytes of an overlapping async snapshot differ from the history model")
                        break
            ctx.count("overlap.model_tied")
    ctx.count("overlap.cases")
    ctx.case(suite, {"k": k, "knobs": case["knobs"], "state": gen.short(case["state"])}, nontrivial=True, key=["overlap", case])


def _fault_case(ctx: Ctx, case: Dict[str, Any], n_fault: int, suite: str = "async_transient_fault"):
    """One background write raises once (a transient OSError); the state is mutated after async_take returned.  Either
    wait() raises (the failure is reported; C03's subject), or it returns - and then the committed snapshot must still be
    the state at call time."""
    import gen
    import sim
    from torchsnapshot import Snapshot

    tree = gen.build_tree(case["state"])
    if not isinstance(tree, dict):
        tree = {"v": tree}
    before = gen.deep_clone(tree)
    world = sim.World(1)
    caller = threading.current_thread()
    gate = {"callers": {caller}, "allowed": 0, "passed": 0}
    world.storage.gate = gate
    world.storage.write_faults[(0, n_fault)] = "transient failure (injected)"

    def do():
        app = {"s": gen.RecStateful(tree)}
        pending = Snapshot.async_take(ROOT_A, app)
        _mutate_tree(tree)
        gate["allowed"] = 10 ** 9
        try:
            pending.wait()
        except Exception as e:  # noqa
            return ("raised", type(e).__name__)
        dst = gen.RecStateful({kk: None for kk in before})
        Snapshot(ROOT_A).restore({"s": dst})
        return ("ok", dst.loaded)

    with sim.knobs(**case["knobs"]):
        try:
            kind, val = world.run1(do)
        except Exception as e:  # noqa
            gate["allowed"] = 10 ** 9
            kind, val = "raised", type(e).__name__
        finally:
            world.storage.gate = None
    if kind == "ok":
        d = gen.deep_eq(before, val)
        if d is not None:
            ctx.fail("mutation-visible", "a transient write failure was survived, and the committed async snapshot holds state from after "
                     "async_take returned", dict(case, fault=n_fault), {"diff": d}, suite=suite)
        ctx.count("fault.survived")
    else:
        ctx.count("fault.reported")
    ctx.case(suite, {"fault_at_write": n_fault, "outcome": kind, "knobs": case["knobs"], "state": gen.short(case["state"])},
             nontrivial=True, key=["fault", n_fault, case])


def _stager_alias_suite(ctx: Ctx):
    """Does a staged buffer alias the tensor's memory?  Observed on the real stagers, compared with the model."""
    import gen
    import torch
    from torchsnapshot.io_preparers.tensor import TensorIOPreparer
    from torchsnapshot.io_preparers.object import ObjectIOPreparer

    loop = asyncio.new_event_loop()
    try:
        for _ in range(ctx.n(250, 2500)):
            d = gen.rand_tensor_desc(ctx.rng, 16)
            if gen.numel(d["shape"]) == 0:
                continue
            t = gen.build_tensor(d)
            is_async = ctx.rng.random() < 0.5
            entry, wrs = TensorIOPreparer.prepare_write("loc", t, is_async_snapshot=is_async)
            buf = loop.run_until_complete(wrs[0].buffer_stager.stage_buffer(None))
            staged = bytes(buf)
            _mutate_tensor(t)
            after = bytes(buf)
            alias = staged != after
            contig = bool(gen.build_tensor(d).is_contiguous())
            inp = {"dtype": d["dtype"], "shape": d["shape"], "layout": d["layout"], "async": is_async}
            if is_async and alias:
                ctx.fail("stager-alias-async", "buffer staged for an async snapshot changes when the tensor is mutated", inp,
                         {"serializer": entry.serializer})
            if ctx.driver:
                rep = ctx.driver.call({"op": "stage_alias", "async": is_async, "leaves": [{"ser": entry.serializer, "contig": contig}]})
                mk = rep.get("kinds", [None])[0]
                if mk != ("alias" if alias else "fresh"):
                    ctx.disagree("stager_alias", inp, "alias" if alias else "fresh", mk)
            ctx.count("stager.%s.%s" % (entry.serializer, "async" if is_async else "sync"))
            ctx.count("stager.alias" if alias else "stager.fresh")
            ctx.case("stager_alias", inp, nontrivial=True, key=[inp, d["data"]])
        # objects
        for obj in [{1.5: [1, 2]}, {"a"}, [1, [2]]]:
            entry, wrs = ObjectIOPreparer.prepare_write("loc", obj)
            buf = bytes(loop.run_until_complete(wrs[0].buffer_stager.stage_buffer(None)))
            _mutate_tree(obj)
            buf2 = bytes(loop.run_until_complete(wrs[0].buffer_stager.stage_buffer(None)))
            ctx.case("stager_alias", {"object": type(obj).__name__}, nontrivial=True)
            if buf == buf2:
                ctx.notes.append("object mutation did not change its serialisation (harness mutation too weak)")
    finally:
        loop.close()


def _gen_case(rng) -> Dict[str, Any]:
    import gen
    import sim
    tree = gen.rand_tree_desc(rng, 3, tensors=0.75, max_elems=16)
    if tree["t"] not in ("dict", "odict"):
        tree = {"t": "dict", "items": [[gen.key_desc("v"), tree], [gen.key_desc("w"), gen.rand_tensor_desc(rng, 16)]]}
    kn = sim.rand_knobs(rng)
    return {"state": tree, "knobs": kn, "k": 0}


CORPUS = [
    # D2 replay: contiguous float32 tensor, batching off, mutate before any background write
    {"state": {"t": "dict", "items": [[{"k": "str", "v": [119]}, {"t": "tensor", "dtype": "float32", "shape": [4], "data": list(range(16)), "layout": "contig"}]]},
     "knobs": {"nobatch": True, "budget": 10 ** 9}, "k": 0},
    # large tensor above the slab threshold with batching on (passes through the slab batcher unbatched)
    {"state": {"t": "dict", "items": [[{"k": "str", "v": [119]}, {"t": "tensor", "dtype": "int64", "shape": [8], "data": [7] * 64, "layout": "contig"}],
                                      [{"k": "str", "v": [120]}, {"t": "tensor", "dtype": "uint8", "shape": [2], "data": [1, 2], "layout": "contig"}]]},
     "knobs": {"nobatch": False, "slab": 16, "budget": 10 ** 9}, "k": 0},
]


def run(ctx: Ctx):
    _stager_alias_suite(ctx)
    for c in CORPUS:
        for k in (0, 1):
            _one_case(ctx, dict(c, k=k), "corpus")
    n = ctx.n(220, 2000)
    for i in range(n):
        if ctx.time_left() < 15:
            ctx.notes.append(f"async stream stopped early at {i}")
            break
        case = _gen_case(ctx.rng)
        total = _one_case(ctx, case, "async_mutate")
        if total is None:
            continue
        # mutate at further positions: every position in thorough, up to 2 more in quick
        ks = list(range(1, total + 1))
        if ctx.quick:
            ks = sorted(set(ctx.rng.sample(ks, min(2, len(ks))))) if ks else []
        for k in ks:
            if ctx.time_left() < 10:
                break
            _one_case(ctx, dict(case, k=k), "async_mutate")
        # every third state: two overlapping pending snapshots, and a transient failure of one background write
        if i % 3 == 0 and ctx.time_left() > 10:
            oc = dict(case, k=ctx.rng.choice([0, 0, 1]))
            if ctx.rng.random() < 0.5:
                # tensors that are not packed into slabs keep their own staging buffer: the interesting case for reuse
                oc["knobs"] = dict(case["knobs"], nobatch=True, budget=10 ** 9)
            _overlap_case(ctx, oc)
        if i % 3 == 1 and total > 0 and ctx.time_left() > 10:
            _fault_case(ctx, case, ctx.rng.randrange(total))


def replay(ctx: Ctx, rec):
    inp = dict(rec["input"])
    if inp.pop("overlap", None):
        _overlap_case(ctx, inp, "replay")
    elif "fault" in inp:
        _fault_case(ctx, inp, inp.pop("fault"), "replay")
    else:
        _one_case(ctx, inp, "replay")
    for f in ctx.failures:
        print("FAIL", f["sig"], f["what"], f["observed"])
    if not ctx.failures:
        print("no failure on replay")
