"""One rank of a real multi-process gloo job for C08: DTensor resharding through a snapshot.

usage: c08_dtensor_worker.py <cfg.json> <rank> <W> <initfile> <snapdir> <out.json>
cfg = {"shape": [r, c], "dtype": "float32", "pairs": [[src_dim, dst_dim], ...]}  (-1 = Replicate)
Each pair: the global tensor is distributed with Shard(src_dim) (uneven when the dimension is not divisible by W), saved,
and restored into a DTensor distributed with Shard(dst_dim) that holds a sentinel; every rank then compares its local
shard with its slice of the saved global tensor (torch.chunk, independent of the library).  Only plain keys are used.
"""
import json
import os
import sys


def main():
    cfg_path, rank, W, initfile, snapdir, out_path = sys.argv[1], int(sys.argv[2]), int(sys.argv[3]), sys.argv[4], sys.argv[5], sys.argv[6]
    sys.path.insert(0, os.environ.get("VERIF_REPO", "/repo"))
    import warnings
    warnings.filterwarnings("ignore")
    import torch
    import torch.distributed as dist
    from torch.distributed._tensor import DeviceMesh, Replicate, Shard, distribute_tensor
    cfg = json.load(open(cfg_path))
    dist.init_process_group("gloo", init_method=f"file://{initfile}", rank=rank, world_size=W)
    from torchsnapshot import Snapshot, StateDict
    mesh = DeviceMesh("cpu", list(range(W)))
    shape = cfg["shape"]
    n = 1
    for x in shape:
        n *= x
    saved = (torch.arange(n, dtype=torch.float64) * 3 + 1).reshape(shape).to(getattr(torch, cfg["dtype"]))
    stale = torch.full(shape, -1).to(saved.dtype)
    problems = []

    def place(d):
        return [Replicate()] if d < 0 else [Shard(d)]

    def expected(d):
        if d < 0:
            return saved
        chunks = torch.chunk(saved, W, dim=d)
        return chunks[rank] if rank < len(chunks) else saved.narrow(d, 0, 0)
    for i, (sd, dd) in enumerate(cfg["pairs"]):
        src = distribute_tensor(saved.clone(), mesh, place(sd))
        dst = distribute_tensor(stale.clone(), mesh, place(dd))
        path = os.path.join(snapdir, f"snap{i}")
        Snapshot.take(path=path, app_state={"m": StateDict(t=src)})
        st = StateDict(t=dst)
        Snapshot(path=path).restore(app_state={"m": st})
        got, want = st["t"].to_local(), expected(dd)
        if list(got.shape) != list(want.shape) or not torch.equal(got, want):
            problems.append({"pair": [sd, dd], "rank": rank, "got": got.flatten().tolist()[:12], "want": want.flatten().tolist()[:12]})
    dist.barrier()
    dist.destroy_process_group()
    json.dump({"problems": problems}, open(out_path, "w"))


if __name__ == "__main__":
    main()
