"""C19 — take has no side effects on app state or RNG; RNG resumes identically."""
from __future__ import annotations

import hashlib
import struct
from collections import OrderedDict
from typing import Any, Dict, List, Optional

from common import Ctx

PROP = "C19"
LEAN_MODULE = "TsProofs.Properties.C19"
THEOREMS = [
    "Ts.Rng.C19_take_rng_neutral_with_rngstate",
    "Ts.Rng.C19_take_rng_without",
    "Ts.Rng.C19_restore_resumes",
    "Ts.Rng.C19_restore_resumes_after_draws",
    "Ts.Rng.C19_state_untouched",
]
BUDGET_S = (100, 900)
RULE = ("sequences take|async_take -> draws -> restore (1-3 snapshots, 0-2 restores each) run on the real Snapshot "
        "code (in-memory storage, 1 rank; some with a 2nd rank contributing extra global keys) with statefuls that draw "
        "torch random numbers (rand/randn/randint, 1..4 numbers) inside state_dict()/load_state_dict(), an RNGState under "
        "a key sorting before/between/after the others (or absent, or two of them), dict insertion order shuffled, random "
        "knobs; plus a bounded-exhaustive scope (RNGState absent/before/between/after x drawing or not in state_dict / load_state_dict x sync/async); torch.get_rng_state/set_rng_state and every stateful method are wrapped to record the call order. "
        "Correspondence: call order and RNG state after every step vs the Lean model run at the free RNG state (history of "
        "draw tags, realised by replaying the draws on torch). Oracle on the real code: RNG equality (take with RNGState: "
        "after = before; without: after = before + the app's own draws in sorted key order; async: wait() changes nothing; "
        "restore: after = after the take), and bitwise digest + id() + container structure + strides/data_ptr/storage bytes "
        "of every leaf before vs after take / async_take / wait(). Non-trivial = at least one snapshot op with >=1 drawing "
        "stateful; distinct by sequence description.")
TRUSTED = ["torch.get_rng_state()/set_rng_state() capture and restore the whole CPU generator state",
           "harness/sim.py in-memory storage / fake process group (environment only; Snapshot code runs unmodified)"]
ASSUMPTIONS = ["CPU generator only (RNGState saves torch.get_rng_state(); CUDA generators are outside rng_state.py)",
               "that no torch kernel used by staging/serialization consumes randomness is torch behaviour: sampled by the oracle, not proved",
               "collectives issued inside user state_dict() are outside the model"]

KEY_POOL = ["b", "d", "f", "h", "model", "optim", "Z", "été", "k/1", "x y"]
RNG_KEYS = ["a", "c", "e", "g", "z", "rng_state", "A", "0", "ÿ", "n", "trainer/rng", "r%ng", "t/r%2F"]   # incl. keys that flatten() must escape
TREE_KEYS = ["a", "b", "w", 1, "x y", "é"]


# ----------------------------------------------------------------------------------------------
# draws
# ----------------------------------------------------------------------------------------------

def do_draw(tag: int):
    """tag 0: nothing; otherwise (kind, n) = ((tag-1) % 3, (tag-1)//3 + 1)."""
    import torch
    if tag == 0:
        return
    kind, n = (tag - 1) % 3, (tag - 1) // 3 + 1
    if kind == 0:
        torch.rand(n)
    elif kind == 1:
        torch.randn(n)
    else:
        torch.randint(0, 100, (n,))


def cps(s: str) -> List[int]:
    return [ord(c) for c in s]


# ----------------------------------------------------------------------------------------------
# fingerprint of an application state
# ----------------------------------------------------------------------------------------------

def fingerprint(app: Dict[str, Any]) -> List[Any]:
    import torch
    import gen
    out: List[Any] = [("app", id(app), [(k, id(v)) for k, v in app.items()])]

    def walk(o, p):
        if isinstance(o, torch.Tensor):
            st = o.untyped_storage()
            out.append((p, "tensor", id(o), str(o.dtype), tuple(o.shape), tuple(o.stride()), o.storage_offset(),
                        o.data_ptr(), hashlib.sha1(gen.tensor_bytes(o)).hexdigest(),
                        hashlib.sha1(bytes(st)).hexdigest() if st.nbytes() else "", o.requires_grad))
        elif isinstance(o, dict):
            out.append((p, type(o).__name__, id(o), [(type(k).__name__, repr(k)) for k in o]))
            for k, v in o.items():
                walk(v, f"{p}/{k!r}")
        elif isinstance(o, (list, tuple)):
            out.append((p, type(o).__name__, id(o), len(o)))
            for i, v in enumerate(o):
                walk(v, f"{p}[{i}]")
        elif isinstance(o, float):
            out.append((p, "float", id(o), struct.pack("<d", o).hex()))
        else:
            out.append((p, type(o).__name__, id(o), repr(o)))

    for k, v in app.items():
        sd = getattr(v, "sd", None)
        if sd is not None:
            walk(sd, repr(k))
    return out


def fp_diff(a: List[Any], b: List[Any]) -> Optional[str]:
    if len(a) != len(b):
        return f"node count {len(a)} -> {len(b)}"
    for x, y in zip(a, b):
        if x != y:
            return f"{x!r} -> {y!r}"[:400]
    return None


# ----------------------------------------------------------------------------------------------
# generators
# ----------------------------------------------------------------------------------------------

def _tree_desc(rng, contig: bool):
    import gen
    items = []
    for k in rng.sample(TREE_KEYS, rng.randint(1, 3)):
        d = gen.rand_tree_desc(rng, rng.choice([0, 0, 1, 2]), keys=TREE_KEYS, tensors=0.7, max_elems=12)
        items.append([gen.key_desc(k), d])
    t = {"t": "dict", "items": items}
    if contig:
        _make_contig(t)
    return t


def _make_contig(d):
    if isinstance(d, dict):
        if d.get("t") == "tensor":
            d["layout"] = "contig"
        for v in d.values():
            _make_contig(v)
    elif isinstance(d, list):
        for v in d:
            _make_contig(v)


def _rand_tag(rng) -> int:
    return rng.choice([0, 1, 2, 3, 4, 5, 6, 7, 9, 12])


def gen_sequence(rng, quick: bool) -> Dict[str, Any]:
    nkeys = rng.choice([0, 1, 2, 2, 3, 4])
    keys = rng.sample(KEY_POOL, nkeys)
    rng_mode = rng.choice(["one", "one", "one", "none", "none", "two"] if rng.random() < 0.15 else ["one", "one", "one", "none"])
    rng_keys = {"none": [], "one": [rng.choice(RNG_KEYS)], "two": rng.sample(RNG_KEYS, 2)}[rng_mode]
    trees = {k: _tree_desc(rng, contig=False) for k in keys}
    extra = rng.sample([k for k in ["a0", "cc", "ee", "i", "zz"]], rng.randint(1, 3)) if rng.random() < 0.2 else []

    def app_desc(ks, rks, for_restore):
        items = [{"key": k, "sd": _rand_tag(rng), "ld": _rand_tag(rng)} for k in ks] + [{"key": k, "rng": True} for k in rks]
        rng.shuffle(items)
        return items

    steps: List[Dict[str, Any]] = []
    ntakes = 0
    if rng_mode == "one" and rng.random() < 0.3:
        # a training job's life: one app_state dict, reused for every call - take, (draws), restore [resume], take, (draws),
        # restore.  The RNG statement must hold in every cycle, so the calls must not disturb the dict they are given.
        one = app_desc(keys, rng_keys, False)
        trees = {k: _tree_desc(rng, contig=True) for k in keys}     # restored in place: targets must be writable tensors
        for c in range(2):
            steps.append({"k": "take", "async": rng.random() < 0.3, "app": one, "reuse": True})
            steps.append({"k": "draw", "n": rng.randint(1, 9)})
            steps.append({"k": "restore", "snap": c, "app": one, "reuse": True})
            ntakes += 1
        knobs = {"chunk": None, "slab": rng.choice([64, None]), "nobatch": rng.random() < 0.4, "budget": None, "conc": None, "shard": None}
        return {"seed": rng.randrange(2 ** 31), "knobs": knobs, "trees": trees, "extra": [], "steps": steps}
    for _ in range(rng.choice([1, 1, 2, 2, 3])):
        r = rng.random()
        if r < 0.25:
            steps.append({"k": "draw", "n": rng.randint(1, 12)})
        steps.append({"k": "take", "async": rng.random() < 0.4, "app": app_desc(keys, rng_keys, False)})
        ntakes += 1
        for _ in range(rng.choice([0, 1, 1, 2])):
            steps.append({"k": "draw", "n": rng.randint(1, 12)})
        for _ in range(rng.choice([0, 1, 1, 2])):
            sub = [k for k in keys if rng.random() < 0.8]
            mode = rng.random()
            rks = list(rng_keys[:1])
            if mode < 0.08:
                rks = []                                   # restore without the RNGState
            elif mode < 0.12 and not rng_keys:
                rks = [rng.choice(RNG_KEYS)]               # RNGState the snapshot does not have
            elif mode < 0.16 and rng_keys:
                rks = [rng.choice([k for k in RNG_KEYS if k not in rng_keys])]   # other key
            if mode > 0.95 and len(keys) < len(KEY_POOL):
                sub = sub + [rng.choice([k for k in KEY_POOL if k not in keys])]  # key never saved
            steps.append({"k": "restore", "snap": rng.randrange(ntakes), "app": app_desc(sub, rks, True)})
            if rng.random() < 0.3:
                steps.append({"k": "draw", "n": rng.randint(1, 12)})
    # (the RNG state is a 5056-byte uint8 tensor: tiny chunk sizes would only make the run slow)
    knobs = {"chunk": rng.choice([1024, 4096, None]), "slab": rng.choice([64, 4096, None]), "nobatch": rng.random() < 0.4,
             "budget": rng.choice([100, 6000, 10 ** 9, None]), "conc": rng.choice([1, 2, None]), "shard": None}
    return {"seed": rng.randrange(2 ** 31), "knobs": knobs, "trees": trees, "extra": extra, "steps": steps}


CORPUS: List[Dict[str, Any]] = [
    # RNGState sorting between two drawing statefuls; restore draws in state_dict and load_state_dict
    {"seed": 1, "knobs": {}, "extra": [], "trees": {},
     "steps": [{"k": "take", "async": False, "app": [{"key": "h", "sd": 4, "ld": 0}, {"key": "e", "rng": True}, {"key": "b", "sd": 2, "ld": 0}]},
               {"k": "draw", "n": 5},
               {"k": "restore", "snap": 0, "app": [{"key": "b", "sd": 1, "ld": 3}, {"key": "e", "rng": True}, {"key": "h", "sd": 6, "ld": 7}]}]},
    # no RNGState: draws of the app, in sorted key order although registered in reverse
    {"seed": 2, "knobs": {}, "extra": [], "trees": {},
     "steps": [{"k": "take", "async": True, "app": [{"key": "h", "sd": 3, "ld": 0}, {"key": "b", "sd": 5, "ld": 0}]}]},
    # RNGState first / last in key order, async, second rank contributing keys
    {"seed": 3, "knobs": {"nobatch": True}, "extra": ["cc", "zz"], "trees": {},
     "steps": [{"k": "take", "async": True, "app": [{"key": "d", "sd": 7, "ld": 0}, {"key": "0", "rng": True}]},
               {"k": "draw", "n": 2},
               {"k": "take", "async": False, "app": [{"key": "d", "sd": 1, "ld": 0}, {"key": "ÿ", "rng": True}]},
               {"k": "restore", "snap": 0, "app": [{"key": "0", "rng": True}, {"key": "d", "sd": 2, "ld": 2}]}]},
]


# ----------------------------------------------------------------------------------------------
# running one sequence on the implementation
# ----------------------------------------------------------------------------------------------

class _Recorder:
    """Wraps torch.get_rng_state / set_rng_state for the duration of a sequence."""

    def __init__(self):
        import torch
        self.torch = torch
        self.evs: Dict[int, List[Any]] = {0: [], 1: []}
        self.orig_get = torch.get_rng_state
        self.orig_set = torch.set_rng_state

    def __enter__(self):
        import sim
        rec = self

        def get_rng_state(*a, **kw):
            rec.evs[sim.current_rank()].append(["get"])
            return rec.orig_get(*a, **kw)

        def set_rng_state(*a, **kw):
            rec.evs[sim.current_rank()].append(["set"])
            return rec.orig_set(*a, **kw)

        self.torch.get_rng_state = get_rng_state
        self.torch.set_rng_state = set_rng_state
        self.torch.random.get_rng_state = get_rng_state
        self.torch.random.set_rng_state = set_rng_state
        return self

    def __exit__(self, *a):
        self.torch.get_rng_state = self.orig_get
        self.torch.set_rng_state = self.orig_set
        self.torch.random.get_rng_state = self.orig_get
        self.torch.random.set_rng_state = self.orig_set

    def state(self) -> bytes:
        return bytes(self.orig_get().tolist())

    def take_evs(self, rank=0):
        e = self.evs[rank]
        self.evs[rank] = []
        return e


def _build_app(rec: _Recorder, items, trees, for_restore: bool):
    import gen
    import sim
    from torchsnapshot import RNGState

    class DrawStateful:
        def __init__(self, key, sd_tag, ld_tag, tree):
            self.key, self.sd_tag, self.ld_tag, self.sd = key, sd_tag, ld_tag, tree
            self.loaded = None

        def state_dict(self):
            rec.evs[sim.current_rank()].append(["sd", cps(self.key)])
            do_draw(self.sd_tag)
            return self.sd

        def load_state_dict(self, sd):
            rec.evs[sim.current_rank()].append(["load", cps(self.key)])
            do_draw(self.ld_tag)
            self.loaded = sd

    class RecRNG(RNGState):
        def __init__(self, key):
            self.key = key

        def state_dict(self):
            rec.evs[sim.current_rank()].append(["sd", cps(self.key)])
            return super().state_dict()

        def load_state_dict(self, sd):
            rec.evs[sim.current_rank()].append(["load", cps(self.key)])
            return super().load_state_dict(sd)

    app: Dict[str, Any] = {}
    for it in items:
        k = it["key"]
        if it.get("rng"):
            app[k] = RecRNG(k)
        else:
            d = trees.get(k)
            if d is None:
                tree = {"v": gen.tensor_from_bytes(gen.NAME_DT["int32"], [2], bytes(range(8)))}
            else:
                if for_restore:
                    import copy
                    d = copy.deepcopy(d)
                    _make_contig(d)
                tree = gen.build_tree(d)
            app[k] = DrawStateful(k, it["sd"], it["ld"], tree)
    return app


def _model_script(seq) -> Dict[str, Any]:
    steps = []
    for st in seq["steps"]:
        if st["k"] == "draw":
            steps.append({"k": "draw", "n": st["n"]})
        else:
            app = [({"key": cps(it["key"]), "rng": True} if it.get("rng") else
                    {"key": cps(it["key"]), "sd": it["sd"], "ld": it["ld"]}) for it in st["app"]]
            d = {"k": st["k"], "app": app, "extra": [cps(k) for k in seq.get("extra", [])]}
            if st["k"] == "restore":
                d["snap"] = st["snap"]
            steps.append(d)
    return {"op": "rng_script", "init": [], "steps": steps}


def _err_kind(e: BaseException) -> str:
    if isinstance(e, RuntimeError) and "Multiple RNGState" in str(e):
        return "multipleRng"
    return "notInSnapshot"


def run_sequence(ctx: Ctx, seq: Dict[str, Any], verbose: bool = False) -> bool:
    """Run on the implementation (+ model), evaluate correspondence and oracle. Returns non-triviality."""
    import torch
    import sim
    import gen
    from torchsnapshot import Snapshot

    extra = seq.get("extra", [])
    W = 2 if extra else 1
    world = sim.World(W)
    trees = seq.get("trees", {})
    impl_steps: List[Dict[str, Any]] = []
    fails: List[Any] = []
    nontrivial = False

    def fail(sig, what, observed):
        fails.append((sig, what, observed))

    def replay_state(base: bytes, tags: List[int], rec: _Recorder) -> bytes:
        cur = rec.orig_get()
        rec.orig_set(torch.tensor(list(base), dtype=torch.uint8))
        for t in tags:
            do_draw(t)
        out = rec.state()
        rec.orig_set(cur)
        return out

    with _Recorder() as rec, sim.knobs(**seq.get("knobs", {})):
        torch.manual_seed(seq["seed"])
        s0 = rec.state()
        snaps: List[Any] = []          # per take: (path, rng state right after the take returned, had_rng)

        def main(rank: int, pg):
            nonlocal nontrivial
            ntake = 0
            reused_app = None
            for si, st in enumerate(seq["steps"]):
                if st["k"] == "draw":
                    if rank == 0:
                        do_draw(st["n"])
                        impl_steps.append({"evs": [], "state": rec.state()})
                    continue
                if rank != 0:
                    # second rank: fixed non-drawing statefuls under the extra keys, mirrors every snapshot op
                    app1 = {k: gen.RecStateful({"v": torch.arange(3) + i}) for i, k in enumerate(extra)}
                    try:
                        if st["k"] == "take":
                            p = f"/c19/{ntake}"
                            ntake += 1
                            if st["async"]:
                                Snapshot.async_take(p, app1, pg=pg).wait()
                            else:
                                Snapshot.take(p, app1, pg=pg)
                        else:
                            Snapshot(f"/c19/{st['snap']}", pg=pg).restore(app1)
                    except Exception:
                        return
                    continue
                if st.get("reuse") and reused_app is not None:
                    app = reused_app
                else:
                    app = _build_app(rec, st["app"], trees, for_restore=(st["k"] == "restore" and not st.get("reuse")))
                    if st.get("reuse"):
                        reused_app = app
                n_rng = sum(1 for it in st["app"] if it.get("rng"))
                draws_sorted = [it["sd"] for it in sorted((it for it in st["app"] if not it.get("rng")), key=lambda it: it["key"])]
                before = rec.state()
                rec.take_evs()
                out: Dict[str, Any] = {}
                try:
                    if st["k"] == "take":
                        path = f"/c19/{ntake}"
                        ntake += 1
                        fp0 = fingerprint(app)
                        if st["async"]:
                            pending = Snapshot.async_take(path, app, pg=pg)
                            after = rec.state()
                            d = fp_diff(fp0, fingerprint(app))
                            if d:
                                fail("async-take-mutated-app-state", "app state differs after async_take returned", d)
                            pending.wait()
                            after_wait = rec.state()
                            if after_wait != after:
                                fail("async-wait-changed-rng", "RNG state changed between async_take returning and wait()", None)
                        else:
                            Snapshot.take(path, app, pg=pg)
                            after = rec.state()
                        d = fp_diff(fp0, fingerprint(app))
                        if d:
                            fail("take-mutated-app-state", "app state (bits / identity / structure) differs after take", d)
                        snaps.append((path, after, n_rng == 1))
                        # ---- oracle: the property itself
                        if n_rng == 1 and after != before:
                            fail("take-rng-changed-with-rngstate", "RNG after take differs from RNG before although an RNGState is registered", None)
                        if n_rng == 0 and after != replay_state(before, draws_sorted, rec):
                            fail("take-rng-not-app-draws", "without RNGState the RNG after take is not the RNG before advanced by the app's own state_dict draws in key order", None)
                        if any(t for t in draws_sorted):
                            nontrivial = True
                    else:
                        path, after_take, had_rng = snaps[st["snap"]]
                        Snapshot(path, pg=pg).restore(app)
                        after = rec.state()
                        if n_rng == 1 and had_rng and after != after_take:
                            fail("restore-rng-not-resumed", "RNG after restore differs from RNG right after the take that produced the snapshot", None)
                        if any(it.get("sd") or it.get("ld") for it in st["app"]):
                            nontrivial = True
                    out = {"evs": rec.take_evs(), "state": after}
                except Exception as e:  # noqa
                    out = {"err": _err_kind(e), "exc": f"{type(e).__name__}: {str(e)[:120]}", "state": rec.state()}
                    if st["k"] == "take":
                        snaps.append((None, None, False))
                impl_steps.append(out)
                if "err" in out:
                    return

        if W == 1:
            world.run1(lambda: main(0, None))
        else:
            res = world.run(main)
            for r, (tag, val) in enumerate(res):
                if tag == "exc" and not isinstance(val, sim.Mismatch):
                    raise val

        # ---- correspondence with the model
        model = None
        if ctx.driver:
            model = ctx.driver.call(_model_script(seq))
            msteps = model.get("steps", [])
            cache: Dict[Any, bytes] = {}
            for i, im in enumerate(impl_steps):
                mo = msteps[i] if i < len(msteps) else {"missing": True}
                if "err" in im or "err" in mo:
                    if im.get("err") != mo.get("err"):
                        ctx.disagree("rng_script", seq, {"step": i, "impl": im.get("err") or "ok", "exc": im.get("exc")},
                                     {"step": i, "model": mo.get("err") or "ok"})
                    break
                if im["evs"] != mo.get("evs"):
                    ctx.disagree("rng_script", seq, {"step": i, "evs": im["evs"]}, {"step": i, "evs": mo.get("evs")}, "call order")
                    break
                hist = tuple(mo.get("rng", []))
                if hist not in cache:
                    cache[hist] = replay_state(s0, list(hist), rec)
                if cache[hist] != im["state"]:
                    ctx.disagree("rng_script", seq, {"step": i, "rng": "state differs from the model's history replayed on torch"},
                                 {"step": i, "rng_history": list(hist)}, "rng state")
                    break
        if verbose:
            print("impl :", [{k: (v if k != "state" else hashlib.sha1(v).hexdigest()[:8]) for k, v in s.items()} for s in impl_steps])
            print("model:", model)

    for sig, what, obs in fails:
        ctx.fail(sig, what, seq, obs)
    for st in seq["steps"]:
        ctx.count("step." + st["k"] + (".async" if st.get("async") else ""))
        if st["k"] != "draw":
            nr = sum(1 for it in st["app"] if it.get("rng"))
            ctx.count(f"{st['k']}.rngstates.{nr}")
            if nr == 1:
                ks = sorted(it["key"] for it in st["app"])
                rk = next(it["key"] for it in st["app"] if it.get("rng"))
                pos = ks.index(rk)
                ctx.count("rngkey." + ("only" if len(ks) == 1 else "first" if pos == 0 else "last" if pos == len(ks) - 1 else "between"))
    for im in impl_steps:
        if "err" in im:
            ctx.count("err." + im["err"])
    ctx.count("world.%d" % W)
    return nontrivial


def _short(seq):
    return {"seed": seq["seed"], "knobs": seq.get("knobs"), "extra": seq.get("extra"),
            "steps": [({"k": "draw", "n": s["n"]} if s["k"] == "draw" else
                       {"k": s["k"], "async": s.get("async"), "snap": s.get("snap"),
                        "app": [(it["key"] + ":RNG") if it.get("rng") else f"{it['key']}:sd{it['sd']}/ld{it['ld']}" for it in s["app"]]})
                      for s in seq["steps"]]}


def exhaustive_sequences(quick: bool):
    """Small scope, exhaustively: RNGState absent / sorting before, between, after two statefuls; each stateful
    draws or not in state_dict and in load_state_dict; sync and async; take -> draw -> restore."""
    import itertools
    tagsets = [(0, 0), (1, 0), (0, 5), (2, 6)] if quick else list(itertools.product([0, 1, 5], [0, 2, 6]))
    i = 0
    for rk in [None, "a", "c", "e"]:
        for sd_b, sd_d in tagsets:
            for ld_b, ld_d in ([(0, 0), (3, 4)] if quick else [(0, 0), (3, 0), (0, 4), (3, 4)]):
                for is_async in (False, True):
                    i += 1
                    t_app = [{"key": "d", "sd": sd_d, "ld": 0}, {"key": "b", "sd": sd_b, "ld": 0}]
                    r_app = [{"key": "b", "sd": sd_d, "ld": ld_b}, {"key": "d", "sd": sd_b, "ld": ld_d}]
                    if rk:
                        t_app.insert(1, {"key": rk, "rng": True})
                        r_app.append({"key": rk, "rng": True})
                    yield {"seed": 1000 + i, "knobs": {"nobatch": i % 3 == 0}, "extra": [], "trees": {},
                           "steps": [{"k": "take", "async": is_async, "app": t_app}, {"k": "draw", "n": 1 + i % 7},
                                     {"k": "restore", "snap": 0, "app": r_app}]}


def run(ctx: Ctx):
    # the runner's deadline counts the Lean build; on a loaded machine keep at least 60% of the budget for the cases
    import time
    import os as _os
    _b = float(_os.environ.get("VERIF_BUDGET_S", "0")) or (BUDGET_S[0] if ctx.quick else BUDGET_S[1])
    ctx.deadline = max(ctx.deadline, time.time() + 0.6 * _b)
    for seq in CORPUS:
        nt = run_sequence(ctx, seq)
        ctx.case("corpus", _short(seq), nontrivial=nt, key=_short(seq))
    for seq in exhaustive_sequences(ctx.quick):
        if ctx.time_left() < 30:
            ctx.notes.append("exhaustive scope stopped early")
            break
        nt = run_sequence(ctx, seq)
        ctx.case("exhaustive_small", _short(seq), nontrivial=nt, key=_short(seq))
    n = ctx.n(150, 3000)
    for i in range(n):
        if ctx.time_left() < 8:
            ctx.notes.append(f"sequence suite stopped early at {i}/{n}")
            break
        seq = gen_sequence(ctx.rng, ctx.quick)
        nt = run_sequence(ctx, seq)
        ctx.case("rng_sequences", _short(seq), nontrivial=nt, key=_short(seq))


def replay(ctx: Ctx, rec):
    seq = rec["input"]
    print("sequence:", _short(seq))
    run_sequence(ctx, seq, verbose=True)


LEVEL_TEXT = ("Lean 4 theorems over an abstract RNG-state type and arbitrary per-call effect functions (unbounded in the number of "
              "statefuls, key names/positions, dict order, draw patterns, interposed draws, keys contributed by other ranks): with an "
              "RNGState, take leaves the RNG exactly as found; without, the RNG advances by exactly the app's own state_dict draws in "
              "ascending key order; the RNG after restore equals the RNG after the take from any state at restore time; the CPU staging "
              "path never writes an application buffer. The model is tied to the real take/async_take/restore on every run by comparing "
              "the recorded call order and the RNG state after every step; the property oracle (RNG equalities, bitwise/identity/"
              "structure fingerprint of the app state) is evaluated on the real code.")
LEVEL_NOTE = ("Trusted: Lean kernel (+propext, Classical.choice, Quot.sound), the hand model lean/TsModel/Rng.lean, the harness and "
              "simulator. That torch kernels used by staging consume no randomness and that get/set_rng_state cover the whole CPU "
              "generator is torch behaviour, sampled by the oracle not proved. The staging theorem is model-level (heap of buffers); "
              "its tie is the fingerprint oracle.")
TECHNIQUE = "Lean 4 proof over executable model (state-transformer equations) + differential correspondence of call order / RNG state + oracle on the real code"
