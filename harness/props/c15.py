"""C15 — flatten/inflate is an exact inverse for every nested container."""
from __future__ import annotations

import itertools
from collections import OrderedDict, defaultdict

from common import Ctx

PROP = "C15"
LEAN_MODULE = "TsProofs.Properties.C15"
THEOREMS = [
    "Ts.Flatten.C15_decode_encode",
    "Ts.Flatten.C15_encode_injective",
    "Ts.Flatten.C15_encode_no_slash",
    "Ts.Flatten.C15_split_join",
    "Ts.Flatten.C15_int_of_str_nat",
    "Ts.Flatten.C15_should_flatten_iff",
    "Ts.Flatten.C15_unflattenable_kept_whole",
    "Ts.Flatten.C15_flatten_paths_unique",
    "Ts.Flatten.C15_inverse",
    "Ts.Flatten.C15_inverse_after_metadata",
]
BUDGET_S = (100, 800)
RULE = ("trees: nestings (depth <= 4) of list / dict / OrderedDict over an adversarial key alphabet (1, '1', '01', '+1', "
        "'-0', Arabic-Indic and superscript digits, True/False, '', '%2F', 'a/b', '%', '/', long keys, non-BMP and lone-"
        "surrogate keys, big ints, tuple keys that make a dict unflattenable, colliding str() forms) in random and -- for "
        "the bounded-exhaustive scope -- all key orders; real flatten/inflate vs the Lean model (manifest and leaf map "
        "compared as path-sorted lists, inflate results exactly); malformed stream: shuffled / mutated flatten outputs and "
        "hand-built manifests (missing parents, non-integer list tokens, colliding percent-escapes, duplicate keys) through "
        "real inflate vs model incl. the error class; unit ops _encode/_decode/_check_int/_should_flatten_dict/int()/str()/"
        "split/join individually, str.isdigit over all 0x110000 code points. A tree case is non-trivial if it has >= 1 "
        "flattened dict with >= 1 key; distinct by content hash.")
TRUSTED = ["urllib.parse.unquote, int(), str(), str.isdigit of CPython 3.12 (modelled on the stated sub-domains, sampled)",
           "JSON round trip of the container manifest (property C14) for C15_inverse_after_metadata"]
ASSUMPTIONS = ["leaves are opaque (compared by identity); dict keys are str / int / bool / tuple",
               "unquote is modelled for escapes < 0x80 only; int() for printable ASCII without '_' only; outside these "
               "the model answers OutOfDomain and the case is not compared"]

# ------------------------------------------------------------------------------------------
# alphabets (non-ASCII characters are built numerically)
# ------------------------------------------------------------------------------------------
ARABIC_ONE = chr(0x0661)
SUPER_TWO = chr(0x00B2)
EMOJI = chr(0x1F600)
HI_SUR = chr(0xD83D)
LO_SUR = chr(0xDE00)
LONG_KEY = "k" * 1500

KEYS = [
    1, "1", "01", "+1", "-0", ARABIC_ONE, SUPER_TWO, True, False, "", "%2F", "a/b", "%",
    0, "0", -1, "-1", "True", "False", "%25", "%2f", "/", "//", "a%2Fb", ".", "..", "a", "b",
    EMOJI, HI_SUR, LO_SUR + "x", LONG_KEY, "1_0", " 1", 10 ** 30, -(10 ** 20), "%41", "A", 2, "2",
]
OTHER_KEYS = [(0,), (7,), (123,)]
PREFIXES = ["0", "", "a/b", "%", "my/prefix", "%2F", "p", EMOJI + "/" + HI_SUR, "x" * 300, "/", "1"]
CPS = [37, 47, 50, 53, 70, 102, 65, 52, 49, 48, 43, 45, 95, 32, 0, 0x661, 0xB2, 0x1F600, 0xD83D, 0xDE00, 0xE9, 97, 120]


def cps(s):
    return [ord(c) for c in s]


def from_cps(l):
    return "".join(chr(c) for c in l)


class MyList(list):
    pass


class MyOD(OrderedDict):
    pass


class Opaque:
    def __init__(self, n):
        self.n = n

    def __repr__(self):
        return f"Opaque({self.n})"


class World:
    """Leaf tokens <-> Python objects (identity)."""

    def __init__(self):
        self.objs = {}
        self.by_id = {}

    def leaf(self, n):
        if n == 0:
            return None
        if n not in self.objs:
            k = n % 6
            if k == 0:
                o = 100000 + n
            elif k == 1:
                o = Opaque(n)
            elif k == 2:
                o = (n, [n])
            elif k == 3:
                o = defaultdict(int, {n: n})
            elif k == 4:
                o = MyList([n])
            else:
                o = MyOD(a=n)
            self.objs[n] = o
            self.by_id[id(o)] = n
        return self.objs[n]


def key_json(k):
    if isinstance(k, bool):
        return {"b": k}
    if isinstance(k, int):
        return {"i": k}
    if isinstance(k, str):
        return {"s": cps(k)}
    if isinstance(k, tuple) and len(k) == 1 and isinstance(k[0], int) and not isinstance(k[0], bool) and k[0] >= 0:
        return {"o": k[0]}
    raise TypeError(f"unrepresentable key {k!r}")


def key_py(j):
    if "s" in j:
        return from_cps(j["s"])
    if "i" in j:
        return j["i"]
    if "b" in j:
        return j["b"]
    return (j["o"],)


def to_py(t, w: World):
    if "leaf" in t:
        return w.leaf(t["leaf"])
    if "list" in t:
        return [to_py(x, w) for x in t["list"]]
    if "dict" in t:
        return {key_py(k): to_py(v, w) for k, v in t["dict"]}
    return OrderedDict((key_py(k), to_py(v, w)) for k, v in t["odict"])


def from_py(o, w: World):
    if o is None:
        return {"leaf": 0}
    if id(o) in w.by_id:
        return {"leaf": w.by_id[id(o)]}
    if type(o) is list:
        return {"list": [from_py(x, w) for x in o]}
    if type(o) is dict:
        return {"dict": [[key_json(k), from_py(v, w)] for k, v in o.items()]}
    if type(o) is OrderedDict:
        return {"odict": [[key_json(k), from_py(v, w)] for k, v in o.items()]}
    raise TypeError(f"unrepresentable object {type(o)}")


def entry_json(e):
    return [e.type, [key_json(k) for k in getattr(e, "keys", [])]]


def entry_py(kind, keys):
    from torchsnapshot.manifest import DictEntry, ListEntry, OrderedDictEntry
    if kind == "list":
        return ListEntry()
    if kind == "dict":
        return DictEntry(keys=[key_py(k) for k in keys])
    return OrderedDictEntry(keys=[key_py(k) for k in keys])


def flattenable(d):
    """Independent re-statement of 'can be flattened unambiguously'."""
    ks = list(d.keys())
    return all(isinstance(k, (str, int)) for k in ks) and len({str(k) for k in ks}) == len(ks)


def deep_same(a, b, path="$"):
    """None if `a` equals `b` in the sense of the property, else a description of the difference."""
    if type(b) is list:
        if type(a) is not list:
            return f"{path}: expected list, got {type(a).__name__}"
        if len(a) != len(b):
            return f"{path}: list length {len(a)} != {len(b)}"
        for i, (x, y) in enumerate(zip(a, b)):
            r = deep_same(x, y, f"{path}[{i}]")
            if r:
                return r
        return None
    if type(b) in (dict, OrderedDict) and flattenable(b):
        if type(a) is not type(b):
            return f"{path}: expected {type(b).__name__}, got {type(a).__name__}"
        ka, kb = list(a.keys()), list(b.keys())
        if len(ka) != len(kb) or any(type(x) is not type(y) or x != y for x, y in zip(ka, kb)):
            return f"{path}: keys {ka!r:.200} != {kb!r:.200}"
        for k in kb:
            r = deep_same(a[k], b[k], f"{path}[{k!r:.40}]")
            if r:
                return r
        return None
    if a is not b:
        return f"{path}: leaf is not the original object ({type(a).__name__} vs {type(b).__name__})"
    return None


# ------------------------------------------------------------------------------------------
# generators
# ------------------------------------------------------------------------------------------

def _distinct_keys(rng, n, pool):
    d = {}
    out = []
    tries = 0
    while len(out) < n and tries < 50:
        tries += 1
        k = rng.choice(pool)
        if k in d:
            continue
        d[k] = 1
        out.append(k)
    return out


def gen_tree(rng, depth, counter):
    """Random tree JSON; `counter` hands out leaf ids."""
    r = rng.random()
    if depth == 0 or r < 0.25:
        counter[0] += 1
        return {"leaf": rng.choice([0, counter[0], counter[0], counter[0]])}
    if r < 0.45:
        n = rng.choice([0, 1, 2, 3, 3, 5, 11])
        return {"list": [gen_tree(rng, depth - 1, counter) for _ in range(n)]}
    pool = KEYS if rng.random() < 0.85 else KEYS + OTHER_KEYS * 4
    n = rng.choice([0, 1, 2, 2, 3, 4, 6])
    keys = _distinct_keys(rng, n, pool)
    kind = "dict" if rng.random() < 0.5 else "odict"
    return {kind: [[key_json(k), gen_tree(rng, depth - 1, counter)] for k in keys]}


def tree_stats(t, st, depth=0):
    st["depth"] = max(st.get("depth", 0), depth)
    if "leaf" in t:
        st["leaves"] = st.get("leaves", 0) + 1
    elif "list" in t:
        st["lists"] = st.get("lists", 0) + 1
        for x in t["list"]:
            tree_stats(x, st, depth + 1)
    else:
        kind = "dict" if "dict" in t else "odict"
        kvs = t[kind]
        keys = [key_py(k) for k, _ in kvs]
        fl = all(isinstance(k, (str, int)) for k in keys) and len({str(k) for k in keys}) == len(keys)
        if fl:
            st["flat_" + kind] = st.get("flat_" + kind, 0) + 1
            if keys:
                st["keyed"] = st.get("keyed", 0) + 1
            for _, v in kvs:
                tree_stats(v, st, depth + 1)
        else:
            st["opaque_dicts"] = st.get("opaque_dicts", 0) + 1


# ------------------------------------------------------------------------------------------
# running real code
# ------------------------------------------------------------------------------------------

ERRS = (AssertionError, KeyError, ValueError)


def real_inflate_json(manifest_j, flattened_j, prefix_cps):
    """Run the real inflate on JSON-described inputs; returns the canonical reply."""
    from torchsnapshot.flatten import inflate
    w = World()
    m = {from_cps(p): entry_py(kind, keys) for p, kind, keys in manifest_j}
    f = {from_cps(p): to_py(t, w) for p, t in flattened_j}
    try:
        r = inflate(m, f, from_cps(prefix_cps))
    except ERRS as e:
        return {"err": type(e).__name__}
    return {"ok": from_py(r, w)}


def sort_paths(l):
    return sorted(l, key=lambda e: e[0])


def check_tree(ctx: Ctx, suite: str, tree, prefix: str, metadata=True):
    """Correspondence (flatten, inflate o flatten) + oracle for one tree."""
    from torchsnapshot.flatten import flatten, inflate
    pc = cps(prefix)
    inp = {"op": "flatten", "tree": tree, "prefix": pc}
    w = World()
    obj = to_py(tree, w)
    impl = None
    m = f = None
    try:
        m, f = flatten(obj, prefix)
    except Exception as e:  # flatten never raises on these inputs
        ctx.fail("flatten-raises", f"flatten raised {type(e).__name__}", inp, repr(e)[:300], suite=suite)
        impl = {"err": type(e).__name__}
    if m is not None:
        try:
            impl = {"manifest": sort_paths([[cps(k)] + entry_json(e) for k, e in m.items()]),
                    "flattened": sort_paths([[cps(k), from_py(v, w)] for k, v in f.items()])}
        except TypeError as e:   # the leaf map holds something that is not an original leaf / key
            impl = {"err": "unrepresentable:" + str(e)[:80]}
    impl_r = None
    if m is not None:
        try:
            r = inflate(m, f, prefix)
            bad = deep_same(r, obj)
            if bad:
                ctx.fail("inverse-mismatch", "inflate(*flatten(obj, p), p) differs from obj", inp, bad, suite=suite)
            try:
                impl_r = {"ok": from_py(r, w)}
            except TypeError as e:
                impl_r = {"err": "unrepresentable:" + str(e)[:80]}
        except Exception as e:
            ctx.fail("inverse-raises", f"inflate(*flatten(obj, p), p) raised {type(e).__name__}", inp, repr(e)[:300], suite=suite)
            impl_r = {"err": type(e).__name__}
        if metadata and m:
            from torchsnapshot.manifest import SnapshotMetadata
            try:
                md = SnapshotMetadata(version="0", world_size=1, manifest=m)
                m2 = SnapshotMetadata.from_yaml(md.to_yaml()).manifest
                r2 = inflate(m2, f, prefix)
                bad = deep_same(r2, obj)
                if bad:
                    ctx.fail("inverse-after-metadata", "inflate after the manifest went through to_yaml/from_yaml differs from obj",
                             inp, bad, suite=suite)
            except Exception as e:
                ctx.fail("inverse-after-metadata", f"metadata round trip + inflate raised {type(e).__name__}", inp, repr(e)[:300], suite=suite)
    if ctx.driver:
        rep, rep_r = ctx.driver.call_many([inp, dict(inp, op="flatten_inflate")])
        model = {"manifest": sort_paths(rep.get("manifest", [])), "flattened": sort_paths(rep.get("flattened", []))} \
            if "manifest" in rep else rep
        if model != impl:
            ctx.disagree(suite + ":flatten", inp, impl, model)
        if impl_r is not None and rep_r != impl_r:
            ctx.disagree(suite + ":flatten_inflate", inp, impl_r, rep_r)
        if rep_r != {"ok": tree}:
            # the model itself breaks its theorem's statement (only possible if the tree is not well-formed)
            ctx.disagree(suite + ":model-inverse", inp, {"ok": tree}, rep_r, note="model inflate(flatten t) != t")
    st = {}
    tree_stats(tree, st)
    for k, v in st.items():
        if k != "depth":
            ctx.count("tree." + k, v)
    ctx.count(f"tree.depth={st.get('depth', 0)}")
    ctx.case(suite, {"prefix": prefix[:40], "tree": tree}, nontrivial=st.get("keyed", 0) > 0, key=[pc, tree])
    return (m, f, obj, w)


def check_inflate(ctx: Ctx, suite: str, manifest_j, flattened_j, prefix_cps):
    inp = {"op": "inflate", "manifest": manifest_j, "flattened": flattened_j, "prefix": prefix_cps}
    try:
        impl = real_inflate_json(manifest_j, flattened_j, prefix_cps)
    except TypeError as e:
        impl = {"err": "unrepresentable:" + str(e)[:80]}
    except Exception as e:
        impl = {"err": type(e).__name__}
    ctx.count("inflate." + ("ok" if "ok" in impl else impl["err"]))
    if ctx.driver:
        rep = ctx.driver.call(inp)
        if rep.get("err") == "OutOfDomain":
            ctx.count("inflate.model-out-of-domain")
        elif rep != impl:
            ctx.disagree(suite, inp, impl, rep)
    ctx.case(suite, {"manifest": manifest_j[:6], "flattened": flattened_j[:6], "prefix": prefix_cps[:20]},
             nontrivial=len(manifest_j) > 0, key=inp)


# ------------------------------------------------------------------------------------------
# suites
# ------------------------------------------------------------------------------------------

def L(n):
    return {"leaf": n}


def D(kind, keys, vals):
    return {kind: [[key_json(k), v] for k, v in zip(keys, vals)]}


# minimized past failures (D9 replays, fixed by fd32cc5) and shapes that once broke the model
CORPUS = [
    ("0", D("dict", [True], [L(1)])),
    ("0", D("dict", [1, "01"], [L(1), L(2)])),
    ("0", D("dict", ["01", 1], [L(1), L(2)])),
    ("0", D("dict", [1, "+1"], [L(1), L(2)])),
    ("0", D("dict", [0, "-0"], [L(1), L(2)])),
    ("0", D("dict", [SUPER_TWO], [L(1)])),
    ("0", D("odict", [ARABIC_ONE, 1], [L(1), L(2)])),
    ("0", D("dict", [False, "0", True, "1"], [L(1), L(2), L(3), L(4)])),
    ("a/b", D("dict", ["a/b", "%2F", "%", ""], [L(1), {"list": [L(2), D("odict", ["", "/"], [L(3), L(4)])]}, L(5), L(6)])),
    ("", {"list": [L(1), {"list": []}, L(2), D("dict", [], []), L(0), {"list": [L(3)]}] + [L(10 + i) for i in range(9)]}),
    ("p", D("dict", [1, "1"], [L(1), L(2)])),            # colliding str(): opaque leaf
    ("p", D("dict", [(7,), "a"], [L(1), L(2)])),          # tuple key: opaque leaf
    ("p", L(5)),
    ("p", D("dict", ["x"], [D("odict", [1, "1"], [L(1), {"list": [L(2)]}])])),
]


def suite_corpus(ctx: Ctx):
    for prefix, tree in CORPUS:
        check_tree(ctx, "corpus", tree, prefix)


def suite_random_trees(ctx: Ctx):
    n = ctx.n(400, 6000)
    for i in range(n):
        if ctx.time_left() < 25:
            ctx.notes.append(f"random trees stopped early at {i}")
            break
        counter = [0]
        depth = ctx.rng.choice([1, 2, 3, 4, 4])
        tree = gen_tree(ctx.rng, depth, counter)
        if "leaf" in tree and ctx.rng.random() < 0.8:
            tree = {"list": [tree, gen_tree(ctx.rng, depth, counter)]}
        prefix = ctx.rng.choice(PREFIXES)
        check_tree(ctx, "random_trees", tree, prefix, metadata=(i % 2 == 0))


def suite_exhaustive(ctx: Ctx):
    """All ordered key tuples of length <= 2 (quick) / <= 3 (thorough) x dict kinds x nesting patterns."""
    pool = KEYS + OTHER_KEYS[:1]
    maxlen = 2 if ctx.quick else 3
    done = 0
    scopes = [(n, pool) for n in range(1, maxlen + 1)]
    if ctx.quick:
        scopes.append((3, KEYS[:13]))   # the core alphabet of DESIGN.md, all ordered triples
    for n, scope_pool in scopes:
        for keys in itertools.permutations(scope_pool, n):
            if len({k: 0 for k in keys}) < n:
                continue  # equal under Python == : not a dict
            if n == 3 and LONG_KEY in keys:
                continue
            if ctx.time_left() < 15:
                ctx.notes.append(f"exhaustive stopped early after {done} key tuples (len {n})")
                return
            done += 1
            pat = done % 3
            kind = "dict" if (done // 3) % 2 == 0 else "odict"
            other = "odict" if kind == "dict" else "dict"
            leaves = [L(i + 1) for i in range(n)]
            if pat == 0:
                tree = D(kind, keys, leaves)
            elif pat == 1:
                inner = D(other, keys, [L(10 + i) for i in range(n)])
                tree = D(kind, keys, [{"list": [L(20), inner, L(21)]}] + leaves[1:])
            else:
                tree = {"list": [L(30), D(kind, keys, [D(other, list(reversed(keys)), [L(40 + i) for i in range(n)])] + leaves[1:])]}
            check_tree(ctx, "exhaustive_keys", tree, "0" if done % 5 else "a/%", metadata=False)
    ctx.notes.append(f"exhaustive: {done} ordered key tuples up to length {maxlen}")


TOKENS = ["0", "1", "2", "01", "+1", "-0", "10", "a", "b", "%2F", "%2f", "%25", "%", "", "x%41", "xA", "-", "+", "1a",
          "True", "3", ARABIC_ONE, "1_0", " 1", "%C3%A9"]
TOKW = [6, 6, 4, 2, 2, 2, 2, 5, 4, 2, 2, 2, 2, 2, 1, 1, 1, 1, 1, 1, 2, 1, 1, 1, 1]


def suite_inflate_adversarial(ctx: Ctx):
    from torchsnapshot.flatten import flatten
    rng = ctx.rng
    n = ctx.n(500, 8000)
    for i in range(n):
        if ctx.time_left() < 12:
            ctx.notes.append(f"inflate adversarial stopped early at {i}")
            break
        prefix = rng.choice(["0", "p", "a/b", "%", ""])
        enc = prefix.replace("%", "%25").replace("/", "%2F")
        if i % 2 == 0:
            # mutate a genuine flatten output
            counter = [0]
            tree = gen_tree(rng, rng.choice([2, 3]), counter)
            w = World()
            try:
                m, f = flatten(to_py(tree, w), prefix)
                mj = [[cps(k)] + entry_json(e) for k, e in m.items()]
                fj = [[cps(k), from_py(v, w)] for k, v in f.items()]
            except Exception:   # a broken flatten is reported by the tree suites; nothing to mutate here
                ctx.count("inflate.seed-flatten-unusable")
                continue
            for _ in range(rng.choice([0, 1, 1, 2, 3])):
                mut = rng.randrange(9)
                ctx.count(f"inflate.mut{mut}")
                if mut == 0 and mj:
                    del mj[rng.randrange(len(mj))]
                elif mut == 1 and fj:
                    del fj[rng.randrange(len(fj))]
                elif mut == 2 and mj:
                    e = rng.choice(mj)
                    e[1] = rng.choice(["list", "dict", "OrderedDict"])
                elif mut == 3:
                    rng.shuffle(mj)
                    rng.shuffle(fj)
                elif mut == 4 and mj:
                    e = rng.choice(mj)
                    extra = [key_json(k) for k in _distinct_keys(rng, rng.choice([1, 2]), KEYS[:28])]
                    pos = rng.randint(0, len(e[2]))
                    e[2] = e[2][:pos] + extra + e[2][pos:]
                elif mut == 5 and mj:
                    e = rng.choice(mj)
                    if e[2]:
                        del e[2][rng.randrange(len(e[2]))]
                elif mut == 6 and (mj or fj):
                    e = rng.choice(mj + fj)
                    e[0] = e[0] + [47] + cps(rng.choices(TOKENS, TOKW)[0])
                elif mut == 7 and fj:
                    e = rng.choice(fj)
                    mj.append([list(e[0]), rng.choice(["list", "dict"]), []])
                elif mut == 8 and mj:
                    e = rng.choice(mj)
                    fj.append([list(e[0]), L(77)])
            # paths must stay unique within each dict
            mj = list({tuple(e[0]): e for e in mj}.values())
            fj = list({tuple(e[0]): e for e in fj}.values())
            check_inflate(ctx, "inflate_mutated", mj, fj, cps(prefix))
        else:
            # hand-built path sets, grown as a tree so that most parents exist
            root = enc if rng.random() < 0.85 else rng.choice(["q", enc + "x"])
            paths = [root] if rng.random() < 0.9 else []
            for _ in range(rng.randint(1, 9)):
                base = rng.choice(paths) if paths and rng.random() < 0.85 else rng.choice([enc, enc, "q"])
                toks = rng.choices(TOKENS, TOKW, k=rng.choice([1, 1, 1, 2]))
                paths.append("/".join([base] + toks))
            paths = list(dict.fromkeys(paths))
            has_child = {p for p in paths for q in paths if q != p and q.startswith(p + "/") and "/" not in q[len(p) + 1:]}
            if rng.random() < 0.5:
                rng.shuffle(paths)
            mj, fj = [], []
            for p in paths:
                r = rng.random()
                is_cont = r < (0.9 if p in has_child else 0.3)
                if is_cont:
                    kind = rng.choice(["list", "list", "dict", "OrderedDict"])
                    if kind == "list":
                        keys = []
                    else:
                        # keys: mostly those that match the children's tokens, plus strays
                        kids = [q[len(p) + 1:] for q in paths if q.startswith(p + "/") and "/" not in q[len(p) + 1:]]
                        cand = []
                        for t in kids:
                            from urllib.parse import unquote
                            d = unquote(t)
                            cand.append(d)
                            if d.lstrip("+-").isdigit() and d.isascii():
                                cand.append(int(d))
                            if d in ("True", "False"):
                                cand.append(d == "True")
                        cand += rng.choices(KEYS[:28] + [(7,)], k=rng.choice([0, 0, 1, 2]))
                        rng.shuffle(cand)
                        keys = [key_json(k) for k in cand[:rng.choice([len(cand), len(cand), max(0, len(cand) - 1)])]]
                    mj.append([cps(p), kind, keys])
                if not is_cont or rng.random() < 0.08:
                    fj.append([cps(p), L(rng.randint(0, 9)) if rng.random() < 0.85 else D("dict", ["a"], [L(3)])])
            check_inflate(ctx, "inflate_handbuilt", mj, fj, cps(prefix))


def rand_str(rng, maxlen=8):
    return from_cps([rng.choice(CPS) for _ in range(rng.randint(0, maxlen))])


def suite_unit_ops(ctx: Ctx):
    from torchsnapshot.flatten import _check_int, _decode, _encode, _should_flatten_dict
    rng = ctx.rng
    drv = ctx.driver

    # ---- str.isdigit table, all code points ----
    if drv:
        ranges = drv.call({"op": "isdigit_ranges"})["r"]
        table = bytearray(0x110000)
        for a, b in ranges:
            for c in range(a, b + 1):
                table[c] = 1
        bad = [c for c in range(0x110000) if bool(table[c]) != chr(c).isdigit()]
        if bad:
            ctx.disagree("isdigit_table", {"code_points": bad[:20]}, "str.isdigit", "isdigitRanges")
        ctx.case("isdigit_table", {"code_points": 0x110000, "ranges": len(ranges)}, nontrivial=True)

    strs = [str(k) for k in KEYS] + PREFIXES + TOKENS + ["%", "%%", "%2", "%2F%", "%zz", "%7F", "%80", "%ff", "%FF", "%e9", "+", "-", "+-1",
                                                          "--1", "1-", SUPER_TWO + "3", "+" + ARABIC_ONE, "-" + SUPER_TWO, "12345678901234567890",
                                                          "0x10", "1e3", "1.0", "٣٤"]
    for _ in range(ctx.n(600, 6000)):
        strs.append(rand_str(rng, rng.choice([1, 2, 3, 5, 9])))
    # percent-heavy strings for decode
    for _ in range(ctx.n(400, 4000)):
        parts = []
        for _ in range(rng.randint(1, 5)):
            r = rng.random()
            if r < 0.5:
                parts.append("%" + rng.choice("0123456789abcdefABCDEFgG/") + rng.choice("0123456789abcdefABCDEF%z"))
            elif r < 0.8:
                parts.append("%" + rng.choice("234567") + rng.choice("0123456789abcdefABCDEF"))
            else:
                parts.append(rand_str(rng, 3))
        strs.append("".join(parts))

    reqs, meta = [], []
    for s in strs:
        c = cps(s)
        e = _encode(s)
        # oracle: decode . encode = id ; no '/' in the image
        if _decode(e) != s:
            ctx.fail("encode-decode-mismatch", "_decode(_encode(s)) != s", {"op": "encode", "s": c}, cps(_decode(e)))
        if "/" in e:
            ctx.fail("encode-has-slash", "_encode(s) contains '/'", {"op": "encode", "s": c}, cps(e))
        reqs.append({"op": "encode", "s": c}); meta.append(("encode", {"r": cps(e)}))
        reqs.append({"op": "decode", "s": c}); meta.append(("decode", {"r": cps(_decode(s))}))
        reqs.append({"op": "check_int", "s": c}); meta.append(("check_int", {"r": _check_int(s)}))
        try:
            iv = {"r": int(s)}
        except ValueError:
            iv = {"err": "ValueError"}
        reqs.append({"op": "py_int", "s": c}); meta.append(("py_int", iv))
        reqs.append({"op": "split", "s": c}); meta.append(("split", {"r": [cps(x) for x in s.split("/")]}))
        reqs.append({"op": "first_tok", "s": c}); meta.append(("first_tok", {"r": cps(s.split("/")[0])}))
    # join
    for _ in range(ctx.n(200, 2000)):
        l = [rng.choice(strs[:120]) for _ in range(rng.randint(0, 4))]
        reqs.append({"op": "join", "l": [cps(x) for x in l]}); meta.append(("join", {"r": cps("/".join(l))}))
    # str(key)
    ints = [0, 1, -1, 9, 10, 11, 99, 100, 101, -10, 10 ** 18, 2 ** 64, -(2 ** 63), 10 ** 30, 12345678901234567890123]
    ints += [rng.randint(-10 ** 12, 10 ** 12) for _ in range(ctx.n(100, 1000))]
    for k in ints + [True, False, (0,), (10,), (123456,)] + [k for k in KEYS if isinstance(k, str)][:10]:
        reqs.append({"op": "key_str", "key": key_json(k)}); meta.append(("key_str", {"r": cps(str(k))}))
        if isinstance(k, int) and not isinstance(k, bool) and k >= 0:
            reqs.append({"op": "nat_str", "n": k}); meta.append(("nat_str", {"r": cps(str(k))}))
    # _should_flatten_dict
    pool = KEYS + OTHER_KEYS
    for i in range(ctx.n(500, 5000)):
        keys = _distinct_keys(rng, rng.choice([0, 1, 2, 2, 3, 4, 6]), pool if i % 3 else KEYS)
        d = {k: None for k in keys}
        if i % 2:
            d = OrderedDict(d)
        reqs.append({"op": "should_flatten", "keys": [key_json(k) for k in keys]})
        meta.append(("should_flatten", {"r": _should_flatten_dict(d), "distinct": True}))

    if drv:
        reps = drv.call_many(reqs)
    else:
        reps = [None] * len(reqs)
    for req, (suite, impl), rep in zip(reqs, meta, reps):
        ctx.count("unit." + suite)
        if rep is not None:
            if rep.get("err") == "OutOfDomain":
                ctx.count("unit." + suite + ".out-of-domain")
            elif rep != impl:
                ctx.disagree("unit:" + suite, req, impl, rep)
        ctx.case("unit:" + suite, req, nontrivial=True, key=req)


def run(ctx: Ctx):
    suite_corpus(ctx)
    suite_unit_ops(ctx)
    suite_random_trees(ctx)
    suite_inflate_adversarial(ctx)
    suite_exhaustive(ctx)


def replay(ctx: Ctx, rec):
    """Re-run a recorded input on the implementation and the model."""
    from torchsnapshot.flatten import _check_int, _decode, _encode, flatten, inflate
    inp = rec["input"]
    op = inp.get("op")
    if op in ("flatten", "flatten_inflate"):
        prefix = from_cps(inp["prefix"])
        w = World()
        obj = to_py(inp["tree"], w)
        print("object  :", repr(obj)[:600])
        try:
            m, f = flatten(obj, prefix)
            print("manifest:", {k: entry_json(e) for k, e in m.items()})
            print("leaf map:", {k: repr(v)[:60] for k, v in f.items()})
            r = inflate(m, f, prefix)
            print("inflated:", repr(r)[:600])
            bad = deep_same(r, obj)
            print("oracle  :", bad or "equal")
            if bad:
                ctx.fail(rec.get("signature", "inverse-mismatch"), "replayed", inp, bad)
            if rec.get("signature") == "inverse-after-metadata":
                from torchsnapshot.manifest import SnapshotMetadata
                m2 = SnapshotMetadata.from_yaml(SnapshotMetadata(version="0", world_size=1, manifest=m).to_yaml()).manifest
                bad = deep_same(inflate(m2, f, prefix), obj)
                print("oracle (after metadata):", bad or "equal")
                if bad:
                    ctx.fail("inverse-after-metadata", "replayed", inp, bad)
        except Exception as e:
            print("raised  :", repr(e)[:300])
            ctx.fail(rec.get("signature", "inverse-raises"), "replayed", inp, repr(e)[:300])
        if ctx.driver:
            print("model   :", ctx.driver.call(dict(inp, op="flatten")))
            print("model inflate(flatten):", ctx.driver.call(dict(inp, op="flatten_inflate")))
    elif op == "inflate":
        print("impl :", real_inflate_json(inp["manifest"], inp["flattened"], inp["prefix"]))
        if ctx.driver:
            print("model:", ctx.driver.call(inp))
    elif op in ("encode", "decode", "check_int"):
        s = from_cps(inp["s"])
        e = _encode(s)
        print("s =", repr(s), " _encode =", repr(e), " _decode(_encode) =", repr(_decode(e)), " _check_int =", _check_int(s))
        if ctx.driver:
            print("model:", ctx.driver.call(inp))
        if _decode(e) != s:
            ctx.fail("encode-decode-mismatch", "replayed", inp, cps(_decode(e)))
        if "/" in e:
            ctx.fail("encode-has-slash", "replayed", inp, cps(e))
    else:
        print("input:", inp)
        if ctx.driver and op:
            print("model:", ctx.driver.call(inp))


LEVEL_TEXT = ("Lean 4 theorems, unbounded in nesting depth, container sizes, key sets, key orders and string contents: _decode "
              "inverts _encode, _encode is injective and never yields '/', split inverts join on '/'-free components, int() inverts "
              "str() on list indices, flatten emits pairwise distinct paths, and inflate(*flatten(t, p), p) = t for every "
              "prefix and every tree whose dicts have distinct keys (same container kinds, keys with their types, key order, "
              "leaves; unflattenable dicts come back whole). The model is tied to the real flatten.py on every run.")
LEVEL_NOTE = ("Trusted: Lean kernel (+propext, Classical.choice, Quot.sound), the hand model lean/TsModel/{Path,Flatten}.lean, the "
              "harness; CPython's unquote/int/str/isdigit are modelled on stated sub-domains and sampled; the JSON round trip of "
              "the manifest is property C14 (here only evaluated on the real code by the oracle).")
TECHNIQUE = "Lean 4 proof by structural induction over an executable model + differential correspondence with real flatten/inflate"
