"""One rank of a real multi-process gloo job for C12 (thorough tier).

usage: c12_gloo_worker.py <cfg.json> <rank> <W> <initfile> <snapdir> <out.json>
Runs the real Snapshot.take / async_take + restore on a real process group; logs the PGWrapper
collective calls of this rank; writes {"take": [...], "restore": [...], "ok": bool, "problems": [...]}.
Only plain keys (letters) are used: the real filesystem plugin is safe for them.
"""
import json
import os
import sys


def main():
    cfg_path, rank, W, initfile, snapdir, out_path = sys.argv[1], int(sys.argv[2]), int(sys.argv[3]), sys.argv[4], sys.argv[5], sys.argv[6]
    repo = os.environ.get("VERIF_REPO", "/repo")
    sys.path.insert(0, repo)
    import warnings
    warnings.filterwarnings("ignore")
    import torch
    import torch.distributed as dist
    cfg = json.load(open(cfg_path))
    rd = cfg["ranks"][rank]
    env = "TORCHSNAPSHOT_PER_RANK_MEMORY_BUDGET_BYTES"
    if cfg["override"] == "set":
        os.environ[env] = str(10 ** 9)
    elif cfg["override"] == "garbage":
        os.environ[env] = "12MB"
    else:
        os.environ.pop(env, None)
    if cfg["nobatch"]:
        os.environ["TORCHSNAPSHOT_DISABLE_BATCHING"] = "1"
    dist.init_process_group("gloo", init_method=f"file://{initfile}", rank=rank, world_size=W)
    import torchsnapshot.pg_wrapper as pgw
    from torchsnapshot import RNGState, Snapshot, StateDict
    log = []
    for name in ("barrier", "broadcast_object_list", "all_gather_object", "scatter_object_list"):
        orig = getattr(pgw.PGWrapper, name)

        def wrap(orig=orig, name=name):
            def f(self, *a, **kw):
                log.append(name)
                return orig(self, *a, **kw)
            return f
        setattr(pgw.PGWrapper, name, wrap())

    def val(key, r):
        return torch.arange(5, dtype=torch.float32) + sum(map(ord, key)) + 100 * r

    problems = []
    app = {k: StateDict(t=val(k, rank), n=rank) for k in rd["keys"]}
    for k in rd["rng"]:
        app[k] = RNGState()
    path = os.path.join(snapdir, "snap")
    if cfg["async"]:
        snap = Snapshot.async_take(path, app).wait()
    else:
        snap = Snapshot.take(path, app)
    take_log, log[:] = list(log), []
    man = sorted(snap.get_manifest().keys())
    have = {p.split("/")[1] for p in man if p.split("/")[0] == str(rank)}
    if have != set(rd["keys"] + rd["rng"]):
        problems.append(f"manifest lists {sorted(have)} under rank {rank}")
    app2 = {k: StateDict(t=torch.zeros(5), n=-1) for k in rd["restore"]}
    if rd["restore_rng"]:
        for k in rd["rng"]:
            app2[k] = RNGState()
    snap.restore(app2)
    restore_log = list(log)
    for k in rd["restore"]:
        if not torch.equal(app2[k]["t"], val(k, rank)) or app2[k]["n"] != rank:
            problems.append(f"key {k}: restored {app2[k]['t'].tolist()} n={app2[k]['n']}")
    dist.barrier()
    dist.destroy_process_group()
    json.dump({"take": take_log, "restore": restore_log, "ok": not problems, "problems": problems}, open(out_path, "w"))


if __name__ == "__main__":
    main()
