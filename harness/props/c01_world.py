"""C01 / C06 / C07 — whole-job model tie: W simulated ranks take one snapshot with replicated and private leaves; the
Lean job model (`TsModel/World.lean`, op `world_plan`) is given every rank's payload leaves, the replicated paths and
the partition the real partitioner chose, and must reproduce: which rank stores what (objects and bytes, slab
grouping included), every (rank, path) manifest entry (writer of every unit, byte ranges, chunk tables) and the
restored leaves.  The real restore on every rank is the oracle."""
from __future__ import annotations

import os
from typing import Any, Dict, List, Optional, Tuple

from common import Ctx

ROOT = "/snap/c01w"
BP = {"float64", "float32", "float16", "bfloat16", "int64", "int32", "int16", "int8", "uint8", "bool"}
DEFAULT_CHUNK = 512 * 1024 * 1024
DEFAULT_SLAB = 128 * 1024 * 1024


def gen_world_case(rng) -> Dict[str, Any]:
    """states[r] = [[app_key, key, leaf_desc], ...].  The app key "s" holds the replicated leaves (r*), private ones
    (p*), keys one rank alone has (q<r>) and "rx" (matches the glob, not on every rank unless made so); optional
    SIBLING app keys whose names merely start with "s" ("s_ema", "ss", "s2") hold rank-specific values under the SAME
    key names on every rank - they must stay private whatever the glob on "s" looks like."""
    import gen
    import sim
    W = rng.choice([2, 2, 3])

    def leaf():
        if rng.random() < 0.85:
            d = gen.rand_tensor_desc(rng, rng.choice([6, 20, 40]))
            if d["dtype"].startswith("complex"):
                d["dtype"] = "int16"
                d["data"] = (d["data"] + [0] * 2 * gen.numel(d["shape"]))[: 2 * gen.numel(d["shape"])]
            return d
        return {"t": "obj", "kind": rng.choice(["set", "tuple", "none", "counter"])}

    glob = rng.choice([["s/r*"], ["s/r*"], ["s/r*", "s/zz"], [], ["s/**"], ["s/**"], ["s/*"], ["s/r*", "s_ema/zz*"]])
    subtree = glob in (["s/**"], ["s/*"])          # everything under "s" that is on every rank is replicated
    n_rep = rng.randint(0, 3)
    rep = [["s", "r%d" % i, leaf()] for i in range(n_rep)]
    states = []
    for r in range(W):
        priv = [] if subtree else [["s", "p%d" % i, leaf()] for i in range(rng.randint(0, 3))]
        if rng.random() < 0.3:
            priv.append(["s", "q%d" % r, leaf()])           # a key this rank alone has
        if rng.random() < 0.25 and not subtree:
            priv.append(["s", "rx", leaf()])                # matches the glob but is not on every rank: stays private
        items = rep + priv
        rng.shuffle(items)
        states.append(items)
    if not subtree:
        if rng.random() < 0.2:
            v = leaf()                                       # "rx" on every rank: replicated, one shared value
            for st in states:
                st[:] = [it for it in st if it[1] != "rx"] + [["s", "rx", v]]
        else:
            k = rng.randrange(W)
            states[k][:] = [it for it in states[k] if it[1] != "rx"]
    if rng.random() < 0.5:
        sib = rng.choice(["s_ema", "ss", "s2", "s%x"])
        names = rng.sample(["w", "r0", "b", "r1"], rng.randint(1, 2))
        for r in range(W):
            for nm in names:
                d = leaf()
                if d.get("t") == "tensor" and d["data"]:
                    d["data"][0] = (d["data"][0] & 0xF0) | (r + 1) if d["dtype"] != "bool" else d["data"][0]
                states[r].append([sib, nm, d])
    kn = sim.rand_knobs(rng)
    return {"world": W, "states": states, "glob": glob,
            "knobs": kn, "restore_knobs": sim.rand_knobs(rng), "reverse": rng.random() < 0.5,
            "budget": rng.choice([1, 3, 8, 64, 10 ** 6])}


def _norm_states(case):
    """accept the older 2-field form [key, desc] (app key "s")"""
    return [[(it if len(it) == 3 else ["s", it[0], it[1]]) for it in st] for st in case["states"]]


def world_tie_case(ctx: Ctx, case: Dict[str, Any], suite: str):
    import gen
    import sim
    import torch
    from torchsnapshot import Snapshot
    from torchsnapshot.manifest import ChunkedTensorEntry, ObjectEntry, PrimitiveEntry, TensorEntry

    W = case["world"]
    world = sim.World(W)
    kn = case["knobs"]
    saved: List[Dict[str, Any]] = [None] * W   # type: ignore

    states = _norm_states(case)
    from flat_enc import enc as _enc  # noqa  (logical path component of an app key)

    def trees_of(r):
        out: Dict[str, Dict[str, Any]] = {}
        for a, k, d in states[r]:
            out.setdefault(a, {})[k] = gen.build_leaf(d)
        return out

    def body(r, pg):
        trees = trees_of(r)
        saved[r] = gen.deep_clone(trees)
        Snapshot.take(ROOT, {a: gen.RecStateful(t) for a, t in trees.items()}, pg=pg, replicated=case["glob"] or None)
        return True
    with sim.knobs(**kn):
        res = world.run(body)
    if any(x[0] != "ok" for x in res):
        kinds = sorted({type(x[1]).__name__ + ": " + str(x[1])[:160] for x in res if x[0] != "ok"})
        ctx.fail("take-raised", "Snapshot.take raised on a legal job", case, kinds, suite=suite)
        return
    manifest = world.run1(lambda: Snapshot(ROOT).get_manifest())
    files = world.storage.snapshot_files()
    writer_of: Dict[str, List[int]] = {}
    for e in world.storage.writes():
        if not e["raw"].endswith(".snapshot_metadata"):
            writer_of.setdefault(e["raw"], []).append(e["rank"])
    for raw, ws in writer_of.items():
        if len(ws) != 1:
            ctx.fail("location-written-more-than-once", f"{raw} written by ranks {ws}", case, {"raw": raw, "ranks": ws}, suite=suite)

    # path ids: position in the sorted list of all logical paths of the job
    def lp(a, k):
        return _enc(a) + "/" + k
    all_paths = sorted({lp(a, k) for st in states for a, k, _ in st})
    pid = {p: i for i, p in enumerate(all_paths)}
    rep_paths = sorted(p for p in all_paths if ("0/" + p) in manifest and getattr(manifest["0/" + p], "replicated", False))

    # the replication decision itself: globs + every rank's paths -> replicated set (TsModel/Glob.lean replicatedPaths)
    if ctx.driver and case["glob"]:
        cps = lambda t: [ord(c) for c in t]
        ranks_in = [[{"path": cps(lp(a, k)), "sharded": False} for a, k, _ in st] for st in states]
        rep_m = ctx.driver.call({"op": "rep_decide", "globs": [cps(g) for g in case["glob"]], "ranks": ranks_in})
        if "replicated" in rep_m:
            model_rep = sorted("".join(map(chr, p)) for p in rep_m["replicated"])
            # paths holding primitives have no replicated flag to compare; restrict both sides to payload paths
            payload = {p for p in all_paths if any(isinstance(manifest.get(f"{r}/{p}"), (TensorEntry, ChunkedTensorEntry, ObjectEntry)) for r in range(W))}
            if sorted(p for p in model_rep if p in payload) != rep_paths:
                ctx.disagree("rep_decide", {"case": case}, rep_paths, model_rep, "replicated paths chosen by the real take differ from the glob model")
            ctx.count("world_tie.rep_decide")

    def entry_for(r: int, p: str):
        return manifest.get(("0/" if p in rep_paths else f"{r}/") + p)

    slabs: Dict[Tuple[int, str], int] = {}
    real_objs: Dict[str, Optional[bytes]] = {}
    owners: List[Dict[str, Any]] = []

    def at(loc: str, rng_, p: str, piece, is_rep: bool):
        ws = writer_of.get(loc)
        q = ws[0] if ws else -1
        if loc.startswith("batched/"):
            key = {"slab": slabs.setdefault((q, loc), len(slabs))}
        else:
            key = {"leaf": pid[p], "piece": piece}
        real_objs[repr((q, key))] = files.get(os.path.normpath(os.path.join(ROOT, loc)))
        if is_rep:
            o = {"p": pid[p], "piece": piece, "rank": q}
            if o not in owners:
                owners.append(o)
        return {"writer": q, "loc": key, "range": list(rng_) if rng_ is not None else None}

    def canon_entry(e, p: str, is_rep: bool):
        if isinstance(e, ChunkedTensorEntry):
            return {"k": "chunked", "dtype": e.dtype, "shape": list(e.shape),
                    "chunks": [{"off": ch.offsets[0], "size": ch.sizes[0],
                                "at": at(ch.tensor.location, ch.tensor.byte_range, p, [ch.offsets[0], ch.sizes[0]], is_rep)} for ch in e.chunks]}
        if isinstance(e, TensorEntry):
            if e.serializer == "buffer_protocol":
                return {"k": "tensor", "dtype": e.dtype, "shape": list(e.shape), "at": at(e.location, e.byte_range, p, None, is_rep)}
            return {"k": "blob", "at": at(e.location, e.byte_range, p, None, is_rep)}
        if isinstance(e, ObjectEntry):
            return {"k": "blob", "at": at(e.location, None, p, None, is_rep)}
        return None

    # real entries per (rank, path), walked rank-major in state order (the model output is walked the same way)
    real_entries: List[List[Dict[str, Any]]] = []
    model_states: List[List[Dict[str, Any]]] = []
    skip_model = False
    for r in range(W):
        ents, mst = [], []
        # flatten order of the rank: app keys in sorted order (Snapshot._gather_keys), items in dict order
        order_r = [it for a in sorted({x[0] for x in states[r]}) for it in states[r] if it[0] == a]
        for a, k, d in order_r:
            p = lp(a, k)
            e = entry_for(r, p)
            if e is None:
                ctx.fail("entry-missing", f"rank {r}: no manifest entry for {p}", case, {"rank": r, "path": p}, suite=suite)
                return
            if isinstance(e, PrimitiveEntry):
                continue
            ce = canon_entry(e, p, p in rep_paths)
            v = saved[r][a][k]
            if ce is None:
                # the manifest records something that is not a payload entry for a payload leaf (e.g. a container entry for
                # an opaque object): outside the model; the restore oracle below decides whether the property is broken
                ctx.disagree("world_plan.entry_kind", {"case": case}, {"rank": r, "path": p, "entry": type(e).__name__},
                             {"leaf": type(v).__name__}, "manifest entry kind unknown to the job model")
                skip_model = True
                continue
            if isinstance(v, torch.Tensor) and gen.DT_NAME.get(v.dtype) in BP:
                leaf = {"k": "tensor", "dtype": gen.DT_NAME[v.dtype], "shape": list(v.shape), "bytes": list(gen.tensor_bytes(v))}
            else:
                if ce["k"] != "blob":
                    ctx.notes.append("chunked torch_save tensor in the world tie stream (outside the model): case skipped")
                    return
                a = ce["at"]
                data = real_objs.get(repr((a["writer"], a["loc"])))
                if data is None:
                    ctx.fail("missing-location", f"rank {r}: {p} names a location nobody wrote", case, {"rank": r, "path": p}, suite=suite)
                    return
                if a["range"] is not None:
                    data = data[a["range"][0]:a["range"][1]]
                leaf = {"k": "blob", "bytes": list(data)}
            ents.append({"p": pid[p], "entry": ce})
            mst.append({"p": pid[p], "leaf": leaf})
        real_entries.append(ents)
        model_states.append(mst)

    n_units = sum(len(x) for x in real_entries)
    if ctx.driver and n_units and not skip_model:
        req = {"op": "world_plan", "cfg": {"chunk": kn.get("chunk") or DEFAULT_CHUNK, "slab": kn.get("slab") or DEFAULT_SLAB,
                                            "batching": not kn.get("nobatch")},
               "states": model_states, "rep": [pid[p] for p in rep_paths], "owner": owners,
               "reverse": bool(case.get("reverse")), "budget": case.get("budget", 8)}
        rep = ctx.driver.call(req)
        if "entries" not in rep:
            ctx.disagree("world_plan", {"case": case}, "real take succeeded", rep, "model rejected a job the code accepts")
        else:
            mslabs: Dict[Tuple[int, int], int] = {}

            def fix(a):
                loc = a["loc"]
                if "slab" in loc:
                    loc = {"slab": mslabs.setdefault((a["writer"], loc["slab"]), len(mslabs))}
                return {"writer": a["writer"], "loc": loc, "range": a["range"]}
            for r in range(W):
                ments = []
                for it in rep["entries"][r]:
                    if "error" in it:
                        ments.append({"p": it["p"], "error": it["error"]})
                        continue
                    e = dict(it["entry"])
                    if e["k"] == "chunked":
                        e["chunks"] = [dict(c, at=fix(c["at"])) for c in e["chunks"]]
                        e["dtype"] = "torch." + e["dtype"]
                    else:
                        e["at"] = fix(e["at"])
                        if e["k"] == "tensor":
                            e["dtype"] = "torch." + e["dtype"]
                    ments.append({"p": it["p"], "entry": e})
                    want_leaf = next(x["leaf"] for x in model_states[r] if x["p"] == it["p"])
                    if it.get("restored") != want_leaf:
                        ctx.disagree("world_plan.restored", {"case": case}, "saved leaf", {"rank": r, "p": it["p"], "got": str(it.get("restored"))[:200]},
                                     "model restore differs from the saved leaf")
                    if it.get("tiled") != want_leaf:
                        ctx.disagree("world_plan.tiled", {"case": case}, "saved leaf", {"rank": r, "p": it["p"], "got": str(it.get("tiled"))[:200]},
                                     "model read_object under a budget differs from the saved leaf")
                if ments != real_entries[r]:
                    bad = [i for i in range(max(len(ments), len(real_entries[r])))
                           if i >= len(ments) or i >= len(real_entries[r]) or ments[i] != real_entries[r][i]][:2]
                    ctx.disagree("world_plan.entries", {"case": case},
                                 {"rank": r, "entries": [real_entries[r][i] if i < len(real_entries[r]) else None for i in bad]},
                                 {"rank": r, "entries": [ments[i] if i < len(ments) else None for i in bad]}, "manifest entries differ")
                    break
            else:
                mobjs: Dict[str, Optional[bytes]] = {}
                for q, rk in enumerate(rep["ranks"]):
                    for o in rk.get("objects", []):
                        loc = o["loc"]
                        if "slab" in loc:
                            if (q, loc["slab"]) not in mslabs:
                                continue
                            loc = {"slab": mslabs[(q, loc["slab"])]}
                        mobjs[repr((q, loc))] = bytes(o["bytes"]) if o["bytes"] is not None else None
                if mobjs != real_objs:
                    bad = [kk for kk in set(mobjs) | set(real_objs) if mobjs.get(kk) != real_objs.get(kk)][:2]
                    ctx.disagree("world_plan.objects", {"case": case}, {kk: list(real_objs.get(kk) or b"")[:40] for kk in bad},
                                 {kk: list(mobjs.get(kk) or b"")[:40] for kk in bad}, "stored objects / bytes differ")
                # what every rank wrote: number of payload units kept, from the real write log (slab = 1 write)
                for q, rk in enumerate(rep["ranks"]):
                    n_model = len({repr(k2) for k2 in
                                   [(o["loc"]) for o in rk.get("objects", [])]})
                    n_real = len([raw for raw, ws in writer_of.items() if ws == [q]])
                    if n_model != n_real:
                        ctx.disagree("world_plan.writes_per_rank", {"case": case}, {"rank": q, "writes": n_real},
                                     {"rank": q, "writes": n_model}, "number of storage objects written by the rank differs")

    # oracle: real restore on every rank, independent knobs
    def rbody(r, pg):
        dst = {a: gen.RecStateful({k: None for k in t}) for a, t in saved[r].items()}
        Snapshot(ROOT, pg=pg).restore(dst)
        return gen.deep_eq(saved[r], {a: x.loaded for a, x in dst.items()})
    with sim.knobs(**case["restore_knobs"]):
        res2 = world.run(rbody)
    for r, x in enumerate(res2):
        if x[0] != "ok":
            ctx.fail("restore-raised", f"rank {r}: restore raised {type(x[1]).__name__}: {str(x[1])[:200]}", case, {"rank": r}, suite=suite)
        elif x[1] is not None:
            ctx.fail("restored-state-differs", "restored state differs from the saved one", case, {"rank": r, "diff": x[1]}, suite=suite)
    ctx.count("world_tie.W%d" % W)
    ctx.count("world_tie.replicated_paths", len(rep_paths))
    ctx.count("world_tie.rep_units_by_nonzero_rank", sum(1 for o in owners if o["rank"] != 0))
    if any(len({o["rank"] for o in owners if o["p"] == pp}) > 1 for pp in {o["p"] for o in owners}):
        ctx.count("world_tie.chunks_split_across_ranks")
    if slabs:
        ctx.count("world_tie.slabbed")
    if any(a != "s" for st in states for a, _, _ in st):
        ctx.count("world_tie.sibling_app_key")
    ctx.count("world_tie.glob." + ("none" if not case["glob"] else case["glob"][0]))
    ctx.case(suite, {"world": W, "glob": case["glob"], "knobs": kn, "replicated": len(rep_paths), "units": n_units,
                     "states": gen.short(case["states"])}, nontrivial=n_units > 0, key=case)
