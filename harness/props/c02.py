"""C02 — Metadata is committed last: a crash leaves no snapshot or a complete one."""
from __future__ import annotations

import random

import commitlib as cl
import detsim
from common import Ctx

PROP = "C02"
LEAN_MODULE = "TsProofs.Properties.C02World"   # imports TsProofs.Properties.C02
THEOREMS = [
    "Ts.Commit.C02_crash_atomic_json",
    "Ts.Commit.C02_commit_last",
    "Ts.Commit.C02_crash_atomic",
    "Ts.Commit.C02_return_implies_committed",
    # commit protocol x job data plane (TsModel/CrashWorld.lean): readable after a crash => every rank restores exactly
    "Ts.World.C02_world_crash_restore",
    "Ts.World.C02_world_crash_unreadable_or_complete",
    "Ts.World.storeAtCut_complete",
    "Ts.World.C01_world_roundtrip",
]
BUDGET_S = (150, 900)
RULE = ("The real Snapshot.take and Snapshot.async_take(+wait) run for W in {1,2,3} ranks (1-3 payload writes per rank, batching "
        "on/off) under the deterministic scheduler of harness/detsim.py with seeded and adversarial rank-priority schedules "
        "(thorough: budgeted schedule DFS for W=2). Correspondence: the linearised history (payload/metadata write begin/end, "
        "sync_complete return, barrier entry/exit resp. store operations, return of take / wait) is replayed in the Lean model: "
        "every event must be the model's step, final outcomes agree, no model step left enabled. Oracle on the real history: "
        "the .snapshot_metadata write begins after every payload write of every rank has returned; take/wait() return only "
        "after the metadata write returned; a fresh Snapshot(path).metadata on each rank right after its return succeeds; and "
        "for sampled crash instants (always including just before/after the metadata write begins and the end) the cut store "
        "is materialised (in-flight objects absent / torn at a random byte / complete) and the real Snapshot(path).metadata + "
        "restore on W ranks must either raise at open or restore every rank bit-exactly. Non-trivial: W >= 2 or >= 2 writes.")
TRUSTED = ["harness/detsim.py (deterministic scheduler, gated storage/process group/store); harness/sim.py for the restore of cut stores",
           "OS durability: a write that returned is durable and complete; an in-flight write leaves absent / a prefix / complete"]
ASSUMPTIONS = ["the snapshot path is fresh (the API's precondition); an earlier committed snapshot at the path is deleted first",
               "the metadata reader rejects every strict prefix of the serialized text (C14's theorem; hypothesis hTorn of "
               "C02_crash_atomic) — sampled here by tearing the real metadata at random byte offsets",
               "async half: barrier ids of different attempts are distinct (C13)"]
LEVEL_TEXT = ("Lean 4 theorems for every world size, workload, schedule and crash instant (cut = any prefix of the linearised history), "
              "for Snapshot.take and for async_take: the metadata write begins only after every payload write of every rank returned; "
              "at every cut the metadata is unreadable, or it is exactly the serialized text and every payload object is complete "
              "(in-flight writes resolved adversarially: absent, partial, complete; torn metadata = strict prefix, rejected by the "
              "reader by hypothesis = C14); returning from take / wait() implies the metadata write returned. Tied to the real code "
              "by replaying deterministic-scheduler histories in the Lean driver; the oracle materialises crash cuts and runs the "
              "real open + restore on them."
              ' Joined with the job data-plane model (C02_world_crash_restore): at every crash cut, if the snapshot can be opened then every rank restores every leaf of its saved state exactly from what is in storage.')
LEVEL_NOTE = ("Trusted: Lean kernel (+propext, Classical.choice, Quot.sound), lean/TsModel/{Barrier,Commit}.lean, harness/detsim.py. "
              "OS durability/rename semantics are assumed, not exhibited. 'restore equals the saved state' is checked by the oracle on "
              "the real code (the end-to-end data path is C01's subject), the theorem states completeness of every payload object.")
TECHNIQUE = "Lean 4 invariant proof over an executable transition system + trace-acceptance correspondence + crash-cut oracle on the real restore"

CORPUS = [
    # D6: rank 1 eager, leader lazy — without the second barrier rank 1 returns before the commit
    {"W": 2, "rounds": [{"mode": "sync", "path": "/snap/A", "spec": {"tensors": [[2], [2]], "seed": 1, "nobatch": True}, "faults": [],
                         "chooser": {"kind": "prio", "order": [1, 0]}}]},
    {"W": 3, "rounds": [{"mode": "sync", "path": "/snap/A", "spec": {"tensors": [[2, 1], [2], [1, 1, 1]], "seed": 2, "nobatch": True},
                         "faults": [], "chooser": {"kind": "prio", "order": [0, 1, 2]}}]},
    {"W": 2, "rounds": [{"mode": "async", "path": "/snap/A", "spec": {"tensors": [[2], [2, 2]], "seed": 3, "nobatch": True}, "faults": [],
                         "chooser": {"kind": "prio", "order": [0, 1]}}]},
    # D7: a second async snapshot of the same job to the same path (the first one deleted), leader eager
    {"W": 2, "rounds": [{"mode": "async", "path": "/snap/A", "spec": {"tensors": [[2], [2]], "seed": 3, "nobatch": True}, "faults": [],
                         "chooser": {"kind": "seed", "seed": 5}},
                        {"mode": "async", "path": "/snap/A", "spec": {"tensors": [[1], [2, 1]], "seed": 4, "nobatch": True}, "faults": [],
                         "chooser": {"kind": "prio", "order": [0, 1]}}]},
    # a payload write fails while the rank is still staging under a tight budget (3 unbatched writes, budget 24, I/O
    # concurrency 2): sync and async; nothing readable-but-incomplete may be left (minimised from seed C02-A)
    {"W": 2, "rounds": [{"mode": "sync", "path": "/snap/A", "spec": {"budget": 24, "conc": 2, "nobatch": True, "seed": 294, "tensors": [[1, 8, 5], [2]]},
                         "faults": [[0, 1]], "chooser": {"kind": "seed", "seed": 67722}}]},
    {"W": 2, "rounds": [{"mode": "async", "path": "/snap/A", "spec": {"budget": 24, "conc": 2, "nobatch": True, "seed": 294, "tensors": [[1, 8, 5], [2]]},
                         "faults": [[0, 1]], "chooser": {"kind": "seed", "seed": 67722}}]},
]


def rand_chooser(rng: random.Random, W: int):
    if rng.random() < 0.6:
        return {"kind": "seed", "seed": rng.randrange(10 ** 6)}
    order = list(range(W))
    rng.shuffle(order)
    return {"kind": "prio", "order": order}


def _account(ctx: Ctx, case, summ, suite):
    rd, rs = case["rounds"][-1], summ["rounds"][-1]
    ctx.count(f"{rd['mode']}.W={case['W']}")
    ctx.count("writes_per_rank", sum(len(t) for t in rd["spec"]["tensors"]))
    ctx.count("schedule." + rd["chooser"]["kind"])
    ctx.count("outcome." + "/".join(sorted(set(rs["outcomes"]))))
    ctx.count("cuts", len(rs.get("cuts", [])))
    nt = case["W"] >= 2 or len(rd["spec"]["tensors"][0]) >= 2
    ctx.case(suite, {"W": case["W"], "mode": rd["mode"], "tensors": rd["spec"]["tensors"], "nobatch": rd["spec"].get("nobatch"),
                     "chooser": rd["chooser"], "outcomes": rs["outcomes"], "steps": rs["steps"],
                     "cuts": [(c, o) for c, o in rs.get("cuts", [])][:6]},
             nontrivial=nt, key=[len(case["rounds"]), rd["mode"], rd["spec"], [c[0] for c in rs["choices"]]])


def run(ctx: Ctx):
    import fsize
    for _ in range(ctx.n(1, 8)):
        fsize.take_case(ctx, fsize.rand_take_cfg(ctx.rng))
    for _ in range(ctx.n(2, 10)):
        fsize.take_case(ctx, fsize.rand_fault_cfg(ctx.rng), "real_plugin_fault")
    # tie of the job data-plane model used by C02_world_crash_restore (shared with C01): in particular the number of
    # storage objects each rank writes (= the protocol model's nw r) and their bytes
    from props import c01_world
    for i in range(ctx.n(25, 300)):
        c01_world.world_tie_case(ctx, c01_world.gen_world_case(ctx.rng), "world_tie")
    detsim.install()
    cut_rng = random.Random(f"C02cuts:{ctx.seed}")
    for case in CORPUS:
        _account(ctx, case, cl.run_case(ctx, case, "corpus", cuts=4, cut_rng=cut_rng), "corpus")
    n = ctx.n(70, 500)
    for i in range(n):
        if ctx.time_left() < 25:
            ctx.notes.append(f"random suite stopped early at {i}")
            break
        W = ctx.rng.choice([1, 2, 2, 3, 3])
        mode = ctx.rng.choice(["sync", "async"])
        spec = cl.rand_workload(ctx.rng, W)
        faults = []
        if ctx.rng.random() < 0.25:
            # a failing payload write: whatever is visible afterwards must be nothing or a complete snapshot
            r = ctx.rng.randrange(W)
            faults = [[r, ctx.rng.randrange(len(spec["tensors"][r])) if spec.get("nobatch", True) else 0]]
        case = {"W": W, "rounds": [{"mode": mode, "path": "/snap/A", "spec": spec, "faults": faults, "chooser": rand_chooser(ctx.rng, W)}]}
        suite = f"{mode}_cuts"
        _account(ctx, case, cl.run_case(ctx, case, suite, cuts=ctx.n(5, 10), cut_rng=cut_rng), suite)
    # successive snapshots of one job (the store persists): same or different path, after success (deleted) or failure
    for i in range(ctx.n(15, 100)):
        if ctx.time_left() < 20:
            ctx.notes.append(f"history suite stopped early at {i}")
            break
        W = ctx.rng.choice([2, 2, 3])
        rounds = []
        for j in range(2):
            spec = cl.rand_workload(ctx.rng, W)
            mode = "async" if j == 1 else ctx.rng.choice(["async", "async", "sync"])
            faults = [[ctx.rng.randrange(W), 0]] if (j == 0 and ctx.rng.random() < 0.3) else []
            rounds.append({"mode": mode, "path": ctx.rng.choice(["/snap/A", "/snap/A", "/snap/B"]), "spec": spec,
                           "faults": faults, "chooser": rand_chooser(ctx.rng, W)})
        case = {"W": W, "rounds": rounds}
        _account(ctx, case, cl.run_case(ctx, case, "history_cuts", cuts=ctx.n(4, 8), cut_rng=cut_rng), "history_cuts")
    if not ctx.quick:
        _thorough(ctx, cut_rng)


def _thorough(ctx: Ctx, cut_rng):
    """Schedule DFS (budgeted) for W=2 with <= 3 payload writes per rank; every storage cut of some runs."""
    for mode in ("sync", "async"):
        spec = {"tensors": [[2, 1], [1]], "seed": 7, "nobatch": True}

        def run_prefix(prefix, mode=mode):
            case = {"W": 2, "rounds": [{"mode": mode, "path": "/snap/A", "spec": spec, "faults": [],
                                        "chooser": {"kind": "prefix", "prefix": prefix}, "boring_first": True, "fresh_read": False}]}
            summ = cl.run_case(ctx, case, f"{mode}_dfs", cuts=2, cut_rng=cut_rng)
            _account(ctx, case, summ, f"{mode}_dfs")
            return summ["rounds"][0]["result"]

        st = detsim.dfs(run_prefix, 200, rng=random.Random(ctx.seed))
        ctx.notes.append(f"dfs {mode} W=2: {st}")
        if ctx.time_left() < 120:
            return
    # every cut + every torn offset of the metadata for one small run per mode
    from torchsnapshot import Snapshot  # noqa
    for mode in ("sync", "async"):
        spec = {"tensors": [[1], [1]], "seed": 9, "nobatch": True}
        job = detsim.Job(2)
        res = cl.run_round(job, mode, "/snap/A", spec, {"kind": "seed", "seed": ctx.seed}, fresh_read=False)
        hist = res.history
        idx = [e["i"] for e in hist if e["ev"] in ("wBegin", "wEnd")]
        meta = [e for e in hist if e["ev"] == "wBegin" and e["kind"] == "meta"][0]
        data = res.blobs[(meta["rank"], meta["w"])]
        bad = 0
        for k in range(0, len(data)):
            files = {e["path"]: res.blobs[(e["rank"], e["w"])] for e in hist if e["ev"] == "wEnd" and e["kind"] == "payload"}
            files[meta["path"]] = data[:k]
            r = cl.open_and_restore(files, "/snap/A", 2, spec)
            ctx.count("torn_offset." + ("readable" if r["open"] == "ok" else "rejected"))
            if r["open"] == "ok":
                bad += 1
                ctx.fail("torn-metadata-readable", f"metadata torn at byte {k}/{len(data)} was accepted by the reader",
                         {"mode": mode, "offset": k, "len": len(data)}, r, suite="torn_offsets")
        ctx.case("torn_offsets", {"mode": mode, "len": len(data), "accepted": bad}, nontrivial=True, key=[mode, len(data)])
        for cut in range(idx[0] - 1, idx[-1] + 1):
            files, info = cl.materialise_cut(hist, res.blobs, cut, cut_rng, {})
            r = cl.open_and_restore(files, "/snap/A", 2, spec)
            if r["open"] == "ok" and any(x != "equal" for x in r["restore"]):
                ctx.fail("cut-readable-but-incomplete", f"crash after event {cut}: readable but restore not exact",
                         {"mode": mode, "cut": info}, r, suite="all_cuts")
        ctx.case("all_cuts", {"mode": mode, "cuts": idx[-1] - idx[0] + 2}, nontrivial=True, key=[mode, "all"])


def replay(ctx: Ctx, rec):
    if isinstance(rec.get("input"), dict) and rec["input"].get("fsize_limit"):
        import fsize
        cfg = {k: v for k, v in rec["input"].items() if k not in ("fsize_limit", "dir", "mode")}
        (fsize.plugin_case if rec["input"]["fsize_limit"] == "plugin" else fsize.take_case)(ctx, cfg, "replay")
        for f_ in ctx.failures[:10]:
            print("FAIL", f_["sig"], f_["what"], f_["observed"])
        if not ctx.failures:
            print("no failure on replay")
        return
    if "glob" in rec["input"] or "glob" in (rec["input"].get("case") or {}):
        from props import c01_world
        c01_world.world_tie_case(ctx, rec["input"].get("case") or rec["input"], "replay")
        for f in ctx.failures[:10]:
            print("FAIL", f["sig"], f["what"], f["observed"])
        return
    detsim.install()
    case = rec["input"]
    if "rounds" not in case:
        print("replay of", rec.get("signature"), "needs the thorough tier (torn offsets / all cuts):", case)
        return
    for rd in case["rounds"]:
        rd.pop("observed_keys", None)
    summ = cl.run_case(ctx, case, "replay", cuts=6, cut_rng=random.Random(0))
    for i, rs in enumerate(summ["rounds"]):
        print(f"round {i}: outcomes={rs['outcomes']} deadlock={rs['deadlock']} cuts={rs.get('cuts')}")
        print("  impl :", " ".join(cl.compact(rs["result"].history)))
        m = rs.get("model")
        if m:
            print("  model: accepted", m.get("accepted"), "/", m.get("total"), "rejected:", m.get("rejected"), "outcomes:", m.get("outcomes"))
    print("oracle failures:", [(s, t) for s, t, _ in summ["failures"]])
    print("disagreements:", summ["disagreements"])
