"""C05 — committed manifest entries exist, fit, are disjoint, written once, confined."""
from __future__ import annotations

import os
import re
from typing import Any, Dict, List, Optional, Tuple

from common import Ctx

PROP = "C05"
LEAN_MODULE = "TsProofs.Properties.C05"
THEOREMS = [
    "Ts.Location.C05_confined_partial",
    "Ts.Location.C05_written_once_partial",
    "Ts.Location.C05_exists_fits_partial",
    "Ts.Location.C05_disjoint",
    "Ts.Location.C05_manifest_complete",
    "Ts.Location.C05_safe_keys_iff",
    "Ts.Location.C05_witness_suffix",
    "Ts.Location.C05_witness_dot",
    "Ts.Location.C05_witness_dotdot",
    "Ts.Location.C05_witness_emptykey",
    "Ts.Location.C05_witness_inner_empty",
    "Ts.Location.fsPath_good",
    "Ts.Location.unitLocation_inj",
]
BUDGET_S = (150, 900)
RULE = ("real Snapshot.take of random nested app states on 1..3 simulated ranks (in-memory storage, fake process group), "
        "random knobs (chunk/slab thresholds from 1 byte, batching on/off), replicated globs; safe key stream + adversarial "
        "key stream ('..', '.', '', key + chunk-offset suffix, keys differing only by escaping). Per case the oracle checks "
        "on the real write log and the real committed manifest: confinement, written-once, existence/size, disjointness, "
        "manifest completeness; the Lean model recomputes every location and resolved path. A case is non-trivial if it "
        "wrote >= 1 payload object; distinct by (state, knobs, world) hash. Plus real multi-process jobs (gloo, real FS plugin, "
        "plain keys) whose ranks all seed random/numpy/torch identically before the take: union of the ranks' write logs "
        "checked for written-once, disjoint ranges, existence, and restored values.")
TRUSTED = ["uuid4 uniqueness for slab names (batched/<uuid>)",
           "the filesystem resolves a path as posixpath.normpath does (no symlinks under the snapshot root)",
           "flatten's logical paths (tied separately by C15)"]
ASSUMPTIONS = ["sharded-tensor locations use the same naming function (tied in C08's suite); not exercised here"]
LEVEL_TEXT = ("Lean 4 theorems over the storage-naming model (any number of ranks, units, chunks; any root): under the decidable "
              "key-safety hypotheses every write resolves to root/location (confined), distinct write units resolve to distinct "
              "files (written once) and after the writes complete in any order each location holds exactly its unit's bytes "
              "(exists, fits); five proved witnesses show the unrestricted statement is false on this tree (finding D13). The model "
              "is tied to the real take by recomputing every location / resolved path of real write logs and manifests; the "
              "property oracle runs on the real code.")
LEVEL_NOTE = ("Partial: theorems carry safePath/noSuffixAlias (D13 is a recorded finding, not repaired). Slab byte-range "
              "disjointness is C16's theorem; manifest completeness rests on C15 (flatten) and C06/C07 (consolidation). Trusted: "
              "Lean kernel, hand model TsModel/Location.lean, harness, uuid uniqueness, normpath = OS resolution.")
TECHNIQUE = "Lean 4 proof over storage-naming model + differential correspondence on real take write logs/manifests"

ROOT = "/snap/c05"
KNOWN_SIGS = {"suffix-alias", "dot-component", "dotdot-component", "empty-component"}

# "w/z" next to "w%2Fz", "c/d" next to "c%2Fd", "%" next to "%25": sibling keys that differ only by what escaping does to them
# (seed C05-H: an escape fast path that leaves '%' alone when the key has no '/')
SAFE = ["a", "b", "c/d", "%", "x y", 1, 2, "10", "k", "w%2Fz", "é", "a_b", "a_x0", "_0", "0_", "w/z", "c%2Fd", "%25"]
ADV = ["..", ".", "", "a", "a_0", "a_0_0", "a_1", "b", "b_0", "%2F", "/", "a/b", "a%2Fb", "..%2F", "a_", "a__0", 0]


def _cps(s: str) -> List[int]:
    return [ord(c) for c in s]


def _entries_of(manifest) -> List[Tuple[str, str, Any, Optional[List[int]]]]:
    """(manifest key, kind, leaf entry, chunk offsets) for every payload-bearing entry."""
    from torchsnapshot.manifest import ChunkedTensorEntry, ObjectEntry, ShardedTensorEntry, TensorEntry
    out = []
    for k, e in manifest.items():
        if isinstance(e, ChunkedTensorEntry):
            for ch in e.chunks:
                out.append((k, "chunk", ch.tensor, list(ch.offsets)))
        elif isinstance(e, ShardedTensorEntry):
            for sh in e.shards:
                out.append((k, "shard", sh.tensor, list(sh.offsets)))
        elif isinstance(e, TensorEntry):
            out.append((k, "tensor", e, None))
        elif isinstance(e, ObjectEntry):
            out.append((k, "object", e, None))
    return out


def _classify_pair(raw1: str, raw2: str) -> str:
    """Why do two raw storage paths resolve to the same file?"""
    if raw1 == raw2:
        return "same-raw"
    comps = raw1.split("/") + raw2.split("/")
    if ".." in comps:
        return "dotdot-component"
    if "." in comps:
        return "dot-component"
    if "" in comps:
        return "empty-component"
    return "distinct-raw-same-file"


def _check_case(ctx: Ctx, case: Dict[str, Any], suite: str):
    import gen
    import sim
    import torch
    from torchsnapshot import Snapshot
    from torchsnapshot.flatten import flatten
    from torchsnapshot.manifest import PrimitiveEntry
    from torchsnapshot.manifest_utils import is_container_entry
    from torchsnapshot.serialization import Serializer, string_to_dtype

    W = case["world"]
    world = sim.World(W)
    fs_dir = None
    if case.get("real_fs"):
        # the REAL FSStoragePlugin in a private directory (this stream uses safe keys only)
        import shutil
        from common import OUT_DIR
        fs_dir = os.path.join(OUT_DIR, f"c05_fs_{os.getpid()}")
        shutil.rmtree(fs_dir, ignore_errors=True)
        world.storage = sim.FsStore(fs_dir)
    try:
        return _check_case_in(ctx, case, suite, world)
    finally:
        if fs_dir:
            import shutil
            shutil.rmtree(fs_dir, ignore_errors=True)


def _check_case_in(ctx: Ctx, case: Dict[str, Any], suite: str, world):
    import gen
    import sim
    import torch
    from torchsnapshot import Snapshot
    from torchsnapshot.flatten import flatten
    from torchsnapshot.manifest import PrimitiveEntry
    from torchsnapshot.manifest_utils import is_container_entry
    from torchsnapshot.serialization import Serializer, string_to_dtype
    W = case["world"]
    cur = {"states": case["states"]}

    def take(r, pg):
        app = {}
        for (kd, d) in cur["states"][r]:
            app[gen.build_key(kd)] = gen.RecStateful(gen.build_tree(d))
        # ranks may pass different path strings: the library uses rank 0's (and says so); every write must still land
        # under that one root
        path = ROOT if (r == 0 or not case.get("per_rank_paths")) else f"{ROOT}_r{r}"
        if case.get("async"):
            Snapshot.async_take(path, app, pg=pg, replicated=case["replicated"]).wait()
        else:
            Snapshot.take(path, app, pg=pg, replicated=case["replicated"])
        # the leaves a rank saved, by the harness's OWN walk of the state (escaping included): taking them from the
        # library's flatten would make manifest completeness blind to two leaves flatten maps to one path (seed C05-H)
        return {k: _ref_leaf_paths(v.sd, k) for k, v in app.items()}

    if case.get("pre_states"):
        # an earlier snapshot (committed or abandoned) at the same path left LONGER objects at the same locations
        cur["states"] = case["pre_states"]
        with sim.knobs(**case["knobs"]):
            try:
                if W == 1:
                    world.run1(lambda: take(0, None))
                else:
                    world.run(take)
            except Exception:  # noqa
                pass
        world.storage.log.clear()
        cur["states"] = case["states"]
        ctx.count("retake.same_path")

    with sim.knobs(**case["knobs"]):
        if W == 1:
            try:
                res = [("ok", world.run1(lambda: take(0, None)))]
            except Exception as e:  # noqa
                res = [("exc", e)]
        else:
            res = world.run(take)
    if any(r[0] != "ok" for r in res):
        ctx.count("take.raised")
        kinds = sorted({type(r[1]).__name__ for r in res if r[0] != "ok"})
        ctx.count("take.raised." + ",".join(kinds))
        # a raise means nothing was committed by this rank set; metadata must then be absent
        meta = os.path.normpath(os.path.join(ROOT, ".snapshot_metadata"))
        if meta in world.storage.files and any(isinstance(r[1], sim.Mismatch) for r in res if r[0] != "ok"):
            pass  # collective mismatch after commit is C12's subject
        ctx.case(suite, {"world": W, "raised": kinds, "knobs": case["knobs"]}, nontrivial=False)
        return
    ctx.count("take.ok")

    w1 = sim.World(1)
    w1.storage = world.storage
    try:
        manifest = w1.run1(lambda: Snapshot(ROOT).get_manifest())
    except Exception as e:  # noqa
        ctx.fail("metadata-unreadable-after-take", f"take returned on every rank but the committed metadata cannot be read: "
                 f"{type(e).__name__}: {str(e)[:160]}", case, None, suite=suite)
        ctx.case(suite, {"world": W, "knobs": case["knobs"], "metadata": "unreadable"}, nontrivial=True, key=case)
        return
    files = world.storage.snapshot_files()
    writes = [e for e in world.storage.writes() if not e["raw"].endswith(".snapshot_metadata")]
    inp = case

    failures: List[Tuple[str, str, Any]] = []

    ents = _entries_of(manifest)
    # intended (pre-relocation) location of every payload unit, recomputed from the manifest key alone
    intended: Dict[str, List[Tuple[str, str, str]]] = {}      # resolved path -> [(unit id, kind, raw intended)]
    unit_path: Dict[str, str] = {}
    for (k, kind, le, offs) in ents:
        rk, lp = k.split("/", 1) if "/" in k else (k, "")
        top = manifest[k]
        owner = "replicated" if getattr(top, "replicated", False) else rk
        raw_i = os.path.join(owner, lp) + ("" if offs is None else "_" + "_".join(map(str, offs)))
        uid = k + ("" if offs is None else "#" + "_".join(map(str, offs)))
        rp = os.path.normpath(os.path.join(ROOT, raw_i))
        intended.setdefault(rp, []).append((uid, kind, raw_i))
        unit_path[uid] = rp

    def group_sig(rp: str) -> Optional[str]:
        g = intended.get(rp, [])
        if len({u for u, _, _ in g}) < 2:
            return None
        raws = sorted({r for _, _, r in g})
        if len(raws) == 1:
            logical = {u.split("#")[0] for u, _, _ in g}
            return "suffix-alias" if (len(logical) > 1 and any(kd in ("chunk", "shard") for _, kd, _ in g)) else "duplicate-location"
        return _classify_pair(raws[0], raws[1])

    def unit_sig(k, offs) -> Optional[str]:
        uid = k + ("" if offs is None else "#" + "_".join(map(str, offs)))
        return group_sig(unit_path.get(uid, ""))

    # ---- O1 confinement ------------------------------------------------------------------
    for e in writes:
        if not e["path"].startswith(ROOT + "/"):
            comps = e["raw"].split("/")
            sig = "dotdot-component" if ".." in comps else ("empty-component" if e["raw"].startswith("/") else "escape-root")
            failures.append((sig, "a write resolved outside the snapshot root", {"raw": e["raw"], "resolved": e["path"]}))
    # ---- O2 written once -----------------------------------------------------------------
    by_path: Dict[str, List[Dict[str, Any]]] = {}
    for e in writes:
        by_path.setdefault(e["path"], []).append(e)
    for p, es in by_path.items():
        if len(es) > 1:
            sig = group_sig(p)
            if sig is None:
                sig = _classify_pair(es[0]["raw"], es[1]["raw"])
                if sig == "same-raw":
                    # the same raw path from two writers: only an absolute raw path (empty app key: rank and root
                    # discarded by os.path.join) is the recorded finding; anything else is a new violation
                    sig = "empty-component" if es[0]["raw"].startswith("/") else "duplicate-location"
            failures.append((sig, "a storage location was written more than once",
                             {"resolved": p, "writes": [(e["rank"], e["raw"], e["len"]) for e in es]}))
    # ---- O3 exists / fits, O4 disjoint ------------------------------------------------------
    spans: Dict[str, List[Tuple[int, int, str, Optional[str]]]] = {}
    for (k, kind, le, offs) in ents:
        p = os.path.normpath(os.path.join(ROOT, le.location))
        why = unit_sig(k, offs)
        if p not in files:
            failures.append((why or "missing-location", "manifest entry names a location that was never written", {"key": k, "location": le.location}))
            continue
        flen = len(files[p])
        br = getattr(le, "byte_range", None)
        lo, hi = (br[0], br[1]) if br is not None else (0, flen)
        if not (0 <= lo <= hi <= flen):
            failures.append((why or "range-out-of-file", "byte range outside the stored object", {"key": k, "range": [lo, hi], "file_len": flen}))
        if getattr(le, "serializer", None) == Serializer.BUFFER_PROTOCOL.value:
            es_ = torch.empty((), dtype=string_to_dtype(le.dtype)).element_size()
            n = 1
            for s_ in le.shape:
                n *= s_
            if hi - lo != es_ * n:
                failures.append((why or "size-mismatch", "raw tensor range length != element size * element count",
                                 {"key": k, "range": [lo, hi], "expected": es_ * n}))
        spans.setdefault(p, []).append((lo, hi, k + ("" if offs is None else "#" + "_".join(map(str, offs))), why))
    for p, sp in spans.items():
        sp2 = sorted((x for x in sp if x[1] > x[0]), key=lambda x: (x[0], x[1], x[2]))
        for (a, b) in zip(sp2, sp2[1:]):
            if b[0] < a[1]:
                failures.append((a[3] or b[3] or "overlap", "byte ranges of two saved objects overlap",
                                 {"file": p, "a": a[:3], "b": b[:3]}))
    # ---- O5 manifest completeness ----------------------------------------------------------
    leaf_keys = [k for k, e in manifest.items() if not is_container_entry(e)]
    expected: Dict[str, int] = {}
    for r in range(W):
        for k, fl in res[r][1].items():
            for lp in fl:
                expected.setdefault(f"{r}/{lp}", 0)
    got = set(leaf_keys)
    for key in expected:
        r, lp = key.split("/", 1)
        holders = [q for q in range(W) if os.path.join(str(q), lp) in got]
        here = os.path.join(r, lp) in got
        repl = [q for q in holders if getattr(manifest[os.path.join(str(q), lp)], "replicated", False)]
        if here:
            continue
        if repl and len(repl) == 1:
            continue   # replicated leaf: listed once for the whole job
        sig = "empty-component" if (lp.startswith("/") or "//" in lp) else "manifest-incomplete"
        failures.append((sig, "a leaf of a rank's application state is missing from the manifest", {"leaf": key, "holders": holders}))
    exp_keys = {os.path.join(k.split("/", 1)[0], k.split("/", 1)[1]) for k in expected}
    for k in got:
        if k not in exp_keys:
            sig = "empty-component" if (k.startswith("/") or "//" in k) else "manifest-extra-leaf"
            failures.append((sig, "the manifest lists a leaf that no rank saved", {"key": k}))

    # ---- correspondence with the Lean model -------------------------------------------------
    model_safe = None
    if ctx.driver:
        reqs, meta = [], []
        for (k, kind, le, offs) in ents:
            if le.location.startswith("batched/"):
                continue
            rk, lp = (k.split("/", 1) + [""])[:2] if "/" in k else (k, "")
            owner_repl = le.location.startswith("replicated/")
            if not rk.isdigit():
                continue  # key mangled by an empty app key: outside the model's input language
            owner = "replicated" if owner_repl else int(rk)
            reqs.append({"op": "loc", "owner": owner, "logical": _cps(lp), "offs": offs, "root": _cps(ROOT)})
            meta.append((k, le.location))
        reps = ctx.driver.call_many(reqs)
        bases = []
        model_safe = True
        for (k, loc), rep, rq in zip(meta, reps, reqs):
            if "error" in rep:
                ctx.disagree("loc", rq, loc, rep)
                continue
            mloc = "".join(map(chr, rep["location"]))
            mfs = "".join(map(chr, rep["fs"]))
            bases.append(rep["base"])
            model_safe = model_safe and rep["safe"]
            if mloc != loc:
                ctx.disagree("loc", rq, {"location": loc}, {"location": mloc}, "model and real entry location differ")
            elif mfs != os.path.normpath(os.path.join(ROOT, loc)):
                ctx.disagree("loc", rq, {"fs": os.path.normpath(os.path.join(ROOT, loc))}, {"fs": mfs}, "resolved path differs")
        # safety of the key set is judged on the logical paths flatten produced (all ranks)
        sreqs = [{"op": "loc", "owner": int(key.split("/", 1)[0]), "logical": _cps(key.split("/", 1)[1]), "offs": None,
                  "root": _cps(ROOT)} for key in expected]
        for rep in ctx.driver.call_many(sreqs):
            model_safe = model_safe and bool(rep.get("safe"))
            if "base" in rep:
                bases.append(rep["base"])
        if bases:
            uniq = []
            for b in bases:
                if b not in uniq:
                    uniq.append(b)
            rep = ctx.driver.call({"op": "suffix_alias", "paths": uniq})
            model_safe = model_safe and bool(rep.get("ok"))
        # raw write log: every non-slab write path must be one of the model locations or a slab
        for e in writes:
            if not e["raw"].startswith("batched/"):
                continue
            if not re.fullmatch(r"batched/[0-9a-f]{8}-[0-9a-f]{4}-[0-9a-f]{4}-[0-9a-f]{4}-[0-9a-f]{12}", e["raw"]):
                ctx.disagree("slab-name", {"raw": e["raw"]}, e["raw"], "batched/<uuid4>")
        if model_safe and failures:
            # theorem hypotheses hold for this key set, yet the implementation violates the conclusion
            failures = [(("safe-keys:" + s) if s in KNOWN_SIGS else s, w, o) for (s, w, o) in failures]

    for sig, what, obs in failures:
        ctx.fail(sig, what, inp, obs, suite=suite)
        ctx.count("fail." + sig)
    ctx.count("world.%d" % W)
    ctx.count("writes", len(writes))
    ctx.count("entries", len(ents))
    if case["knobs"].get("nobatch"):
        ctx.count("batching.off")
    else:
        ctx.count("batching.on")
    if any(kind == "chunk" for (_, kind, _, _) in ents):
        ctx.count("has.chunked")
    if any(getattr(le, "byte_range", None) is not None for (_, _, le, _) in ents):
        ctx.count("has.slab")
    if any(le.location.startswith("replicated/") for (_, _, le, _) in ents):
        ctx.count("has.replicated")
    if model_safe is True:
        ctx.count("model.safe_keys")
    elif model_safe is False:
        ctx.count("model.unsafe_keys")
    ctx.case(suite, {"world": W, "knobs": case["knobs"], "replicated": case["replicated"],
                     "states": gen.short(case["states"]), "writes": len(writes), "failures": sorted({f[0] for f in failures})},
             nontrivial=len(writes) > 0, key=case)


def _enlarge(d):
    """the same tree with every tensor replaced by a longer 1-d tensor of the same dtype (more bytes at the same location)"""
    import copy
    import gen
    d = copy.deepcopy(d)

    def go(x):
        if isinstance(x, dict) and x.get("t") == "tensor":
            n = gen.numel(x["shape"])
            es = max(1, len(x["data"]) // n) if n else gen.esize(gen.NAME_DT[x["dtype"]])
            x["shape"] = [n + 7]
            x["data"] = (list(x["data"]) + [1] * (es * (n + 7)))[: es * (n + 7)]
            if x["dtype"] == "bool":
                x["data"] = [b & 1 for b in x["data"]]
            x["layout"] = "contig"
        elif isinstance(x, dict):
            for v in x.get("items", []):
                go(v[1] if isinstance(v, list) else v)
        elif isinstance(x, list):
            for v in x:
                go(v)
    go(d)
    return d


def _ref_escape(s: str) -> str:
    return s.replace("%", "%25").replace("/", "%2F")


def _ref_leaf_paths(obj, prefix: str):
    """Reference for the logical leaf paths of `flatten(obj, prefix)`: lists and (Ordered)dicts whose keys are all str/int
    with distinct str() are containers, '%' and '/' inside a key are escaped, everything else is a leaf."""
    from collections import OrderedDict
    out = []

    def walk(o, path):
        if type(o) == list:
            for i, e in enumerate(o):
                walk(e, f"{path}/{i}")
        elif type(o) in (dict, OrderedDict) and all(isinstance(k, (str, int)) for k in o) and len({str(k) for k in o}) == len(o):
            for k, e in o.items():
                walk(e, f"{path}/{_ref_escape(str(k))}")
        else:
            out.append(path)
    walk(obj, _ref_escape(prefix))
    return out


def _gen_case(rng, keys, adversarial: bool) -> Dict[str, Any]:
    import gen
    import sim
    W = rng.choice([1, 1, 2, 3])
    replicated = rng.choice([[], [], ["**"], ["s/**"], ["*/a", "s/b*"]])
    states = []
    shared = None
    for r in range(W):
        if replicated and shared is not None and rng.random() < 0.7:
            states.append(shared)     # identical structure on every rank so that globs really replicate
            continue
        n_app = rng.randint(1, 2)
        app_keys = ["s"] + ([rng.choice(["t", "s2", "..", "", "."])] if (adversarial and rng.random() < 0.3) else ["t"])
        st = []
        for ak in app_keys[:n_app]:
            tree = gen.rand_tree_desc(rng, 3, keys=keys, tensors=0.75, max_elems=12)
            if tree["t"] not in ("dict", "odict"):
                tree = {"t": "dict", "items": [[gen.key_desc(rng.choice(keys)), tree]]}
            st.append([gen.key_desc(ak), tree])
        states.append(st)
        shared = st
    kn = sim.rand_knobs(rng)
    kn["budget"] = rng.choice([1, 50, 10 ** 9])
    mode = rng.random()
    return {"world": W, "states": states, "replicated": replicated, "knobs": kn,
            "async": mode < 0.25, "per_rank_paths": W > 1 and 0.1 < mode < 0.4}


CORPUS = [
    # minimized D13 reproductions (must keep classifying as the recorded findings)
    {"world": 1, "replicated": [], "knobs": {"chunk": 4, "nobatch": True, "budget": 10 ** 9},
     "states": [[[{"k": "str", "v": _cps("s")}, {"t": "dict", "items": [
         [{"k": "str", "v": _cps("a")}, {"t": "tensor", "dtype": "float32", "shape": [2], "data": [0] * 8, "layout": "contig"}],
         [{"k": "str", "v": _cps("a_0")}, {"t": "tensor", "dtype": "float32", "shape": [1], "data": [1, 1, 1, 1], "layout": "contig"}]]}]]]},
    {"world": 1, "replicated": [], "knobs": {"nobatch": True, "budget": 10 ** 9},
     "states": [[[{"k": "str", "v": _cps("s")}, {"t": "dict", "items": [
         [{"k": "str", "v": _cps("a")}, {"t": "dict", "items": [
             [{"k": "str", "v": _cps(".")}, {"t": "dict", "items": [[{"k": "str", "v": _cps("b")}, {"t": "tensor", "dtype": "uint8", "shape": [1], "data": [1], "layout": "contig"}]]}],
             [{"k": "str", "v": _cps("b")}, {"t": "tensor", "dtype": "uint8", "shape": [1], "data": [2], "layout": "contig"}]]}]]}]]]},
    {"world": 1, "replicated": [], "knobs": {"nobatch": True, "budget": 10 ** 9},
     "states": [[[{"k": "str", "v": _cps("..")}, {"t": "dict", "items": [
         [{"k": "str", "v": _cps("..")}, {"t": "dict", "items": [[{"k": "str", "v": _cps("x")}, {"t": "tensor", "dtype": "uint8", "shape": [1], "data": [1], "layout": "contig"}]]}]]}]]]},
    {"world": 1, "replicated": [], "knobs": {"nobatch": True, "budget": 10 ** 9},
     "states": [[[{"k": "str", "v": []}, {"t": "dict", "items": [
         [{"k": "str", "v": _cps("x")}, {"t": "tensor", "dtype": "uint8", "shape": [1], "data": [1], "layout": "contig"}]]}]]]},
]


def _seeded_processes(ctx: Ctx, cfg: Dict[str, Any], idx: int, suite: str = "seeded_processes", verbose: bool = False):
    """W real processes (gloo, real filesystem plugin, plain keys) that all seed random / numpy / torch with the same
    value before taking the snapshot - what seed_everything(s) does in a training script.  The oracle is the
    written-once / disjointness / exists-fits part of C05 over the union of the ranks' real write logs."""
    import json
    import shutil
    import subprocess
    import sys
    import time
    from common import OUT_DIR, REPO
    W = cfg["W"]
    root = os.path.join(OUT_DIR, f"c05_proc_{os.getpid()}_{idx}")
    shutil.rmtree(root, ignore_errors=True)
    os.makedirs(root)
    cfg_path = os.path.join(root, "cfg.json")
    json.dump(cfg, open(cfg_path, "w"))
    worker = os.path.join(os.path.dirname(os.path.abspath(__file__)), "c05_proc_worker.py")
    env = dict(os.environ, VERIF_REPO=REPO)
    procs = [subprocess.Popen([sys.executable, worker, cfg_path, str(r), str(W), os.path.join(root, "init"), root,
                               os.path.join(root, f"out{r}.json")], env=env, stdout=subprocess.PIPE, stderr=subprocess.STDOUT)
             for r in range(W)]
    outs, timed_out = [], False
    import sim as _sim
    t_end = time.time() + 4.5 * _sim.wait_limit()      # 90 s, scaled with machine load
    for p in procs:
        try:
            o, _ = p.communicate(timeout=max(1, t_end - time.time()))
        except subprocess.TimeoutExpired:
            timed_out = True
            p.kill()
            o, _ = p.communicate()
        outs.append(o.decode("utf-8", "replace")[-600:])
    res = []
    for r in range(W):
        f = os.path.join(root, f"out{r}.json")
        res.append(json.load(open(f)) if os.path.exists(f) else None)
    full = dict(cfg, seeded_processes=True)
    if timed_out or any(x is None for x in res):
        # a crash of the job is not a C05 verdict; it is reported as a harness-level observation
        ctx.count("seeded.job_failed")
        ctx.notes.append(f"seeded_processes job {idx} did not complete: {outs}")
        ctx.case(suite, dict(full, completed=False), nontrivial=False, key=full)
        shutil.rmtree(root, ignore_errors=True)
        return
    writers: Dict[str, List[Tuple[int, int]]] = {}
    for r, x in enumerate(res):
        for (path, n) in x["writes"]:
            writers.setdefault(os.path.normpath(path), []).append((r, n))
    for path, ws in sorted(writers.items()):
        if path == ".snapshot_metadata":
            continue
        if len(ws) > 1:
            ctx.fail("seeded-ranks-same-location", f"{path} written {len(ws)} times (rank, bytes) = {ws} by identically seeded ranks",
                     full, {"path": path, "writes": ws}, suite=suite)
    man = res[0]["manifest"]
    used: Dict[str, List[Tuple[int, int, str]]] = {}
    for k, units in sorted(man.items()):
        for (loc, lo, hi) in units:
            f = os.path.join(root, "snap", loc)
            if not os.path.isfile(f):
                ctx.fail("missing-location", f"{k}: {loc} does not exist", full, {"key": k, "location": loc}, suite=suite)
                continue
            size = os.path.getsize(f)
            if hi >= 0:
                if hi > size:
                    ctx.fail("range-outside-object", f"{k}: [{lo},{hi}) outside {loc} of {size} bytes", full, {"key": k}, suite=suite)
                for (lo2, hi2, k2) in used.get(loc, []):
                    if lo < hi2 and lo2 < hi:
                        ctx.fail("seeded-ranks-overlapping-ranges", f"{k} [{lo},{hi}) and {k2} [{lo2},{hi2}) overlap in {loc}", full,
                                 {"a": k, "b": k2, "location": loc}, suite=suite)
                used.setdefault(loc, []).append((lo, hi, k))
    for r, x in enumerate(res):
        for pr in x["problems"]:
            ctx.fail("seeded-ranks-wrong-restore", pr, full, pr, suite=suite)
    if verbose:
        for r in range(W):
            print("rank", r, res[r])
    shutil.rmtree(root, ignore_errors=True)
    ctx.count("seeded.jobs")
    ctx.count("seeded.slab_writes", sum(1 for p in writers if p.startswith("batched/")))
    ctx.case(suite, dict(full, writes=len(writers)), nontrivial=any(p.startswith("batched/") for p in writers), key=full)


SEEDED_CORPUS = [
    {"W": 2, "seed": 0, "elems": [3, 5, 7], "slab": 0, "async": False},
]


def run(ctx: Ctx):
    for c in CORPUS:
        _check_case(ctx, c, "corpus")
    jobs = list(SEEDED_CORPUS)
    for _ in range(ctx.n(1, 12)):
        jobs.append({"W": ctx.rng.choice([2, 2, 3]), "seed": ctx.rng.randrange(10 ** 6), "async": ctx.rng.random() < 0.3,
                     "elems": [ctx.rng.randint(1, 40) for _ in range(ctx.rng.randint(2, 6))], "slab": ctx.rng.choice([0, 0, 64, 200])})
    for i, cfg in enumerate(jobs):
        _seeded_processes(ctx, cfg, i)
    n_safe, n_adv = ctx.n(350, 3000), ctx.n(300, 2500)
    for i in range(n_safe):
        if ctx.time_left() < 15:
            ctx.notes.append(f"safe stream stopped early at {i}")
            break
        _check_case(ctx, _gen_case(ctx.rng, SAFE, False), "safe_keys")
    # re-take at a path where an earlier snapshot left longer objects, through the real filesystem plugin (safe keys)
    for i in range(ctx.n(25, 250)):
        if ctx.time_left() < 20:
            break
        c = _gen_case(ctx.rng, SAFE, False)
        c["real_fs"] = True
        c["pre_states"] = [[[kd, _enlarge(d)] for kd, d in st] for st in c["states"]]
        if ctx.rng.random() < 0.6:
            c["knobs"]["nobatch"] = True
        _check_case(ctx, c, "retake_real_fs")
    for i in range(n_adv):
        if ctx.time_left() < 5:
            ctx.notes.append(f"adversarial stream stopped early at {i}")
            break
        _check_case(ctx, _gen_case(ctx.rng, ADV, True), "adversarial_keys")
    # per-function: posixpath.join / normpath vs the model on random strings over a small alphabet
    if ctx.driver:
        alpha = ["/", ".", "..", "a", "b_0", "%2F", ""]
        reqs, exp = [], []
        for _ in range(ctx.n(400, 4000)):
            p = "/".join(ctx.rng.choice(alpha) for _ in range(ctx.rng.randint(0, 6)))
            q = "/".join(ctx.rng.choice(alpha) for _ in range(ctx.rng.randint(0, 4)))
            reqs.append({"op": "normpath", "p": _cps(p)}); exp.append(os.path.normpath(p))
            reqs.append({"op": "pjoin", "a": _cps(p), "b": _cps(q)}); exp.append(os.path.join(p, q))
        for rq, rep, e in zip(reqs, ctx.driver.call_many(reqs), exp):
            got = "".join(map(chr, rep.get("out", [])))
            if got != e:
                ctx.disagree("posixpath", rq, e, got)
            ctx.case("posixpath", {"op": rq["op"], "in": "".join(map(chr, rq.get("p", rq.get("a", [])))), "out": e}, nontrivial=True, key=rq)


def replay(ctx: Ctx, rec):
    if rec["input"].get("seeded_processes"):
        _seeded_processes(ctx, {k: v for k, v in rec["input"].items() if k != "seeded_processes"}, 0, suite="replay", verbose=True)
    else:
        _check_case(ctx, rec["input"], "replay")
    for f in ctx.failures:
        print("FAIL", f["sig"], f["what"], f["observed"])
    if not ctx.failures:
        print("no failure on replay")
