"""C14 — snapshot metadata serialization is lossless for every manifest."""
from __future__ import annotations

import base64
import json
import os
import shutil
import struct

from common import Ctx, OUT_DIR

PROP = "C14"
LEAN_MODULE = "TsProofs.Properties.C14"
THEOREMS = [
    "Ts.Manifest.C14_string_roundtrip",
    "Ts.Manifest.C14_string_scan",
    "Ts.Manifest.C14_witness_adjacent_surrogates",
    "Ts.Manifest.C14_b64_roundtrip",
    "Ts.Manifest.C14_primitive_roundtrip",
    "Ts.Manifest.C14_primitive_serialized_good",
    "Ts.Manifest.C14_entry_roundtrip",
    "Ts.Manifest.C14_entry_value_kept",
    "Ts.Manifest.C14_metadata_roundtrip",
    "Ts.Manifest.C14_strict_prefix_rejected",
    "Ts.Manifest.C14_reader_budget_never_exhausted",
    "Ts.Manifest.C14_primitive_types_table",
]
BUDGET_S = (150, 1200)
RULE = ("sweep: every code point 0..0x10FFFF alone and in short contexts (after a high surrogate, before a low one, "
        "after a non-BMP char, doubled, between ASCII) through real json.dumps / json.loads (the reader from_yaml "
        "uses) vs the Lean escape/unescape, and packed 4096 at a time as paths + str primitives of a real "
        "SnapshotMetadata through to_yaml/from_yaml; strings: random strings from edge classes (controls, U+2028/9, "
        "quotes, backslashes, lone surrogates in every position, non-BMP, adjacent surrogate pairs) and adversarial "
        "string bodies (upper-case hex, bad escapes, raw controls); primitives: int (|x| up to 10^300), bool, str, "
        "bytes, float bit patterns (NaN payloads, +-0, +-inf, subnormals) through PrimitiveEntry.from_object/get_value, "
        "adversarial serialized values through get_value; base64 encode/decode incl. malformed input; manifests: random "
        "SnapshotMetadata over all nine entry kinds built from the repo's classes — to_yaml text vs the Lean printer "
        "byte-for-byte, from_yaml(to_yaml(md)) vs md (oracle, modulo readable) and vs the Lean reader; every "
        "truncation point of the documents (real reader must raise, model must reject); mutated documents and random "
        "JSON texts (json.loads / from_yaml vs Lean parse / reader); real Snapshot.take -> Snapshot(path).metadata. "
        "A case is non-trivial if it contains at least one non-ASCII/escaped character, a non-empty manifest or a "
        "non-empty payload; distinct by content hash.")
TRUSTED = ["CPython json.dumps / json.loads, base64, struct.pack('d') (modelled from their sources, sampled here, not verified)",
           "libyaml fallback of from_yaml: not modelled; its rejection of every truncated document is sampled exhaustively per generated document"]
ASSUMPTIONS = ["ints stay below Python's 4300-digit int<->str limit (environment bound)",
               "metadata fields hold values of their declared types (the readers are untyped; ill-typed documents are outside the model and not compared)",
               "strings with a high surrogate immediately followed by a low surrogate are excluded (D17, known finding)"]

KNOWN_SIG = "adjacent-surrogate-pair"


# --------------------------------------------------------------------------------------
# helpers
# --------------------------------------------------------------------------------------

def cps(s: str):
    return [ord(c) for c in s]


def from_cps(l):
    return "".join(chr(x) for x in l)


def is_high(c):
    return 0xD800 <= c <= 0xDBFF


def is_low(c):
    return 0xDC00 <= c <= 0xDFFF


def has_adjacent_pair(s: str) -> bool:
    return any(is_high(ord(a)) and is_low(ord(b)) for a, b in zip(s, s[1:]))


def collapse(s: str) -> str:
    """What JSON makes of a str: adjacent high+low surrogate code points become one character."""
    out = []
    i = 0
    while i < len(s):
        a = ord(s[i])
        if is_high(a) and i + 1 < len(s) and is_low(ord(s[i + 1])):
            out.append(chr(0x10000 + ((a - 0xD800) << 10) + (ord(s[i + 1]) - 0xDC00)))
            i += 2
        else:
            out.append(s[i])
            i += 1
    return "".join(out)


def float_bits(x: float) -> int:
    return struct.unpack("<Q", struct.pack("<d", x))[0]


def bits_float(b: int) -> float:
    return struct.unpack("<d", struct.pack("<Q", b))[0]


def known_finding(ctx, what, inp, observed, suite):
    """Report a D17 reproduction. Only the first few become failure records (the runner keeps at most 200
    records in total and an unlisted failure must never be crowded out); all are counted."""
    ctx.count("known_finding." + KNOWN_SIG)
    if ctx.distribution["known_finding." + KNOWN_SIG] <= 8:
        ctx.fail(KNOWN_SIG, what, inp, observed, suite=suite)


# ---- real Entry objects <-> protocol form (the canonical comparison form) ------------------------

def _tensor_p(t):
    return {"k": "tensor", "location": cps(t.location), "serializer": cps(t.serializer), "dtype": cps(t.dtype),
            "shape": [str(x) for x in t.shape], "replicated": t.replicated,
            "byte_range": None if t.byte_range is None else [str(x) for x in t.byte_range]}


def _shard_p(s):
    return {"offsets": [str(x) for x in s.offsets], "sizes": [str(x) for x in s.sizes], "tensor": _tensor_p(s.tensor)}


def _nested_p(n):
    return [_nested_p(x) for x in n] if isinstance(n, list) else str(n)


def _key_p(k):
    if isinstance(k, bool):
        return k
    if isinstance(k, int):
        return str(k)
    return cps(k)


def entry_p(e, erase_readable=False):
    from torchsnapshot import manifest as M
    if isinstance(e, M.TensorEntry):
        return _tensor_p(e)
    if isinstance(e, M.ShardedTensorEntry):
        return {"k": "sharded", "shards": [_shard_p(s) for s in e.shards]}
    if isinstance(e, M.ChunkedTensorEntry):
        return {"k": "chunked", "dtype": cps(e.dtype), "shape": [str(x) for x in e.shape],
                "chunks": [_shard_p(s) for s in e.chunks], "replicated": e.replicated}
    if isinstance(e, M.DTensorEntry):
        return {"k": "dtensor", "shards": [_shard_p(s) for s in e.shards], "mesh": _nested_p(e.mesh),
                "dim_map": [[str(x) for x in r] for r in e.dim_map]}
    if isinstance(e, M.ObjectEntry):
        return {"k": "object", "location": cps(e.location), "serializer": cps(e.serializer), "obj_type": cps(e.obj_type),
                "replicated": e.replicated}
    if isinstance(e, M.ListEntry):
        return {"k": "list"}
    if isinstance(e, M.OrderedDictEntry):
        return {"k": "odict", "keys": [_key_p(k) for k in e.keys]}
    if isinstance(e, M.DictEntry):
        return {"k": "dict", "keys": [_key_p(k) for k in e.keys]}
    if isinstance(e, M.PrimitiveEntry):
        return {"k": "prim", "type": e.type, "serialized_value": cps(e.serialized_value), "replicated": e.replicated,
                "readable": None if (erase_readable or e.readable is None) else cps(e.readable)}
    raise TypeError(type(e))


def md_p(md, erase_readable=False):
    return {"version": cps(md.version), "world_size": str(md.world_size),
            "manifest": [[cps(p), entry_p(e, erase_readable)] for p, e in md.manifest.items()]}


def md_strings(md):
    """Every str the document carries."""
    from torchsnapshot import manifest as M
    out = [md.version]
    def tensor(t):
        out.extend([t.location, t.serializer, t.dtype])
    for p, e in md.manifest.items():
        out.append(p)
        if isinstance(e, M.TensorEntry):
            tensor(e)
        elif isinstance(e, (M.ShardedTensorEntry, M.DTensorEntry)):
            for s in e.shards:
                tensor(s.tensor)
        elif isinstance(e, M.ChunkedTensorEntry):
            out.append(e.dtype)
            for s in e.chunks:
                tensor(s.tensor)
        elif isinstance(e, M.ObjectEntry):
            out.extend([e.location, e.serializer, e.obj_type])
        elif isinstance(e, (M.DictEntry, M.OrderedDictEntry)):
            out.extend(k for k in e.keys if isinstance(k, str))
        elif isinstance(e, M.PrimitiveEntry):
            out.append(e.serialized_value)
            if e.readable is not None:
                out.append(e.readable)
    return out


def collapse_p(p):
    """Apply `collapse` to every string of a protocol-form metadata (dict semantics for colliding paths)."""
    def cstr(l):
        return cps(collapse(from_cps(l)))
    def tensor(t):
        return dict(t, location=cstr(t["location"]), serializer=cstr(t["serializer"]), dtype=cstr(t["dtype"]))
    def shard(s):
        return dict(s, tensor=tensor(s["tensor"]))
    def entry(e):
        k = e["k"]
        if k == "tensor":
            return tensor(e)
        if k in ("sharded", "dtensor"):
            return dict(e, shards=[shard(s) for s in e["shards"]])
        if k == "chunked":
            return dict(e, dtype=cstr(e["dtype"]), chunks=[shard(s) for s in e["chunks"]])
        if k == "object":
            return dict(e, location=cstr(e["location"]), serializer=cstr(e["serializer"]), obj_type=cstr(e["obj_type"]))
        if k in ("dict", "odict"):
            return dict(e, keys=[cstr(x) if isinstance(x, list) else x for x in e["keys"]])
        if k == "prim":
            return dict(e, serialized_value=cstr(e["serialized_value"]),
                        readable=None if e["readable"] is None else cstr(e["readable"]))
        return e
    man = {}
    for path, e in p["manifest"]:
        man[tuple(cstr(path))] = entry(e)
    return {"version": cstr(p["version"]), "world_size": p["world_size"], "manifest": [[list(k), v] for k, v in man.items()]}


def canon_p(p):
    """Order-insensitive form of a protocol metadata (Python dict equality ignores insertion order)."""
    return dict(p, manifest=sorted(p["manifest"], key=lambda pe: pe[0]))


def wire_text(md):
    """What `_write_snapshot_metadata` stores and `_read_snapshot_metadata` hands to from_yaml:
    to_yaml().encode("utf-8") ... .decode("utf-8"). Returns (text, None) or (None, exception name)."""
    try:
        return md.to_yaml().encode("utf-8").decode("utf-8"), None
    except Exception as e:
        return None, type(e).__name__


def real_read(text: str):
    """SnapshotMetadata.from_yaml on `text` -> ('ok', protocol form) | ('raise', exception class name)."""
    from torchsnapshot.manifest import SnapshotMetadata
    try:
        md = SnapshotMetadata.from_yaml(text)
    except RecursionError:
        raise
    except Exception as e:
        return ("raise", type(e).__name__)
    try:
        return ("ok", md_p(md))
    except Exception as e:  # accepted, but fields hold values outside the typed domain
        return ("untyped", type(e).__name__)


def json_rejects(text: str) -> bool:
    try:
        json.loads(text)
        return False
    except ValueError:
        return True


def doc_msg(text: str):
    """Driver message field for a document (JSON string when ASCII, else code points)."""
    return {"text": text} if text.isascii() else {"doc": cps(text)}


# --------------------------------------------------------------------------------------
# (a) code-point sweep
# --------------------------------------------------------------------------------------

CONTEXTS = [
    ("alone", "", ""),
    ("ascii", "A", "z"),
    ("after-high", chr(0xD83D), ""),
    ("before-low", "", chr(0xDE00)),
    ("after-nonbmp", chr(0x1F600), ""),
    ("before-backslash-u", "", "\\u0041"),
    ("after-low-before-high", chr(0xDC00), chr(0xD800)),
]


def _string_oracle(ctx: Ctx, s: str, suite: str):
    """json.loads(json.dumps(s)) == s — the string clause of the property, on the codec from_yaml/to_yaml use."""
    back = json.loads(json.dumps(s))
    if back != s:
        if has_adjacent_pair(s) and back == collapse(s):
            known_finding(ctx, "str with a high surrogate immediately followed by a low surrogate is read back as one character",
                          {"kind": "string", "s": cps(s)}, {"read_back": cps(back)}, suite)
        else:
            ctx.fail("string-roundtrip-mismatch", "json.loads(json.dumps(s)) != s", {"kind": "string", "s": cps(s)},
                     {"read_back": cps(back)}, suite=suite)
        return False
    return True


def _sweep(ctx: Ctx):
    BLOCK = 4096
    contexts = CONTEXTS if not ctx.quick else CONTEXTS[:1]
    for name, pre, post in contexts:
        for lo in range(0, 0x110000, BLOCK):
            if ctx.time_left() < 30:
                ctx.notes.append(f"sweep stopped early at context {name} cp {lo:#x}")
                return
            _sweep_block(ctx, name, pre, post, lo, min(lo + BLOCK, 0x110000))
    if ctx.quick:
        # all contexts on the interesting ranges only: C0/ASCII/C1, surrogates, plane boundaries, last block
        for name, pre, post in CONTEXTS[1:]:
            for lo, hi in [(0, 0x300), (0x2000, 0x2100), (0xD700, 0xE100), (0xFF00, 0x10100), (0x1F600, 0x1F700), (0x10FF00, 0x110000)]:
                _sweep_block(ctx, name, pre, post, lo, hi)


def _sweep_block(ctx: Ctx, name, pre, post, lo, hi):
    strs = [pre + chr(c) + post for c in range(lo, hi)]
    bodies = [json.dumps(s)[1:-1] for s in strs]
    # one json.loads call (the reader from_yaml uses) over all of them
    backs = json.loads('["' + '","'.join(bodies) + '"]')
    suite = "sweep_" + name
    expect_diff = {}
    for i, (s, b) in enumerate(zip(strs, backs)):
        if b != s:
            _string_oracle(ctx, s, suite)
            ctx.count("sweep.adjacent_pair")
            expect_diff[i] = {"ok": cps(b)}
    if ctx.driver:
        rep = ctx.driver.call({"op": "json_sweep", "lo": lo, "hi": hi, "pre": cps(pre), "post": cps(post), "expect": "\n".join(bodies)})
        if rep.get("esc_ok") is not True:
            mesc = rep.get("esc", "").split("\n")
            bad = next((i for i in range(len(bodies)) if i >= len(mesc) or mesc[i] != bodies[i]), 0)
            ctx.disagree(suite, {"op": "json_escape", "strs": [cps(strs[bad])]}, bodies[bad],
                         mesc[bad] if bad < len(mesc) else rep)
        mdiff = {i: v for i, v in rep.get("diff", [])}
        if mdiff != expect_diff:
            bad = next(i for i in sorted(set(mdiff) | set(expect_diff)) if mdiff.get(i) != expect_diff.get(i))
            ctx.disagree(suite, {"op": "json_unescape", "bodies": [cps(bodies[bad])]}, {"ok": cps(backs[bad])},
                         mdiff.get(bad, {"ok": cps(strs[bad])}))
    ctx.count("sweep.code_points." + name, hi - lo)
    ctx.case(suite, {"lo": lo, "hi": hi, "pre": cps(pre), "post": cps(post)}, nontrivial=True, key=[name, lo, hi])


def _sweep_documents(ctx: Ctx):
    """Every code point as part of a path and of a str primitive of a real SnapshotMetadata (4096 per document)."""
    from torchsnapshot.manifest import PrimitiveEntry, SnapshotMetadata
    BLOCK = 4096
    for bi, lo in enumerate(range(0, 0x110000, BLOCK)):
        if ctx.time_left() < 25:
            ctx.notes.append(f"document sweep stopped early at cp {lo:#x}")
            return
        # quick: BMP below U+3000, the surrogate blocks, the plane boundaries and every 4th other block
        # (rotating with the seed); thorough: every block
        if ctx.quick and not (lo < 0x3000 or 0xD000 <= lo < 0xE000 or lo in (0xF000, 0x10000, 0x1F000, 0x10F000)
                              or bi % 4 == ctx.seed % 4):
            continue
        man = {}
        for c in range(lo, min(lo + BLOCK, 0x110000)):
            man["p/" + chr(c) + "x"] = PrimitiveEntry.from_object("v" + chr(c))
        md = SnapshotMetadata(version="0.0.1" + chr(lo), world_size=1, manifest=man)
        text, exc = wire_text(md)
        if text is None:
            ctx.fail("metadata-not-writable", "to_yaml().encode('utf-8') raised", {"kind": "sweep-doc", "lo": lo}, {"exception": exc},
                     suite="sweep_documents")
            continue
        try:
            back = SnapshotMetadata.from_yaml(text)
        except Exception as e:
            ctx.fail("metadata-unreadable", "from_yaml(to_yaml(md)) raised", {"kind": "sweep-doc", "lo": lo}, {"exception": type(e).__name__},
                     suite="sweep_documents")
            continue
        if back != md:
            bad = [p for p in man if p not in back.manifest or back.manifest[p] != man[p]]
            ctx.fail("sweep-document-mismatch", "from_yaml(to_yaml(md)) != md for single code points in paths / str values",
                     {"kind": "sweep-doc", "lo": lo, "bad_paths": [cps(p) for p in bad[:5]]}, None, suite="sweep_documents")
        ctx.case("sweep_documents", {"lo": lo, "entries": len(man), "doc_len": len(text)}, nontrivial=True, key=lo)
        ctx.count("sweep.doc_code_points", len(man))


# --------------------------------------------------------------------------------------
# (b) random strings
# --------------------------------------------------------------------------------------

def _rand_cp(rng, allow_surrogates=True):
    k = rng.randrange(13)
    if k == 0:
        return rng.randrange(0x20)                      # C0 controls
    if k == 1:
        return rng.choice([0x22, 0x5c, 0x2f, 0x27])       # quotes, backslash, slash
    if k == 2:
        return rng.choice([0x7e, 0x7f, 0x80, 0x85, 0x9f, 0xa0, 0xff])
    if k == 3:
        return rng.choice([0x2028, 0x2029, 0xfeff, 0xfffe, 0xffff, 0xfffd])
    if k == 4 and allow_surrogates:
        return rng.randrange(0xD800, 0xDC00)             # high surrogate
    if k == 5 and allow_surrogates:
        return rng.randrange(0xDC00, 0xE000)             # low surrogate
    if k == 6:
        return rng.choice([0x10000, 0x1F600, 0x10FFFF, 0x10FFFE, rng.randrange(0x10000, 0x110000)])
    if k == 7:
        return rng.randrange(0x100, 0xD800)
    if k == 8:
        return rng.choice([0x75, 0x55, 0x6e, 0x30, 0x64, 0x44, 0x38])  # 'u','U','n','0','d','D','8' (escape look-alikes)
    if k == 9:
        return rng.randrange(0xE000, 0x10000)
    return rng.randrange(0x20, 0x7f)


def rand_str(rng, maxlen=10, allow_adjacent=False):
    n = rng.choice([0, 1, 1, 2, 3, 5, maxlen])
    out = []
    for _ in range(n):
        c = _rand_cp(rng)
        if not allow_adjacent and out and is_high(out[-1]) and is_low(c):
            c = rng.choice([0x41, 0xD800, 0x1F600])
        out.append(c)
    return from_cps(out)


def rand_adjacent_str(rng):
    """Contains at least one high surrogate immediately followed by a low one (the D17 class)."""
    a = rand_str(rng, 4, allow_adjacent=True)
    b = rand_str(rng, 4, allow_adjacent=True)
    return a + chr(rng.randrange(0xD800, 0xDC00)) + chr(rng.randrange(0xDC00, 0xE000)) + b


_BODY_ALPHABET = [0x5c, 0x5c, 0x5c, 0x75, 0x75, 0x22, 0x2f, 0x62, 0x66, 0x6e, 0x72, 0x74, 0x78, 0x55,
                  0x64, 0x44, 0x38, 0x39, 0x61, 0x41, 0x62, 0x42, 0x63, 0x43, 0x65, 0x45, 0x66, 0x46, 0x30, 0x31, 0x67, 0x47,
                  0x20, 0x7f, 0x1f, 0x0a, 0x00, 0xD83D, 0xDE00, 0x1F600, 0xe9, 0x5f, 0x2b]


def rand_body(rng):
    """Adversarial string body for the scanner (not necessarily in the image of the encoder)."""
    mode = rng.randrange(4)
    if mode == 0:
        return from_cps([rng.choice(_BODY_ALPHABET) for _ in range(rng.randint(0, 14))])
    # structured: a sequence of escapes, some broken
    out = []
    for _ in range(rng.randint(1, 4)):
        k = rng.randrange(8)
        if k <= 3:
            hexd = "0123456789abcdefABCDEF"
            h = rng.choice(["d83d", "D83D", "dbff", "d800", "de00", "DFFF", "dc00", "0041", "007f", "2028", "fffF",
                            "".join(rng.choice(hexd) for _ in range(4))])
            if rng.random() < 0.15:
                h = h[:rng.randrange(4)]                 # truncated
            if rng.random() < 0.1:
                h = h[:2] + rng.choice("gG_ +-x") + h[3:]  # non-hex
            out.append("\\u" + h)
        elif k == 4:
            out.append("\\" + rng.choice('"\\/bfnrt'))
        elif k == 5:
            out.append("\\" + rng.choice("aUx0'v "))
        elif k == 6:
            out.append(chr(rng.choice([0xD83D, 0xDE00, 0x1F600, 0x41, 0x7f, 0x1f, 0x09])))
        else:
            out.append(rng.choice(["\\", "\"", "u", "\\u", "\\ud83d\\u", "\\ud83d\\ud83d\\ude00", "\\ud83d\\n\\ude00"]))
    return "".join(out)


def _strings(ctx: Ctx):
    N = ctx.n(6000, 60000)
    B = 500
    for lo in range(0, N, B):
        if ctx.time_left() < 25:
            ctx.notes.append("random strings stopped early")
            break
        strs = []
        for i in range(B):
            r = ctx.rng.random()
            if r < 0.06:
                s = rand_adjacent_str(ctx.rng)
                ctx.count("strings.adjacent_pair")
            elif r < 0.12:
                # a lone surrogate at every position of a short string
                base = rand_str(ctx.rng, 5)
                base = "".join(ch for ch in base if not (0xD800 <= ord(ch) <= 0xDFFF))
                pos = ctx.rng.randint(0, len(base))
                s = base[:pos] + chr(ctx.rng.randrange(0xD800, 0xE000)) + base[pos:]
                ctx.count("strings.lone_surrogate")
            elif r < 0.15:
                s = rand_str(ctx.rng, 40)
            else:
                s = rand_str(ctx.rng)
            strs.append(s)
        bodies = [json.dumps(s)[1:-1] for s in strs]
        for s in strs:
            _string_oracle(ctx, s, "strings")
            for c in s:
                o = ord(c)
                ctx.count("strings.cp." + ("control" if o < 0x20 else "ascii" if o < 0x7f else "bmp" if o < 0xD800 else
                                           "surrogate" if o < 0xE000 else "bmp" if o < 0x10000 else "nonbmp"))
        adv = [rand_body(ctx.rng) for _ in range(B)]
        impl_un = []
        for b in bodies + adv:
            try:
                v = json.loads('"' + b + '"')
                impl_un.append({"ok": cps(v)} if isinstance(v, str) else {"err": "reject"})
            except ValueError:
                impl_un.append({"err": "reject"})
        if ctx.driver:
            r1, r2 = ctx.driver.call_many([{"op": "json_escape", "strs": [cps(s) for s in strs]},
                                           {"op": "json_unescape", "bodies": [cps(b) for b in bodies + adv]}])
            for s, b, m in zip(strs, bodies, r1.get("out", [])):
                if m != b:
                    ctx.disagree("strings", {"op": "json_escape", "strs": [cps(s)]}, b, m)
                    break
            for b, i, m in zip(bodies + adv, impl_un, r2.get("out", [])):
                m2 = m if "ok" in m else {"err": "reject"}
                if m2 != i:
                    ctx.disagree("strings", {"op": "json_unescape", "bodies": [cps(b)]}, i, m)
                    break
            for i in impl_un[B:]:
                ctx.count("strings.adversarial." + ("accept" if "ok" in i else "reject"))
        for s in strs:
            ctx.case("strings", {"s": cps(s)}, nontrivial=any(not (0x20 <= ord(c) < 0x7f) or c in '"\\' for c in s), key=cps(s))
        for b in adv:
            ctx.case("strings_adversarial", {"body": cps(b)}, nontrivial=len(b) > 0, key=cps(b))


# --------------------------------------------------------------------------------------
# primitives and base64
# --------------------------------------------------------------------------------------

_FLOAT_BITS = [0x0, 0x8000000000000000, 0x7FF0000000000000, 0xFFF0000000000000, 0x7FF8000000000000, 0x7FF8000000000001,
               0xFFF8000000000000, 0x7FF0000000000001, 0x7FFFFFFFFFFFFFFF, 0xFFFFFFFFFFFFFFFF, 0x1, 0x000FFFFFFFFFFFFF,
               0x0010000000000000, 0x7FEFFFFFFFFFFFFF, 0x3FF0000000000000, 0x3FB999999999999A, 0x800FFFFFFFFFFFFF,
               0x7FF4000000000000, 0x7FF00000DEADBEEF]


def rand_float_bits(rng):
    k = rng.randrange(6)
    if k == 0:
        return rng.choice(_FLOAT_BITS)
    if k == 1:   # NaN with random payload and sign
        return (rng.randrange(2) << 63) | (0x7FF << 52) | rng.randrange(1, 1 << 52)
    if k == 2:   # subnormal
        return (rng.randrange(2) << 63) | rng.randrange(1, 1 << 52)
    return rng.getrandbits(64)


def rand_int(rng):
    k = rng.randrange(8)
    if k == 0:
        return rng.choice([0, 1, -1, 9, 10, -10, 2**31, -2**31, 2**63, -2**63 - 1, 2**64, 10**18, 10**19 - 1])
    if k == 1:
        return rng.choice([1, -1]) * rng.getrandbits(rng.choice([70, 128, 500, 1000]))
    if k == 2:
        return rng.choice([1, -1]) * 10 ** rng.randrange(0, 300)
    return rng.randint(-10**6, 10**6)


def rand_bytes(rng):
    n = rng.choice([0, 1, 2, 3, 4, 5, 6, 7, 8, 9, 16, 31, rng.randint(0, 64)])
    m = rng.randrange(3)
    if m == 0:
        return bytes(rng.randrange(256) for _ in range(n))
    if m == 1:
        return bytes(rng.choice([0, 255, 0xfb, 0xff, 0x3e, 0x3f]) for _ in range(n))
    return bytes((i * 37 + 251) % 256 for i in range(n))


def _prim_proto(v):
    if isinstance(v, bool):
        return {"t": "bool", "v": v}
    if isinstance(v, int):
        return {"t": "int", "v": str(v)}
    if isinstance(v, str):
        return {"t": "str", "v": cps(v)}
    if isinstance(v, bytes):
        return {"t": "bytes", "v": list(v)}
    if isinstance(v, float):
        return {"t": "float", "v": str(float_bits(v))}
    raise TypeError(type(v))


def _same_value(a, b):
    if type(a) is not type(b):
        return False
    if isinstance(a, float):
        return float_bits(a) == float_bits(b)
    return a == b


def rand_prim_value(rng, allow_adjacent=False):
    k = rng.randrange(6)
    if k == 0:
        return rand_int(rng)
    if k == 1:
        return rng.random() < 0.5
    if k == 2:
        return rand_adjacent_str(rng) if allow_adjacent and rng.random() < 0.5 else rand_str(rng)
    if k == 3:
        return rand_bytes(rng)
    return bits_float(rand_float_bits(rng))


_EXC_CLASS = {"ValueError": "ValueError", "RuntimeError": "RuntimeError", "Error": "binascii.Error",
              "UnicodeEncodeError": "UnicodeEncodeError", "error": "struct.error"}


def _get_value_obs(e):
    try:
        return _prim_proto(e.get_value())
    except Exception as ex:
        return {"err": _EXC_CLASS.get(type(ex).__name__, type(ex).__name__)}


def _primitives(ctx: Ctx):
    from torchsnapshot.manifest import PrimitiveEntry
    N = ctx.n(3000, 40000)
    vals = [rand_prim_value(ctx.rng) for _ in range(N)]
    # float corpus: every listed bit pattern
    vals += [bits_float(b) for b in _FLOAT_BITS]
    impl = []
    for v in vals:
        try:
            e = PrimitiveEntry.from_object(v)
            back = e.get_value()
        except Exception as ex:
            ctx.fail("primitive-roundtrip-raises", "PrimitiveEntry.from_object(x).get_value() raised",
                     {"kind": "primitive", "val": _prim_proto(v)}, {"exception": type(ex).__name__, "msg": str(ex)[:200]}, suite="primitives")
            impl.append(None)
            continue
        if not _same_value(back, v):
            ctx.fail("primitive-roundtrip-mismatch", "PrimitiveEntry.from_object(x).get_value() != x (bit-exact)",
                     {"kind": "primitive", "val": _prim_proto(v)}, {"serialized": e.serialized_value, "back": _prim_proto(back)},
                     suite="primitives")
        if e.type == "float":
            ctx.count("prim.float." + ("nan" if v != v else "inf" if v in (float("inf"), float("-inf")) else
                                       "zero" if v == 0 else "subnormal" if abs(v) < 2.2250738585072014e-308 else "normal"))
        else:
            ctx.count("prim." + e.type)
        impl.append({"type": e.type, "ser": cps(e.serialized_value), "back": _prim_proto(back)})
        ctx.case("primitives", {"val": _prim_proto(v)}, nontrivial=True, key=_prim_proto(v))
    if ctx.driver:
        B = 400
        for lo in range(0, len(vals), B):
            rep = ctx.driver.call({"op": "primitive", "vals": [_prim_proto(v) for v in vals[lo:lo + B]]})
            for v, i, m in zip(vals[lo:lo + B], impl[lo:lo + B], rep.get("out", [])):
                if i is not None and m != i:
                    ctx.disagree("primitives", {"op": "primitive", "vals": [_prim_proto(v)]}, i, m)
                    break
    # adversarial serialized values through get_value
    adv = []
    b64chars = "ABCDabcd0189+/=" + "=-_ \n!" + chr(0xe9) + chr(0xDC00)
    for _ in range(ctx.n(3000, 30000)):
        t = ctx.rng.choice(["int", "bool", "bytes", "bytes", "float", "float", "str"])
        k = ctx.rng.randrange(4)
        if t == "int":
            s = ctx.rng.choice(["", "0", "-0", "+5", "007", "-", "+", "--1", "1-", "12", "-12", "1_0", " 1", "1 ", "1.0", "0x1", "١٢",
                                "".join(ctx.rng.choice("0123456789+-") for _ in range(ctx.rng.randint(0, 6)))])
        elif t == "bool":
            s = ctx.rng.choice(["True", "False", "true", "false", "", "1", "TRUE", "True ", "Truee"])
        elif t == "str":
            s = rand_str(ctx.rng)
        else:
            if k == 0:
                s = base64.b64encode(rand_bytes(ctx.rng) if t == "bytes" else struct.pack("<Q", rand_float_bits(ctx.rng))).decode()
                if ctx.rng.random() < 0.5 and s:
                    p = ctx.rng.randrange(len(s) + 1)
                    s = s[:p] + ctx.rng.choice(b64chars) + s[p:]
                if ctx.rng.random() < 0.3:
                    s = s.rstrip("=")
            else:
                s = "".join(ctx.rng.choice(b64chars) for _ in range(ctx.rng.randint(0, 14)))
        adv.append((t, s))
    impl = [_get_value_obs(PrimitiveEntry(t, s, False)) for t, s in adv]
    if ctx.driver:
        B = 500
        for lo in range(0, len(adv), B):
            rep = ctx.driver.call({"op": "prim_get", "entries": [{"type": t, "s": cps(s)} for t, s in adv[lo:lo + B]]})
            for (t, s), i, m in zip(adv[lo:lo + B], impl[lo:lo + B], rep.get("out", [])):
                if m == {"err": "outside"}:
                    ctx.count("prim_get.outside_model")
                    continue
                if m != i:
                    ctx.disagree("prim_get", {"op": "prim_get", "entries": [{"type": t, "s": cps(s)}]}, i, m)
                    break
    for (t, s), i in zip(adv, impl):
        ctx.count("prim_get." + t + "." + ("err" if "err" in i else "ok"))
        ctx.case("prim_get", {"type": t, "s": cps(s)}, nontrivial=len(s) > 0, key=[t, cps(s)])
    # base64, bounded-exhaustive: every byte value at every position mod 3, all lengths 0..9
    enc_in = [bytes([b]) for b in range(256)] + [bytes([0, b]) for b in range(256)] + [bytes([255, 1, b]) for b in range(256)]
    enc_in += [bytes((i * 67 + 5) % 256 for i in range(n)) for n in range(0, 10)]
    enc_in += [rand_bytes(ctx.rng) for _ in range(ctx.n(300, 3000))]
    impl_enc = [base64.b64encode(b).decode("utf-8") for b in enc_in]
    for b, e in zip(enc_in, impl_enc):
        if base64.b64decode(bytes(e, "utf-8")) != b:
            ctx.fail("b64-roundtrip-mismatch", "b64decode(b64encode(b)) != b", {"kind": "b64", "bytes": list(b)}, {"enc": e}, suite="b64")
    if ctx.driver:
        B = 500
        for lo in range(0, len(enc_in), B):
            rep = ctx.driver.call({"op": "b64", "enc": [list(b) for b in enc_in[lo:lo + B]],
                                   "dec": [cps(e) for e in impl_enc[lo:lo + B]]})
            for b, e, me, md_ in zip(enc_in[lo:lo + B], impl_enc[lo:lo + B], rep.get("enc", []), rep.get("dec", [])):
                if me != e or md_ != {"ok": list(b)}:
                    ctx.disagree("b64", {"op": "b64", "enc": [list(b)], "dec": [cps(e)]}, {"enc": e, "dec": {"ok": list(b)}},
                                 {"enc": me, "dec": md_})
                    break
    for b in enc_in:
        ctx.case("b64", {"bytes": list(b)}, nontrivial=len(b) > 0, key=list(b))


# --------------------------------------------------------------------------------------
# (c) random manifests
# --------------------------------------------------------------------------------------

_DTYPES = ["torch.float32", "torch.bfloat16", "torch.int64", "torch.qint8"]
_SERIALIZERS = ["torch_save", "buffer_protocol"]


def _rs(rng, adj, plain=None):
    """A string field: mostly plain, sometimes from the edge classes (never an adjacent pair unless `adj`)."""
    if adj and rng.random() < 0.3:
        return rand_adjacent_str(rng)
    if plain is not None and rng.random() < 0.7:
        return rng.choice(plain)
    return rand_str(rng)


def _rints(rng, n=None, big=False):
    n = rng.choice([0, 1, 2, 3]) if n is None else n
    return [rng.choice([0, 1, 2, 7, 128, 2**40, -1] + ([10**25, -(2**70)] if big else [])) for _ in range(n)]


def rand_tensor(rng, adj=False):
    from torchsnapshot.manifest import TensorEntry
    return TensorEntry(location=_rs(rng, adj, ["0/a/b", "replicated/x", "batched/7f", "0/m/w_0_0"]),
                       serializer=_rs(rng, adj, _SERIALIZERS), dtype=_rs(rng, adj, _DTYPES), shape=_rints(rng, big=rng.random() < 0.1),
                       replicated=rng.random() < 0.5,
                       byte_range=None if rng.random() < 0.5 else _rints(rng, rng.choice([2, 2, 2, 0, 3])))


def rand_shard(rng, adj=False):
    from torchsnapshot.manifest import Shard
    d = rng.choice([0, 1, 2])
    return Shard(offsets=_rints(rng, d), sizes=_rints(rng, d), tensor=rand_tensor(rng, adj))


def rand_nested(rng, depth=0):
    if depth >= 3 or rng.random() < 0.4:
        return rng.choice([0, 1, 5, -1, 2**65])
    return [rand_nested(rng, depth + 1) for _ in range(rng.choice([0, 1, 2, 3]))]


def rand_key(rng, adj=False):
    k = rng.randrange(6)
    if k == 0:
        return rand_int(rng)
    if k == 1:
        return rng.random() < 0.5
    return _rs(rng, adj, ["a", "weight", "0", "1", "True", "x/y", "%2F", ""])


def rand_keys(rng, adj=False):
    return [rand_key(rng, adj) for _ in range(rng.choice([0, 1, 2, 4]))]


def rand_entry(rng, adj=False):
    from torchsnapshot import manifest as M
    k = rng.randrange(10)
    if k == 0:
        return rand_tensor(rng, adj)
    if k == 1:
        return M.ShardedTensorEntry(shards=[rand_shard(rng, adj) for _ in range(rng.choice([0, 1, 2, 3]))])
    if k == 2:
        return M.ChunkedTensorEntry(dtype=_rs(rng, adj, _DTYPES), shape=_rints(rng), chunks=[rand_shard(rng, adj) for _ in range(rng.choice([0, 1, 2]))],
                                    replicated=rng.random() < 0.5)
    if k == 3:
        mesh = rand_nested(rng)
        return M.DTensorEntry(shards=[rand_shard(rng, adj) for _ in range(rng.choice([0, 1, 2]))], mesh=mesh,
                              dim_map=[_rints(rng) for _ in range(rng.choice([0, 1, 2]))])
    if k == 4:
        return M.ObjectEntry(location=_rs(rng, adj, ["0/obj", "replicated/o"]), serializer=_rs(rng, adj, _SERIALIZERS),
                             obj_type=_rs(rng, adj, ["builtins.set", "collections.Counter"]), replicated=rng.random() < 0.5)
    if k == 5:
        return M.ListEntry()
    if k == 6:
        return M.DictEntry(keys=rand_keys(rng, adj))
    if k == 7:
        return M.OrderedDictEntry(keys=rand_keys(rng, adj))
    e = M.PrimitiveEntry.from_object(rand_prim_value(rng, allow_adjacent=adj))
    if rng.random() < 0.3:
        e.replicated = True
    return e


def rand_path(rng, adj=False):
    comps = ["0", "1", "replicated", "model", "optim", "state", "w", "%2F", "a b", "", ".", ".."]
    n = rng.choice([1, 2, 3, 4])
    parts = [rng.choice(comps) if rng.random() < 0.7 else rand_str(rng, 6).replace("/", "%2F") for _ in range(n)]
    if adj and rng.random() < 0.5:
        parts.append(rand_adjacent_str(rng))
    return "/".join(parts)


def rand_metadata(rng, adj=False, max_entries=12):
    from torchsnapshot.manifest import SnapshotMetadata
    n = rng.choice([0, 1, 2, 3, 5, 8, max_entries])
    man = {}
    for _ in range(n):
        p = rand_path(rng, adj)
        if rng.random() < 0.03:
            p = "k" * rng.choice([1024, 1025, 3000])        # a path over libyaml's 1024-char simple-key limit
        man[p] = rand_entry(rng, adj)
    return SnapshotMetadata(version=_rs(rng, adj, ["0.1.0", "0.0.3"]), world_size=rng.choice([1, 2, 8, 4096, 2**70]), manifest=man)


def _kind(e):
    return entry_p(e)["k"] + ("." + e.type if entry_p(e)["k"] == "prim" else "")


def check_metadata(ctx: Ctx, md, suite: str, prefixes: str = "none"):
    """All C14 checks for one real SnapshotMetadata: printer tie, read-back oracle, reader tie, truncations."""
    from torchsnapshot.manifest import PrimitiveEntry, SnapshotMetadata
    inp = {"kind": "metadata", "md": md_p(md)}
    text, exc = wire_text(md)
    if text is None:
        ctx.fail("metadata-not-writable", "to_yaml().encode('utf-8') raised", inp, {"exception": exc}, suite=suite)
        ctx.case(suite, {"n": len(md.manifest)}, nontrivial=True, key=inp["md"])
        return
    want = md_p(md, erase_readable=True)
    strings = md_strings(md)
    adjacent = any(has_adjacent_pair(s) for s in strings)
    # ---- oracle: from_yaml(to_yaml(md)) == md modulo readable ------------------------------------
    kind, got = real_read(text)
    if kind != "ok":
        ctx.fail("metadata-unreadable", "from_yaml(to_yaml(md)) raised", inp, {"exception": got}, suite=suite)
    elif canon_p(got) != canon_p(want):
        if adjacent and canon_p(got) == canon_p(collapse_p(want)):
            known_finding(ctx, "str with a high surrogate immediately followed by a low surrogate is read back as one character",
                          inp, {"first_string": next(cps(s) for s in strings if has_adjacent_pair(s))}, suite)
        else:
            diff = [p for (p, e) in want["manifest"] if [p, e] not in got["manifest"]]
            ctx.fail("metadata-roundtrip-mismatch", "from_yaml(to_yaml(md)) != md (modulo readable)", inp,
                     {"version_ok": got["version"] == want["version"], "world_size_ok": got["world_size"] == want["world_size"],
                      "differing_paths": diff[:5], "n_read": len(got["manifest"]), "n_written": len(want["manifest"])}, suite=suite)
    elif kind == "ok":
        # get_value of every primitive read back equals get_value of the one written, bit for bit
        back = SnapshotMetadata.from_yaml(text)
        for p, e in md.manifest.items():
            if isinstance(e, PrimitiveEntry):
                try:
                    a, b = e.get_value(), back.manifest[p].get_value()
                except Exception as ex:
                    ctx.fail("primitive-get-value-raises", "get_value raised on a primitive read back", inp, {"path": cps(p), "exc": repr(ex)}, suite=suite)
                    continue
                if not _same_value(a, b):
                    ctx.fail("primitive-value-changed", "get_value() of a primitive changed across to_yaml/from_yaml", inp,
                             {"path": cps(p)}, suite=suite)
    # ---- correspondence: printer and reader ----------------------------------------------------------
    if ctx.driver:
        r1, r2 = ctx.driver.call_many([{"op": "metadata_print", "md": inp["md"]}, dict(op="metadata_read", **doc_msg(text))])
        if r1.get("text") != text:
            ctx.disagree(suite + ":print", inp, _first_diff(text, r1.get("text")), r1 if "error" in r1 else None)
        impl_read = {"ok": got} if kind == "ok" else {"err": "reject"}
        if r2 != impl_read:
            ctx.disagree(suite + ":read", {"kind": "document", "text": text}, impl_read, r2)
    # ---- truncations ---------------------------------------------------------------------------------------
    if prefixes != "none":
        n = len(text)
        cuts = list(range(n)) if prefixes == "all" else sorted(set(
            [0, 1, 2, n - 1, n - 2, n - 3] + [ctx.rng.randrange(n) for _ in range(40)]) & set(range(n)))
        accepted = []
        for k in cuts:
            rk, rv = real_read(text[:k])
            if rk != "raise":
                accepted.append(k)
        if accepted:
            ctx.fail("strict-prefix-accepted", "from_yaml accepted a strict prefix of to_yaml(md)", dict(inp, cut=accepted[0]),
                     {"accepted_cuts": accepted[:10], "doc_len": n}, suite=suite)
        if ctx.driver:
            rep = ctx.driver.call(dict(op="metadata_prefix", cuts=cuts, **doc_msg(text)))
            res = rep.get("res", "")
            if res != "e" * len(cuts):
                bad = next((cuts[i] for i in range(min(len(res), len(cuts))) if res[i] != "e"), None)
                ctx.disagree(suite + ":prefix", {"kind": "document-prefix", "text": text, "cut": bad},
                             "raise" if bad not in accepted else "accepted", rep if "error" in rep else res[:200])
        ctx.count("prefix.cuts", len(cuts))
    for e in md.manifest.values():
        ctx.count("entry." + _kind(e))
    ctx.count("manifest.size." + ("0" if not md.manifest else "1-3" if len(md.manifest) <= 3 else "4+"))
    if adjacent:
        ctx.count("manifest.with_adjacent_pair")
    ctx.case(suite, {"paths": [cps(p) for p in list(md.manifest)[:3]], "n": len(md.manifest), "doc_len": len(text)},
             nontrivial=len(md.manifest) > 0, key=inp["md"])


def _first_diff(a, b):
    if not isinstance(b, str):
        return {"impl_len": len(a), "model": None}
    i = next((i for i in range(min(len(a), len(b))) if a[i] != b[i]), min(len(a), len(b)))
    return {"at": i, "impl": a[max(0, i - 30):i + 30], "model": b[max(0, i - 30):i + 30], "impl_len": len(a), "model_len": len(b)}


def _corpus_metadata():
    """Minimised past failures / the D10 and D17 replays, built from real classes."""
    from torchsnapshot import manifest as M
    P = M.PrimitiveEntry.from_object
    out = []
    out.append(("d10-nonbmp", M.SnapshotMetadata("0.1.0", 1, {"0/" + chr(0x1F600): P("x" + chr(0x1F600)), "0/s": P(chr(0xD800))})))
    out.append(("d10-longkey", M.SnapshotMetadata("0.1.0", 1, {"0/" + "k" * 1100: M.ListEntry()})))
    out.append(("controls", M.SnapshotMetadata("0.1.0", 2, {"0/a\n\"\\" + chr(0x2028) + chr(0x7f) + chr(0): M.DictEntry(keys=["\t", 1, True, -2**80, ""])})))
    out.append(("floats", M.SnapshotMetadata("v", 1, {f"0/f{i}": P(bits_float(b)) for i, b in enumerate(_FLOAT_BITS)})))
    out.append(("bool-vs-int-keys", M.SnapshotMetadata("v", 1, {"0/d": M.DictEntry(keys=[True, 1, "1", "True", False, 0]),
                                                                  "0/o": M.OrderedDictEntry(keys=[])})))
    t = M.TensorEntry("loc", "buffer_protocol", "torch.float32", [2, 3], False, [0, 24])
    out.append(("tensors", M.SnapshotMetadata("v", 4, {
        "0/t": t, "0/t2": M.TensorEntry("l", "torch_save", "torch.int8", [], True, None),
        "0/s": M.ShardedTensorEntry([M.Shard([0, 0], [1, 3], t), M.Shard([1, 0], [1, 3], t)]),
        "0/c": M.ChunkedTensorEntry("torch.float32", [2, 3], [M.Shard([0, 0], [2, 3], t)], True),
        "0/d": M.DTensorEntry([M.Shard([0], [6], t)], [[0, 1], [2, 3]], [[0], [-1]]),
        "0/d0": M.DTensorEntry([], 3, []),
        "0/o": M.ObjectEntry("l", "torch_save", "builtins.set", False), "0/l": M.ListEntry(),
        "0/b": P(b"\x00\xff\xfe"), "0/i": P(-10**40), "0/bo": P(False), "0/e": P(""), "0/by": P(b"")})))
    return out


def _corpus_d17():
    from torchsnapshot import manifest as M
    P = M.PrimitiveEntry.from_object
    pair = chr(0xD83D) + chr(0xDE00)
    return [("d17-value", M.SnapshotMetadata("0.1.0", 1, {"0/s": P(pair)})),
            ("d17-path-collision", M.SnapshotMetadata("0.1.0", 1, {"0/" + pair: P(1), "0/" + chr(0x1F600): P(2)})),
            ("d17-key", M.SnapshotMetadata("0.1.0", 1, {"0/d": M.DictEntry(keys=[pair, "x"])}))]


def _manifests(ctx: Ctx):
    for name, md in _corpus_metadata():
        check_metadata(ctx, md, "manifest_corpus", prefixes="all" if len(wire_text(md)[0] or "") < 2500 else "sample")
    for name, md in _corpus_d17():
        check_metadata(ctx, md, "manifest_d17", prefixes="all")
    N = ctx.n(300, 3000)
    all_budget = ctx.n(20, 250)          # documents whose every truncation point is tried
    for i in range(N):
        if ctx.time_left() < 20:
            ctx.notes.append(f"random manifests stopped early at {i}")
            break
        md = rand_metadata(ctx.rng, adj=False, max_entries=ctx.rng.choice([12, 12, 40]))
        n = len(wire_text(md)[0] or "")
        if all_budget > 0 and n <= ctx.n(2000, 12000):
            all_budget -= 1
            mode = "all"
        else:
            mode = "sample"
        check_metadata(ctx, md, "manifest_random", prefixes=mode)
    for i in range(ctx.n(25, 250)):
        if ctx.time_left() < 15:
            break
        check_metadata(ctx, rand_metadata(ctx.rng, adj=True, max_entries=6), "manifest_d17", prefixes="sample")


# --------------------------------------------------------------------------------------
# adversarial documents
# --------------------------------------------------------------------------------------

def _value_p(v):
    """json.loads result -> the driver's value form; raises on floats (outside the model)."""
    if v is None or isinstance(v, bool):
        return v
    if isinstance(v, int):
        return {"i": str(v)}
    if isinstance(v, str):
        return {"s": cps(v)}
    if isinstance(v, list):
        return [_value_p(x) for x in v]
    if isinstance(v, dict):
        return {"o": [[cps(k), _value_p(x)] for k, x in v.items()]}
    raise TypeError("float")


_TOKENS = ["{", "}", "[", "]", ",", ":", " ", "\n", "\t", "\r", "\"a\"", "\"\"", "\"k\"", "\"a\"", "0", "1", "-1", "12", "-0", "01", "-", "1.5", "1e5", "1E+2", "1.", "1e",
           "true", "false", "null", "tru", "nul", "NaN", "Infinity", "-Infinity", "\"\\ud83d\\ude00\"", "\"\\u00e9\"", "\"\\x\"", "\"", "'a'", chr(0xfeff),
           "\"" + chr(0x1F600) + "\"", "\x0c", "/", "123456789012345678901234567890"]


def rand_json_text(rng):
    k = rng.randrange(3)
    if k == 0:
        return "".join(rng.choice(_TOKENS) for _ in range(rng.randint(1, 9)))
    # a valid document, then damaged
    def val(d):
        r = rng.randrange(8)
        if d > 2 or r < 3:
            return rng.choice([None, True, False, 0, -5, 10**30, "s", "", chr(0x1F600), "\n"])
        if r < 5:
            return [val(d + 1) for _ in range(rng.randint(0, 3))]
        return {rng.choice(["a", "b", "", "a"]): val(d + 1) for _ in range(rng.randint(0, 3))}
    text = json.dumps(val(0), indent=rng.choice([None, 2, 0]), ensure_ascii=rng.random() < 0.7)
    if k == 1:
        return rng.choice(["", " ", "\n\t"]) + text + rng.choice(["", " ", "\r\n"])
    ops = rng.randint(1, 2)
    for _ in range(ops):
        p = rng.randrange(len(text) + 1)
        m = rng.randrange(3)
        if m == 0 and text:
            text = text[:p] + text[p + 1:]
        elif m == 1:
            text = text[:p] + rng.choice(_TOKENS) + text[p:]
        else:
            text = text[:p] + rng.choice([",", "\"a\": 1, \"a\": 2", "}", "]", " "]) + text[p:]
    return text


def _json_texts(ctx: Ctx):
    N = ctx.n(4000, 40000)
    B = 500
    for lo in range(0, N, B):
        if ctx.time_left() < 15:
            ctx.notes.append("json texts stopped early")
            break
        texts = [rand_json_text(ctx.rng) for _ in range(B)]
        impl = []
        for t in texts:
            try:
                v = json.loads(t)
                try:
                    impl.append({"ok": _value_p(v)})
                except TypeError:
                    impl.append({"err": "float"})
            except ValueError:
                impl.append({"err": "reject"})
        if ctx.driver:
            rep = ctx.driver.call({"op": "json_parse", "docs": [cps(t) for t in texts]})
            for t, i, m in zip(texts, impl, rep.get("out", [])):
                if m.get("err") == "float" or i.get("err") == "float":
                    # floats are outside the model: the model must not *accept* such a text, nothing else is compared
                    if "ok" in m:
                        ctx.disagree("json_texts", {"op": "json_parse", "docs": [cps(t)]}, i, m)
                        break
                    ctx.count("json.float_outside_model")
                    continue
                m2 = m if "ok" in m else {"err": "reject"}
                if m2 != i:
                    ctx.disagree("json_texts", {"op": "json_parse", "docs": [cps(t)]}, i, m)
                    break
        for t, i in zip(texts, impl):
            ctx.count("json." + ("accept" if "ok" in i else i["err"]))
            ctx.case("json_texts", {"text": t[:80]}, nontrivial=len(t) > 1, key=t)


def _mutate_doc(rng, d):
    """Structural mutations of asdict(md) (a plain dict tree) before dumping."""
    import copy
    d = copy.deepcopy(d)
    entries = list(d.get("manifest", {}).items())
    target = rng.randrange(6)
    if target == 0 or not entries:
        k = rng.randrange(5)
        if k == 0:
            d.pop(rng.choice(list(d)), None)
        elif k == 1:
            d["extra"] = 1
        elif k == 2:
            d["manifest"] = rng.choice([[], None, "x", 3])
        elif k == 3:
            d = rng.choice([[], None, "x", 3, [d]])
        else:
            d = {k2: d[k2] for k2 in reversed(list(d))}      # key order must not matter
        return d
    path, e = rng.choice(entries)
    k = rng.randrange(9)
    def shard_lists(e):
        return [e[x] for x in ("shards", "chunks") if isinstance(e.get(x), list) and e[x]]
    if k == 0 and len(e) > 1:
        e.pop(rng.choice(list(e)))                            # drop a field (maybe `type`)
    elif k == 1:
        e[rng.choice(["extra", "readable_value", "location", "keys", "byte_range"])] = rng.choice([None, "r", [1]])
    elif k == 2:
        e["type"] = rng.choice(["list", "dict", "Tensor", "tensor", "int", "float", "object", "DTensor", "ShardedTensor", "", "List", 5, None, ["list"]])
    elif k == 3 and shard_lists(e):
        s = rng.choice(rng.choice(shard_lists(e)))
        m = rng.randrange(4)
        if m == 0:
            s.pop(rng.choice(list(s)))
        elif m == 1:
            s["extra"] = 0
        elif m == 2 and isinstance(s.get("tensor"), dict):
            s["tensor"].pop(rng.choice(list(s["tensor"])))
        else:
            s["tensor"] = rng.choice([None, [], "t", {}])
    elif k == 4:
        d["manifest"][path] = rng.choice([None, [], "x", 1, {}])
    elif k == 5:
        items = list(e.items())
        rng.shuffle(items)
        d["manifest"][path] = dict(items)                     # field order must not matter
    elif k == 6 and "byte_range" in e:
        e.pop("byte_range")                                   # has a default
    elif k == 7 and "type" in e and "location" in e and "dtype" in e:
        e.pop("type")
        d["manifest"][path] = e
    else:
        f = rng.choice(list(e))
        e[f] = rng.choice([None, 1, "s", [], True])            # ill-typed field: outside the model
    return d


def _mutated_documents(ctx: Ctx):
    from dataclasses import asdict
    N = ctx.n(600, 6000)
    for i in range(N):
        if ctx.time_left() < 12:
            ctx.notes.append("mutated documents stopped early")
            break
        md = rand_metadata(ctx.rng, adj=False, max_entries=5)
        d = _mutate_doc(ctx.rng, asdict(md))
        if ctx.rng.random() < 0.15:
            text = json.dumps(d, indent=2).replace('"type": ', '"type": "list", "type": ', 1)   # duplicate key: last wins
        else:
            text = json.dumps(d, indent=ctx.rng.choice([2, 2, None]))
        kind, got = real_read(text)
        impl = {"ok": got} if kind == "ok" else {"err": "outside"} if kind == "untyped" else {"err": "reject"}
        ctx.count("mutated." + kind)
        if ctx.driver:
            m = ctx.driver.call(dict(op="metadata_read", **doc_msg(text)))
            if m.get("err") == "outside":
                ctx.count("mutated.outside_model")
            elif impl.get("err") == "outside":
                ctx.disagree("mutated_documents", {"kind": "document", "text": text}, impl, m)
            else:
                m2 = m if "ok" in m else {"err": "reject"}
                if m2 != impl:
                    ctx.disagree("mutated_documents", {"kind": "document", "text": text}, impl, m)
        ctx.case("mutated_documents", {"text": text[:120]}, nontrivial=True, key=text)


# --------------------------------------------------------------------------------------
# real take -> Snapshot(path).metadata
# --------------------------------------------------------------------------------------

def _take(ctx: Ctx):
    import torch
    from torchsnapshot import Snapshot, StateDict
    root = os.path.join(OUT_DIR, f"c14_take_{os.getpid()}")
    shutil.rmtree(root, ignore_errors=True)
    try:
        for i in range(ctx.n(6, 40)):
            if ctx.time_left() < 10:
                break
            # strings only where no file name is derived from them: dict keys of primitives, str/bytes/float values
            sd = {"t": torch.arange(6, dtype=torch.float32).reshape(2, 3), "lst": [1, "two", 3.5, b"\x00\xff"]}
            vals = {}
            for _ in range(ctx.rng.randint(1, 6)):
                k = rand_key(ctx.rng)
                if isinstance(k, str) and ("/" in k or k in ("", ".", "..")):
                    k = "k" + k.replace("/", "_")
                if any(str(k) == str(k2) for k2 in vals):
                    continue
                vals[k] = rand_prim_value(ctx.rng)
            sd["vals"] = vals
            app = {"app": StateDict(**sd)}
            # every other snapshot goes to one rolling location (old snapshot deleted, new one taken at the same path):
            # whatever the process remembers about a path must not outlive the snapshot that was there (seed C14-H)
            path = os.path.join(root, "latest" if i % 2 else str(i))
            shutil.rmtree(path, ignore_errors=True)
            ctx.count("take.rolling_path" if i % 2 else "take.fresh_path")
            inp = {"kind": "take", "rolling": bool(i % 2), "keys": [_key_p(k) for k in vals], "vals": [_prim_proto(v) for v in vals.values()]}
            try:
                snap = Snapshot.take(path, app)
                written = snap.metadata
                read = Snapshot(path).metadata
            except Exception as e:
                ctx.fail("take-or-read-raises", "Snapshot.take / Snapshot(path).metadata raised on primitives-only state", inp,
                         {"exception": type(e).__name__, "msg": str(e)[:200]}, suite="take")
                ctx.case("take", inp, nontrivial=True, key=inp)
                continue
            if canon_p(md_p(read)) != canon_p(md_p(written, erase_readable=True)):
                adj = any(has_adjacent_pair(s) for s in md_strings(written))
                if adj and canon_p(md_p(read)) == canon_p(collapse_p(md_p(written, erase_readable=True))):
                    known_finding(ctx, "Snapshot(path).metadata joined an adjacent surrogate pair", inp, None, "take")
                else:
                    ctx.fail("take-metadata-mismatch", "Snapshot(path).metadata differs from the metadata take() committed",
                             inp, None, suite="take")
            # and the values come back through restore
            out = {"app": StateDict(t=torch.zeros(2, 3), lst=[0, "", 0.0, b""], vals={k: None for k in vals})}
            try:
                Snapshot(path).restore(out)
            except Exception as e:
                ctx.fail("take-or-read-raises", "restore raised on primitives-only state", inp,
                         {"exception": type(e).__name__, "msg": str(e)[:200]}, suite="take")
                continue
            for k, v in vals.items():
                if not _same_value(out["app"]["vals"][k], v):
                    ctx.fail("take-restore-primitive-mismatch", "a primitive restored from the snapshot differs from the saved one",
                             dict(inp, key=_key_p(k)), None, suite="take")
            check_metadata(ctx, written, "take", prefixes="sample")
    finally:
        shutil.rmtree(root, ignore_errors=True)


# --------------------------------------------------------------------------------------

def run(ctx: Ctx):
    import time
    # the tier budget is meant for the work after the Lean build: on a loaded machine the build/audit alone can
    # eat the runner's deadline and every suite would stop early, so give the suites their share from now
    if not os.environ.get("VERIF_BUDGET_S"):
        ctx.deadline = max(ctx.deadline, time.time() + (95 if ctx.quick else 850))
    # corpus (minimised past failures, D10/D17 replays) runs first, inside _manifests
    for fn in (_manifests, _sweep, _sweep_documents, _primitives, _strings, _json_texts, _mutated_documents, _take):
        t0 = time.time()
        fn(ctx)
        ctx.notes.append(f"{fn.__name__}: {time.time() - t0:.1f}s")


def _md_from_p(p):
    """protocol form -> real SnapshotMetadata (for replay)."""
    from torchsnapshot import manifest as M
    def ints(l):
        return [int(x) for x in l]
    def tensor(t):
        return M.TensorEntry(from_cps(t["location"]), from_cps(t["serializer"]), from_cps(t["dtype"]), ints(t["shape"]),
                             t["replicated"], None if t["byte_range"] is None else ints(t["byte_range"]))
    def shard(s):
        return M.Shard(ints(s["offsets"]), ints(s["sizes"]), tensor(s["tensor"]))
    def nested(n):
        return [nested(x) for x in n] if isinstance(n, list) else int(n)
    def key(k):
        return k if isinstance(k, bool) else from_cps(k) if isinstance(k, list) else int(k)
    def entry(e):
        k = e["k"]
        if k == "tensor":
            return tensor(e)
        if k == "sharded":
            return M.ShardedTensorEntry([shard(s) for s in e["shards"]])
        if k == "chunked":
            return M.ChunkedTensorEntry(from_cps(e["dtype"]), ints(e["shape"]), [shard(s) for s in e["chunks"]], e["replicated"])
        if k == "dtensor":
            return M.DTensorEntry([shard(s) for s in e["shards"]], nested(e["mesh"]), [ints(r) for r in e["dim_map"]])
        if k == "object":
            return M.ObjectEntry(from_cps(e["location"]), from_cps(e["serializer"]), from_cps(e["obj_type"]), e["replicated"])
        if k == "list":
            return M.ListEntry()
        if k == "dict":
            return M.DictEntry([key(x) for x in e["keys"]])
        if k == "odict":
            return M.OrderedDictEntry([key(x) for x in e["keys"]])
        return M.PrimitiveEntry(e["type"], from_cps(e["serialized_value"]), e["replicated"],
                                None if e["readable"] is None else from_cps(e["readable"]))
    return M.SnapshotMetadata(from_cps(p["version"]), int(p["world_size"]), {from_cps(a): entry(b) for a, b in p["manifest"]})


def replay(ctx: Ctx, rec):
    """Re-run a recorded failing input on the implementation and the model."""
    from torchsnapshot.manifest import PrimitiveEntry
    inp = rec["input"]
    kind = inp.get("kind")
    if kind == "string":
        s = from_cps(inp["s"])
        print("json.dumps :", json.dumps(s))
        print("read back  :", cps(json.loads(json.dumps(s))), "expected", inp["s"])
        if ctx.driver:
            print("model      :", ctx.driver.call({"op": "json_escape", "strs": [inp["s"]]}),
                  ctx.driver.call({"op": "json_unescape", "bodies": [cps(json.dumps(s)[1:-1])]}))
        _string_oracle(ctx, s, "replay")
    elif kind == "metadata":
        md = _md_from_p(inp["md"])
        text = md.to_yaml()
        print("to_yaml    :", text if len(text) < 3000 else text[:3000] + "...")
        print("from_yaml  :", real_read(text if "cut" not in inp else text[:inp["cut"]]))
        if ctx.driver:
            print("model print == impl:", ctx.driver.call({"op": "metadata_print", "md": inp["md"]}).get("text") == text)
            print("model read :", ctx.driver.call(dict(op="metadata_read", **doc_msg(text if "cut" not in inp else text[:inp["cut"]]))))
        check_metadata(ctx, md, "replay", prefixes="all" if len(text) < 6000 else "sample")
    elif kind == "primitive":
        v = inp["val"]
        x = {"int": lambda: int(v["v"]), "str": lambda: from_cps(v["v"]), "bool": lambda: v["v"], "bytes": lambda: bytes(v["v"]),
             "float": lambda: bits_float(int(v["v"]))}[v["t"]]()
        e = PrimitiveEntry.from_object(x)
        back = e.get_value()
        print("serialized :", e.serialized_value, " back:", _prim_proto(back), " expected:", v)
        if ctx.driver:
            print("model      :", ctx.driver.call({"op": "primitive", "vals": [v]}))
        if not _same_value(back, x):
            ctx.fail(rec.get("signature", "primitive-roundtrip-mismatch"), "replayed", inp, {"back": _prim_proto(back)})
    elif kind == "b64":
        b = bytes(inp["bytes"])
        e = base64.b64encode(b).decode()
        print("b64        :", e, list(base64.b64decode(e)))
        if base64.b64decode(e) != b:
            ctx.fail(rec.get("signature", "b64-roundtrip-mismatch"), "replayed", inp, None)
    elif kind in ("document", "document-prefix"):
        text = inp["text"] if "cut" not in inp or inp["cut"] is None else inp["text"][:inp["cut"]]
        print("from_yaml  :", real_read(text))
        if ctx.driver:
            print("model read :", ctx.driver.call(dict(op="metadata_read", **doc_msg(text))))
    else:
        print("input:", json.dumps(inp)[:2000])
        if ctx.driver and "op" in inp:
            print("model:", ctx.driver.call(inp))


LEVEL_TEXT = ("Lean 4 theorems, unbounded in string length, byte-string length, integer magnitude, manifest size and nesting: "
              "json.loads' string scanner inverts json.dumps' ASCII encoder on every code-point string without an adjacent "
              "high+low surrogate pair (the pair case is a proved counterexample, D17); base64 decode inverts encode; "
              "PrimitiveEntry.get_value inverts from_object for int/str/bool/bytes/all 2^64 float bit patterns; every entry kind "
              "survives asdict -> from_yaml_obj modulo `readable`; the reader inverts the indent=2 printer on every "
              "SnapshotMetadata; every strict prefix of the printed document makes the reader hit end-of-input. The model is "
              "tied to the real to_yaml/from_yaml/PrimitiveEntry by differential runs (all 0x110000 code points, random "
              "manifests byte-for-byte, every truncation point) on every check; the property oracle is also evaluated on the real code.")
LEVEL_NOTE = ("Trusted: Lean kernel (+propext, Classical.choice, Quot.sound), the hand models lean/TsModel/{Json,Primitive,Entry}.lean, "
              "the harness; CPython's json/base64/struct are modelled from source and sampled, the libyaml fallback is not modelled "
              "(its rejection of truncated documents is sampled per document).")
TECHNIQUE = "Lean 4 proof over executable model + differential correspondence with the real serializer/reader"
