"""C03 — A failed write never yields a committed snapshot, and the failure is reported."""
from __future__ import annotations

import random

import commitlib as cl
import detsim
from common import Ctx

PROP = "C03"
LEAN_MODULE = "TsProofs.Properties.C03"
THEOREMS = [
    "Ts.Commit.C03_payload_fault_no_commit",
    "Ts.Commit.C03_fault_reported_sync",
    "Ts.Commit.C03_fault_reported_async",
    "Ts.Commit.C03_no_false_success",
    "Ts.Commit.C03_no_fault_no_failure",
]
BUDGET_S = (150, 900)
RULE = ("Fault injection = the k-th storage write issued by rank r raises (payload) or rank 0's .snapshot_metadata write raises. "
        "Bounded-exhaustive: for fixed small workloads (W=2: writes [2,2] and [1,3]; W=3: [1,2,2]; thorough also W=4 and W=1) "
        "EVERY fault position (r,k) and the metadata fault, for Snapshot.take and for async_take+wait, each under several "
        "schedules (seeded + adversarial rank priorities; thorough: budgeted schedule DFS for W=2); plus a random stream "
        "(W in 1..4, 1-3 writes per rank, batching on/off). The real code runs under harness/detsim.py. Correspondence: the "
        "linearised history is replayed in the Lean model (fault plan = the writes that were observed to raise): every event "
        "must be the model's step, outcomes agree — including which ranks are left blocked in a barrier after a sync failure — "
        "and no model step is left enabled. Oracle on the real history: after a payload fault the metadata write is never "
        "begun; after any fault no metadata object exists, no rank reports success, take raises on the failing rank (sync) / "
        "wait() raises on every rank and nothing deadlocks (async). Non-trivial: a fault was injected and fired.")
TRUSTED = ["harness/detsim.py (deterministic scheduler, gated storage/process group/store, fault injection at the end gate of a write)"]
ASSUMPTIONS = ["a failing write surfaces as an exception of StoragePlugin.write (what scheduler.py's task-result retrieval propagates)",
               "sync take: ranks that did not fail stay blocked in the barrier (the property only demands the exception on the failing rank)",
               "async: failures that surface while async_take is still staging in the foreground (memory budget smaller than the "
               "workload) make async_take itself raise on that rank; peers then wait for the 1800 s barrier timeout — outside the "
               "model (timeouts), observed and counted by the 'foreground' suite, not compared",
               "async half: barrier ids of different attempts are distinct (C13)"]
LEVEL_TEXT = ("Lean 4 theorems for every world size, workload, fault plan (any set of failing payload writes, failing metadata write) "
              "and schedule, for Snapshot.take and async_take: a planned payload fault means the metadata write is never begun; the "
              "failing rank's take never returns normally, never enters the commit barrier and is never blocked before raising; a "
              "metadata fault makes rank 0 raise and no rank return; in the async protocol any fault means no wait() succeeds, "
              "nothing is committed, no deadlock, and every finished rank raised; success on any rank implies the metadata write "
              "returned; without planned faults nothing fails. Tied to the real code by replaying deterministic-scheduler histories "
              "with injected faults in the Lean driver; the oracle is evaluated on the same histories and on the final storage.")
LEVEL_NOTE = ("Trusted: Lean kernel (+propext, Classical.choice, Quot.sound), lean/TsModel/{Barrier,Commit}.lean, harness/detsim.py. "
              "'Raises rather than hangs' is proved as absence of deadlock; timeouts are not modelled.")
TECHNIQUE = "Lean 4 invariant proof over an executable transition system with fault plans + trace-acceptance correspondence under fault injection"

WORKLOADS = {
    2: [[[2], [2]], [[1, 1], [2, 1]], [[1], [2, 1, 1]]],
    3: [[[1], [2, 1], [1, 2]]],
}
CORPUS = [
    # D6 (sync): metadata write fails, rank 1 eager: without the second barrier rank 1 returned success
    {"W": 2, "rounds": [{"mode": "sync", "path": "/snap/A", "spec": {"tensors": [[2], [2]], "seed": 1, "nobatch": True},
                         "faults": [[0, "meta"]], "chooser": {"kind": "prio", "order": [1, 0]}}]},
    {"W": 3, "rounds": [{"mode": "async", "path": "/snap/A", "spec": {"tensors": [[1], [2, 1], [1]], "seed": 1, "nobatch": True},
                         "faults": [[2, 0]], "chooser": {"kind": "prio", "order": [0, 1, 2]}}]},
]


def choosers(rng: random.Random, W: int, k: int):
    out = [{"kind": "prio", "order": list(range(W))}, {"kind": "prio", "order": list(reversed(range(W)))}]
    while len(out) < k:
        out.append({"kind": "seed", "seed": rng.randrange(10 ** 6)})
    rng.shuffle(out)
    return out[:k]


def _account(ctx: Ctx, case, summ, suite):
    rd, rs = case["rounds"][0], summ["rounds"][0]
    hist = rs["result"].history
    fired = any(e["ev"] == "wFail" for e in hist)
    ctx.count(f"{rd['mode']}.W={case['W']}")
    f = rd.get("faults") or []
    ctx.count("fault." + ("none" if not f else ("meta" if f[0][1] == "meta" else f"payload.rank{'0' if f[0][0] == 0 else 'N'}")))
    ctx.count("fault.fired" if fired else "fault.not_fired")
    ctx.count("outcome." + rd["mode"] + "." + "/".join(sorted(set(rs["outcomes"]))))
    ctx.case(suite, {"W": case["W"], "mode": rd["mode"], "tensors": rd["spec"]["tensors"], "faults": f,
                     "chooser": rd["chooser"], "outcomes": rs["outcomes"], "deadlock": rs["deadlock"]},
             nontrivial=fired, key=[rd["mode"], rd["spec"], f, [c[0] for c in rs["choices"]]])


def run(ctx: Ctx):
    import fsize
    for _ in range(ctx.n(1, 8)):
        fsize.take_case(ctx, fsize.rand_take_cfg(ctx.rng))
    for _ in range(ctx.n(2, 10)):
        fsize.take_case(ctx, fsize.rand_fault_cfg(ctx.rng), "real_plugin_fault")
    detsim.install()
    for case in CORPUS:
        _account(ctx, case, cl.run_case(ctx, case, "corpus"), "corpus")
    # bounded-exhaustive fault positions
    Ws = [2, 3] if ctx.quick else [2, 3, 4, 1]
    wl = dict(WORKLOADS)
    wl[4] = [[[1], [1], [2], [1]]]
    wl[1] = [[[1, 2, 1]]]
    for W in Ws:
        for tensors in wl[W]:
            spec = {"tensors": tensors, "seed": 3, "nobatch": True}
            positions = [[r, k] for r in range(W) for k in range(len(tensors[r]))] + [[0, "meta"]]
            for pos in positions:
                for mode in ("sync", "async"):
                    for ch in choosers(ctx.rng, W, ctx.n(3, 6)):
                        if ctx.time_left() < 30:
                            ctx.notes.append("exhaustive fault positions stopped early")
                            return
                        case = {"W": W, "rounds": [{"mode": mode, "path": "/snap/A", "spec": spec, "faults": [pos], "chooser": ch}]}
                        _account(ctx, case, cl.run_case(ctx, case, f"faults_{mode}"), f"faults_{mode}")
    # histories: an earlier (successful) async snapshot of the same job at the same path, then an attempt with a failing
    # write - whatever the earlier attempt left in the job-wide store must not let this one commit or report success
    for i in range(ctx.n(12, 120)):
        if ctx.time_left() < 40:
            ctx.notes.append(f"history stream stopped early at {i}")
            break
        W = ctx.rng.choice([2, 2, 3])
        spec1 = cl.rand_workload(ctx.rng, W)
        spec2 = spec1 if ctx.rng.random() < 0.5 else cl.rand_workload(ctx.rng, W)
        r = ctx.rng.randrange(1, W) if ctx.rng.random() < 0.7 else 0
        fault = [[r, ctx.rng.randrange(len(spec2["tensors"][r])) if spec2["nobatch"] else 0]]
        chs = choosers(ctx.rng, W, 3)
        case = {"W": W, "rounds": [
            {"mode": "async", "path": "/snap/A", "spec": spec1, "faults": [], "chooser": chs[0]},
            {"mode": "async", "path": "/snap/A", "spec": spec2, "faults": fault,
             "chooser": ctx.rng.choice([chs[1], {"kind": "prio", "order": list(range(W))}])}]}
        _account(ctx, case, cl.run_case(ctx, case, "history_async"), "history_async")
    # random stream
    for i in range(ctx.n(120, 1000)):
        if ctx.time_left() < 20:
            ctx.notes.append(f"random stream stopped early at {i}")
            break
        W = ctx.rng.choice([1, 2, 3, 4])
        spec = cl.rand_workload(ctx.rng, W)
        x = ctx.rng.random()
        if x < 0.15:
            f = []
        elif x < 0.35:
            f = [[0, "meta"]]
        else:
            r = ctx.rng.randrange(W)
            f = [[r, ctx.rng.randrange(len(spec["tensors"][r])) if spec["nobatch"] else 0]]
            if ctx.rng.random() < 0.2:      # two faults
                r2 = ctx.rng.randrange(W)
                f.append([r2, 0])
        mode = ctx.rng.choice(["sync", "async"])
        case = {"W": W, "rounds": [{"mode": mode, "path": "/snap/A", "spec": spec, "faults": f,
                                    "chooser": choosers(ctx.rng, W, 3)[0]}]}
        _account(ctx, case, cl.run_case(ctx, case, f"random_{mode}"), f"random_{mode}")
    _foreground(ctx)
    if not ctx.quick:
        _dfs(ctx)


def _foreground(ctx: Ctx):
    """Outside the model: with a memory budget below the workload, writes complete (and fail) while
    async_take is still staging; the failing rank's async_take raises. Observed and counted only."""
    for i in range(ctx.n(4, 20)):
        W = 2
        spec = {"tensors": [[64, 64, 64], [64, 64]], "seed": i, "nobatch": True, "budget": 300}
        r = ctx.rng.randrange(W)
        case = {"W": W, "rounds": [{"mode": "async", "path": "/snap/A", "spec": spec, "faults": [[r, 0]],
                                    "chooser": {"kind": "seed", "seed": ctx.rng.randrange(10 ** 6)}}]}
        summ = cl.run_case(ctx, case, "foreground", quiet=True)
        rs = summ["rounds"][0]
        ctx.count("foreground.outcomes." + "/".join(rs["outcomes"]) + (".deadlock" if rs["deadlock"] else ""))
        hard = [f for f in summ["failures"] if f[0] in ("success-after-failure", "committed-after-failure",
                                                         "metadata-after-payload-fault", "success-before-commit")]
        for sig, text, _ in hard:       # safety must hold even there
            ctx.fail(sig, text, summ["replay_case"], {"history": cl.compact(rs["result"].history)[-40:]}, suite="foreground")
        ctx.case("foreground", {"faults": case["rounds"][0]["faults"], "outcomes": rs["outcomes"], "deadlock": rs["deadlock"]},
                 nontrivial=False)


def _dfs(ctx: Ctx):
    spec = {"tensors": [[1], [2]], "seed": 5, "nobatch": True}
    for mode in ("sync", "async"):
        for faults in ([[0, 0]], [[1, 1]], [[0, "meta"]]):
            def run_prefix(prefix, mode=mode, faults=faults):
                case = {"W": 2, "rounds": [{"mode": mode, "path": "/snap/A", "spec": spec, "faults": faults,
                                            "chooser": {"kind": "prefix", "prefix": prefix}, "boring_first": True, "fresh_read": False}]}
                summ = cl.run_case(ctx, case, f"dfs_{mode}")
                _account(ctx, case, summ, f"dfs_{mode}")
                return summ["rounds"][0]["result"]
            st = detsim.dfs(run_prefix, 150, rng=random.Random(ctx.seed))
            ctx.notes.append(f"dfs {mode} faults={faults}: {st}")
            if ctx.time_left() < 60:
                return


def replay(ctx: Ctx, rec):
    if isinstance(rec.get("input"), dict) and rec["input"].get("fsize_limit"):
        import fsize
        cfg = {k: v for k, v in rec["input"].items() if k not in ("fsize_limit", "dir", "mode")}
        (fsize.plugin_case if rec["input"]["fsize_limit"] == "plugin" else fsize.take_case)(ctx, cfg, "replay")
        for f_ in ctx.failures[:10]:
            print("FAIL", f_["sig"], f_["what"], f_["observed"])
        if not ctx.failures:
            print("no failure on replay")
        return
    detsim.install()
    case = rec["input"]
    for rd in case["rounds"]:
        rd.pop("observed_keys", None)
    summ = cl.run_case(ctx, case, "replay")
    for i, rs in enumerate(summ["rounds"]):
        print(f"round {i}: outcomes={rs['outcomes']} deadlock={rs['deadlock']}")
        print("  impl :", " ".join(cl.compact(rs["result"].history)))
        m = rs.get("model")
        if m:
            print("  model: accepted", m.get("accepted"), "/", m.get("total"), "rejected:", m.get("rejected"), "outcomes:", m.get("outcomes"))
    print("oracle failures:", [(s, t) for s, t, _ in summ["failures"]])
    print("disagreements:", summ["disagreements"])
