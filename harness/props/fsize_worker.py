"""A process whose file-size limit (RLIMIT_FSIZE) is lower than what it is about to write: the operating system then
performs SHORT writes (write(2) returns fewer bytes than asked, without an error) before it starts failing with EFBIG -
the same thing a filling disk or a quota does.  Python ignores SIGXFSZ, so the process survives.

usage: fsize_worker.py <cfg.json> <out.json>
cfg = {"mode": "plugin", "limit": L, "writes": [[nbytes, "bytes"|"memoryview"], ...], "dir": D}
    -> out = [{"n":..., "outcome": "raised:<Type>" | "returned", "file_size": k | null, "content_ok": bool | null}, ...]
cfg = {"mode": "take", "limit": L, "elems": [n0, n1, ...], "dir": D, "nobatch": bool}
    -> out = {"sync": {...}, "async": {...}} with {"outcome": "raised:<Type>"|"returned", "metadata": bool}
Only plain keys and a private directory are used: the real filesystem plugin is safe for them.
"""
import json
import os
import resource
import sys


def pattern(n: int, salt: int = 0) -> bytes:
    return bytes(((i * 131 + salt * 17 + 7) % 251) for i in range(n))


def main():
    cfg = json.load(open(sys.argv[1]))
    out_path = sys.argv[2]
    repo = os.environ.get("VERIF_REPO", "/repo")
    sys.path.insert(0, repo)
    import warnings
    warnings.filterwarnings("ignore")
    import torch  # noqa
    d = cfg["dir"]
    if cfg["mode"] == "plugin":
        from torchsnapshot.io_types import WriteIO
        from torchsnapshot.storage_plugins.fs import FSStoragePlugin
        plugin = FSStoragePlugin(root=d)
        res = []
        resource.setrlimit(resource.RLIMIT_FSIZE, (cfg["limit"], resource.RLIM_INFINITY))
        for i, (n, kind) in enumerate(cfg["writes"]):
            data = pattern(n, i)
            buf = data if kind == "bytes" else memoryview(bytearray(data))
            rel = f"w/{i}"
            try:
                plugin.sync_write(WriteIO(path=rel, buf=buf))
                outcome = "returned"
            except BaseException as e:  # noqa
                outcome = "raised:" + type(e).__name__
            f = os.path.join(d, rel)
            size = os.path.getsize(f) if os.path.exists(f) else None
            ok = None
            if size is not None:
                ok = open(f, "rb").read() == data
            res.append({"n": n, "kind": kind, "outcome": outcome, "file_size": size, "content_ok": ok})
        # the result file itself is small; lift the limit anyway
        resource.setrlimit(resource.RLIMIT_FSIZE, (resource.RLIM_INFINITY, resource.RLIM_INFINITY))
        json.dump(res, open(out_path, "w"))
        return
    # mode take
    import torch.distributed as dist
    if cfg.get("nobatch"):
        os.environ["TORCHSNAPSHOT_DISABLE_BATCHING"] = "1"
    dist.init_process_group("gloo", init_method=f"file://{os.path.join(d, 'init')}", rank=0, world_size=1)
    from torchsnapshot import Snapshot, StateDict
    state = {f"w{i}": (torch.arange(n, dtype=torch.float32) * 0.5 + i) for i, n in enumerate(cfg["elems"])}
    res = {}
    if cfg.get("fault"):
        # a storage fault injected into the REAL plugin (so that the real StoragePlugin.sync_write / scheduler paths run):
        # "metadata" = the .snapshot_metadata write raises, "payload" = every payload write raises
        from torchsnapshot.storage_plugins.fs import FSStoragePlugin
        orig_write = FSStoragePlugin.write

        async def write(self, write_io):
            is_meta = write_io.path.endswith(".snapshot_metadata")
            if (cfg["fault"] == "metadata") == is_meta:
                raise OSError(28, "No space left on device (injected)")
            return await orig_write(self, write_io)
        FSStoragePlugin.write = write
    if cfg.get("limit"):
        resource.setrlimit(resource.RLIMIT_FSIZE, (cfg["limit"], resource.RLIM_INFINITY))
    for mode in ("sync", "async"):
        path = os.path.join(d, "snap_" + mode)
        app = {"m": StateDict(**state)}
        try:
            if mode == "sync":
                Snapshot.take(path, app)
            else:
                Snapshot.async_take(path, app).wait()
            outcome = "returned"
        except BaseException as e:  # noqa
            outcome = "raised:" + type(e).__name__
        res[mode] = {"outcome": outcome, "metadata": os.path.exists(os.path.join(path, ".snapshot_metadata"))}
    resource.setrlimit(resource.RLIMIT_FSIZE, (resource.RLIM_INFINITY, resource.RLIM_INFINITY))
    # restore without the limit, in this same process, from a fresh reference
    for mode in ("sync", "async"):
        path = os.path.join(d, "snap_" + mode)
        if res[mode]["metadata"]:
            try:
                dst = {"m": StateDict(**{k: torch.zeros_like(v) for k, v in state.items()})}
                Snapshot(path).restore(dst)
                bad = [k for k, v in state.items() if not torch.equal(dst["m"][k], v)]
                res[mode]["restore"] = "equal" if not bad else "differs:" + ",".join(bad)
            except BaseException as e:  # noqa
                res[mode]["restore"] = "raised:" + type(e).__name__ + ": " + str(e)[:120]
    dist.destroy_process_group()
    json.dump(res, open(out_path, "w"))


if __name__ == "__main__":
    main()
