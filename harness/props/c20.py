"""C20 — filesystem plugin and memoryview stream preserve bytes exactly."""
from __future__ import annotations

import asyncio
import io
import os
import shutil

from common import Ctx, OUT_DIR

PROP = "C20"
LEAN_MODULE = "TsProofs.Properties.C20"
THEOREMS = [
    "Ts.Storage.C20_read_after_write",
    "Ts.Storage.C20_ranged_read",
    "Ts.Storage.C20_ranged_read_bytes",
    "Ts.Storage.C20_missing_raises",
    "Ts.Storage.C20_other_path_untouched",
    "Ts.Storage.C20_concurrent_distinct_paths",
    "Ts.Storage.C20_stream_refines_bytesio",
    "Ts.Storage.C20_write_returns_complete",
    "Ts.Storage.C20_write_succeeds_despite_short_writes",
    "Ts.Storage.C20_write_under_size_limit",
    "Ts.Storage.C20_witness_unchecked_short_write",
]
BUDGET_S = (120, 900)
RULE = ("fs: random scripts of writes (bytes / memoryview / bytearray, sizes 0..4096 incl. empty, nested relative "
        "paths, overwrites) and reads (whole, every kind of [a,b) incl. empty, past-EOF, missing path) run on the real "
        "FSStoragePlugin in a private directory and on the Lean FS model; concurrent write sets via asyncio.gather in "
        "shuffled order; stream: random call sequences over read(n|None)/seek(pos,whence)/tell on the real "
        "MemoryviewStream, io.BytesIO and both Lean machines. A case is non-trivial if it has >=1 write and >=1 read "
        "(fs) or >=2 calls (stream); distinct by content hash.")
TRUSTED = ["aiofiles / OS file semantics (a completed write is durable and read back verbatim)",
           "CPython io.BytesIO as the reference stream"]
ASSUMPTIONS = ["plain relative keys only (adversarial keys are C05's subject and never touch the real FS plugin)"]


def _rand_bytes(rng, n):
    mode = rng.randrange(4)
    if mode == 0:
        return bytes(rng.randrange(256) for _ in range(n))
    if mode == 1:
        return bytes([rng.randrange(256)]) * n
    if mode == 2:
        return bytes((i * 7 + 3) % 256 for i in range(n))
    return bytes(rng.choice([0, 255, 10, 13, 26]) for _ in range(n))


def _rand_path(rng):
    comps = ["a", "b", "0", "replicated", "x.y", "batched", "deep", "sp ace", "ü"]
    depth = rng.choice([1, 1, 2, 3, 5])
    return "/".join(rng.choice(comps) for _ in range(depth)) + rng.choice(["", "_0", "_0_0", ".bin"])


def _buf_variant(rng, b: bytes):
    k = rng.randrange(3)
    if k == 0:
        return b, "bytes"
    if k == 1:
        return memoryview(b), "memoryview"
    return memoryview(bytearray(b)), "memoryview(bytearray)"


def _fs_suite(ctx: Ctx):
    from torchsnapshot.io_types import ReadIO, WriteIO
    from torchsnapshot.storage_plugins.fs import FSStoragePlugin

    root = os.path.join(OUT_DIR, f"c20_fs_{os.getpid()}")
    shutil.rmtree(root, ignore_errors=True)
    loop = asyncio.new_event_loop()
    n_scripts = ctx.n(120, 1500)
    try:
        for si in range(n_scripts):
            if ctx.time_left() < 10:
                ctx.notes.append(f"fs suite stopped early at {si}")
                break
            sroot = os.path.join(root, str(si))
            plugin = FSStoragePlugin(root=sroot)
            steps, impl_outs = [], []
            truth = {}
            paths = [_rand_path(ctx.rng) for _ in range(ctx.rng.randint(1, 4))]
            # avoid file/dir clashes (a path that is a prefix directory of another)
            paths = [p for p in paths if not any(q != p and q.startswith(p + "/") for q in paths)]
            nw = nr = 0
            for _ in range(ctx.rng.randint(2, 10)):
                p = ctx.rng.choice(paths)
                if ctx.rng.random() < 0.45:
                    size = ctx.rng.choice([0, 0, 1, 2, 3, 7, 64, 255, 256, 1000, ctx.rng.randint(0, 4096)])
                    data = _rand_bytes(ctx.rng, size)
                    buf, kind = _buf_variant(ctx.rng, data)
                    loop.run_until_complete(plugin.write(WriteIO(path=p, buf=buf)))
                    truth[p] = data
                    steps.append({"k": "write", "path": p, "data": list(data)})
                    impl_outs.append({"ok": True})
                    ctx.count("fs.write." + kind)
                    ctx.count("fs.write.empty" if size == 0 else "fs.write.nonempty")
                    nw += 1
                else:
                    q = p if ctx.rng.random() < 0.85 else _rand_path(ctx.rng) + "_missing"
                    L = len(truth.get(q, b""))
                    mode = ctx.rng.randrange(6)
                    if mode == 0:
                        rng_ = None
                    elif mode == 1:
                        a = ctx.rng.randint(0, L); b = ctx.rng.randint(a, L); rng_ = [a, b]
                    elif mode == 2:
                        a = ctx.rng.randint(0, L); rng_ = [a, a]
                    elif mode == 3:
                        rng_ = [0, L]
                    elif mode == 4:
                        a = ctx.rng.randint(0, L + 3); rng_ = [a, a + ctx.rng.randint(0, L + 5)]  # may pass EOF
                    else:
                        a = ctx.rng.randint(0, max(L - 1, 0)); rng_ = [a, min(L, a + 1)]
                    rio = ReadIO(path=q, byte_range=tuple(rng_) if rng_ else None)
                    try:
                        loop.run_until_complete(plugin.read(rio))
                        got = rio.buf.getvalue()
                        impl_outs.append({"bytes": list(got)})
                        # oracle (the property itself)
                        if q in truth:
                            exp = truth[q] if rng_ is None else truth[q][rng_[0]:rng_[1]]
                            if got != exp:
                                ctx.fail("fs-read-mismatch", "read returned bytes different from what was written",
                                         {"steps": steps + [{"k": "read", "path": q, "range": rng_}]},
                                         {"got": list(got[:64]), "expected": list(exp[:64]), "len_got": len(got), "len_exp": len(exp)})
                        else:
                            ctx.fail("fs-missing-no-raise", "reading a missing path did not raise",
                                     {"steps": steps + [{"k": "read", "path": q, "range": rng_}]}, None)
                    except (FileNotFoundError, NotADirectoryError):   # both: the path names no stored object
                        impl_outs.append({"err": "FileNotFoundError"})
                        if q in truth:
                            ctx.fail("fs-read-raises", "reading a written path raised FileNotFoundError",
                                     {"steps": steps + [{"k": "read", "path": q, "range": rng_}]}, None)
                    steps.append({"k": "read", "path": q, "range": rng_})
                    ctx.count("fs.read." + ("whole" if rng_ is None else "range"))
                    if q not in truth:
                        ctx.count("fs.read.missing")
                    nr += 1
            inp = {"op": "fs_script", "steps": steps}
            if ctx.driver:
                rep = ctx.driver.call(inp)
                if rep.get("outs") != impl_outs:
                    ctx.disagree("fs_script", inp, impl_outs, rep)
            ctx.case("fs_script", {"steps": [dict(s, data=f"<{len(s['data'])} bytes>") if "data" in s else s for s in steps]},
                     nontrivial=(nw > 0 and nr > 0), key=steps)

        # concurrent writes to distinct paths, shuffled completion order
        for ci in range(ctx.n(30, 300)):
            croot = os.path.join(root, f"c{ci}")
            plugin = FSStoragePlugin(root=croot)
            k = ctx.rng.randint(2, 24)
            files = {}
            while len(files) < k:
                p = _rand_path(ctx.rng) + f"_{len(files)}"
                if any(q.startswith(p + "/") or p.startswith(q + "/") for q in files):
                    continue
                files[p] = _rand_bytes(ctx.rng, ctx.rng.choice([0, 1, 17, 4096, 65536 if not ctx.quick else 8192]))
            order = list(files)
            ctx.rng.shuffle(order)

            async def go():
                await asyncio.gather(*[plugin.write(WriteIO(path=p, buf=_buf_variant(ctx.rng, files[p])[0])) for p in order])
                outs = {}
                for p in files:
                    rio = ReadIO(path=p)
                    await plugin.read(rio)
                    outs[p] = rio.buf.getvalue()
                return outs
            outs = loop.run_until_complete(go())
            bad = [p for p in files if outs[p] != files[p]]
            if bad:
                ctx.fail("fs-concurrent-mismatch", "concurrent writes to distinct paths lost or mixed bytes",
                         {"paths": order, "sizes": [len(files[p]) for p in order]}, {"bad": bad})
            ctx.case("fs_concurrent", {"paths": order[:6], "n": k}, nontrivial=True, key=[order, [len(files[p]) for p in order]])
            ctx.count("fs.concurrent.files", k)
    finally:
        loop.close()
        shutil.rmtree(root, ignore_errors=True)


def _exhaustive_ranges(ctx: Ctx):
    """thorough: every (a, b) with 0 <= a <= b <= len for len <= 12."""
    from torchsnapshot.io_types import ReadIO, WriteIO
    from torchsnapshot.storage_plugins.fs import FSStoragePlugin
    root = os.path.join(OUT_DIR, f"c20_ex_{os.getpid()}")
    shutil.rmtree(root, ignore_errors=True)
    loop = asyncio.new_event_loop()
    try:
        plugin = FSStoragePlugin(root=root)
        maxlen = 6 if ctx.quick else 12
        for L in range(maxlen + 1):
            data = bytes((i * 37 + 11) % 256 for i in range(L))
            loop.run_until_complete(plugin.write(WriteIO(path=f"d/f{L}", buf=memoryview(data))))
            steps = [{"k": "write", "path": f"d/f{L}", "data": list(data)}]
            outs = [{"ok": True}]
            for a in range(L + 1):
                for b in range(a, L + 1):
                    rio = ReadIO(path=f"d/f{L}", byte_range=(a, b))
                    loop.run_until_complete(plugin.read(rio))
                    got = rio.buf.getvalue()
                    if got != data[a:b]:
                        ctx.fail("fs-read-mismatch", "ranged read returned wrong bytes",
                                 {"steps": steps + [{"k": "read", "path": f"d/f{L}", "range": [a, b]}]},
                                 {"got": list(got), "expected": list(data[a:b])})
                    steps.append({"k": "read", "path": f"d/f{L}", "range": [a, b]})
                    outs.append({"bytes": list(got)})
            if ctx.driver:
                rep = ctx.driver.call({"op": "fs_script", "steps": steps})
                if rep.get("outs") != outs:
                    ctx.disagree("fs_ranges_exhaustive", {"len": L}, outs, rep)
            ctx.case("fs_ranges_exhaustive", {"len": L, "ranges": (L + 1) * (L + 2) // 2}, nontrivial=L > 0)
    finally:
        loop.close()
        shutil.rmtree(root, ignore_errors=True)


def _rand_calls(rng, L, n):
    calls = []
    for _ in range(n):
        r = rng.random()
        if r < 0.45:
            k = rng.choice([None, -1, -7, 0, 1, 2, 3, L, L + 1, L + 9, rng.randint(-3, L + 3)])
            calls.append({"c": "read", "n": k})
        elif r < 0.9:
            calls.append({"c": "seek", "pos": rng.choice([0, 1, -1, -2, L, L + 1, L + 5, -L, -L - 1, rng.randint(-L - 3, L + 3)]),
                          "whence": rng.choice([0, 0, 1, 1, 2, 2, 3, -1])})
        else:
            calls.append({"c": "tell"})
    return calls


def _apply(stream, calls):
    outs = []
    for c in calls:
        try:
            if c["c"] == "read":
                outs.append({"bytes": list(bytes(stream.read(c["n"])))})
            elif c["c"] == "seek":
                outs.append({"pos": stream.seek(c["pos"], c["whence"])})
            else:
                outs.append({"pos": stream.tell()})
        except ValueError:
            outs.append({"err": "ValueError"})
        except TypeError:
            outs.append({"err": "TypeError"})
    return outs


def _stream_suite(ctx: Ctx):
    from torchsnapshot.memoryview_stream import MemoryviewStream

    def one(data: bytes, calls, suite):
        impl = _apply(MemoryviewStream(memoryview(data)), calls)
        ref = _apply(io.BytesIO(data), calls)
        inp = {"op": "stream", "data": list(data), "calls": calls}
        if impl != ref:
            # first differing call
            k = next(i for i in range(len(calls)) if impl[i] != ref[i])
            ctx.fail("stream-differs-from-bytesio", "MemoryviewStream output differs from io.BytesIO",
                     inp, {"call_index": k, "stream": impl[k], "bytesio": ref[k]})
        if ctx.driver:
            rep = ctx.driver.call(inp)
            if rep.get("mv") != impl or rep.get("bytesio") != ref:
                ctx.disagree(suite, inp, {"mv": impl, "bytesio": ref}, rep)
        for c in calls:
            ctx.count("stream." + c["c"])
        ctx.case(suite, {"data_len": len(data), "calls": calls[:8]}, nontrivial=len(calls) >= 2, key=inp)

    for _ in range(ctx.n(300, 4000)):
        L = ctx.rng.choice([0, 1, 2, 5, 16, 100])
        one(_rand_bytes(ctx.rng, L), _rand_calls(ctx.rng, L, ctx.rng.randint(1, 14)), "stream_random")
    # exhaustive short sequences over a small alphabet
    alpha = [{"c": "read", "n": None}, {"c": "read", "n": 0}, {"c": "read", "n": 2}, {"c": "read", "n": -3},
             {"c": "seek", "pos": 1, "whence": 0}, {"c": "seek", "pos": -1, "whence": 0}, {"c": "seek", "pos": -2, "whence": 1},
             {"c": "seek", "pos": 2, "whence": 1}, {"c": "seek", "pos": -1, "whence": 2}, {"c": "seek", "pos": 3, "whence": 2},
             {"c": "seek", "pos": 0, "whence": 5}, {"c": "tell"}]
    import itertools
    depth = 3 if ctx.quick else 4
    data = bytes([9, 8, 7, 6])
    for seq in itertools.product(alpha, repeat=depth):
        one(data, list(seq), "stream_exhaustive")
        if ctx.time_left() < 5:
            ctx.notes.append("stream exhaustive stopped early")
            break


def _typed_and_large_suite(ctx: Ctx):
    """memoryviews with itemsize > 1 (array-backed) at all sizes, and large buffers around power-of-two
    boundaries (a chunked / looped write path would only show there). Large cases: oracle only."""
    import array
    import hashlib
    from torchsnapshot.io_types import ReadIO, WriteIO
    from torchsnapshot.storage_plugins.fs import FSStoragePlugin

    root = os.path.join(OUT_DIR, f"c20_typed_{os.getpid()}")
    shutil.rmtree(root, ignore_errors=True)
    loop = asyncio.new_event_loop()
    plugin = FSStoragePlugin(root=root)
    fmts = ["B", "b", "h", "H", "i", "q", "d", "f"]
    try:
        small = [0, 1, 2, 3, 7, 255, 1000]
        big_q = [(1 << 24) + 4096, (1 << 23) + 1, (1 << 20) - 1]
        big_t = big_q + [(1 << 25) + 3, (1 << 22) + 7, (1 << 16) + 1, 3 * (1 << 20)]
        cases = [(f, n) for f in fmts for n in small]
        bigs = big_q if ctx.quick else big_t
        cases += [(ctx.rng.choice(["h", "i", "q", "d"]), n) for n in bigs] + [("B", n) for n in bigs[:2]]
        for ci, (fmt, n) in enumerate(cases):
            if ctx.time_left() < 10:
                ctx.notes.append("typed/large suite stopped early")
                break
            a = array.array(fmt, bytes((i * 131 + 7) % 251 for i in range(min(n, 4096) * array.array(fmt).itemsize)))
            if n > 4096:
                reps = n // 4096 + 1
                a = (a * reps)[:n]
            mv = memoryview(a)
            data = a.tobytes()
            path = f"typed/{fmt}_{n}_{ci}"
            loop.run_until_complete(plugin.write(WriteIO(path=path, buf=mv)))
            rio = ReadIO(path=path)
            loop.run_until_complete(plugin.read(rio))
            got = rio.buf.getvalue()
            inp = {"fmt": fmt, "elements": n, "itemsize": mv.itemsize, "nbytes": len(data)}
            if got != data:
                first = next((i for i in range(min(len(got), len(data))) if got[i] != data[i]), min(len(got), len(data)))
                ctx.fail("fs-typed-memoryview-mismatch", "write of a typed/large memoryview did not read back identically", inp,
                         {"len_written": len(data), "len_read": len(got), "first_diff": first})
            # a ranged read across the middle and the tail
            if len(data) >= 4:
                for (lo, hi) in [(len(data) // 2 - 1, len(data) // 2 + 2), (len(data) - 3, len(data))]:
                    rio = ReadIO(path=path, byte_range=(lo, hi))
                    loop.run_until_complete(plugin.read(rio))
                    if rio.buf.getvalue() != data[lo:hi]:
                        ctx.fail("fs-read-mismatch", "ranged read of a typed/large object returned wrong bytes", dict(inp, range=[lo, hi]), None)
            if ctx.driver and len(data) <= 8192:
                rep = ctx.driver.call({"op": "fs_script", "steps": [{"k": "write", "path": path, "data": list(data)},
                                                                      {"k": "read", "path": path, "range": None}]})
                if rep.get("outs") != [{"ok": True}, {"bytes": list(got)}]:
                    ctx.disagree("fs_typed", inp, {"len": len(got), "sha": hashlib.sha1(got).hexdigest()}, "model differs")
            os.remove(os.path.join(root, path))
            ctx.count(f"fs.typed.itemsize{mv.itemsize}")
            ctx.count("fs.typed.large" if n > 4096 else "fs.typed.small")
            ctx.case("fs_typed_large", inp, nontrivial=n > 0, key=inp)
    finally:
        loop.close()
        shutil.rmtree(root, ignore_errors=True)


def run(ctx: Ctx):
    import fsize
    for _ in range(ctx.n(2, 12)):
        fsize.plugin_case(ctx, fsize.rand_plugin_cfg(ctx.rng))
    _fs_suite(ctx)
    _typed_and_large_suite(ctx)
    _exhaustive_ranges(ctx)
    _stream_suite(ctx)


def replay(ctx: Ctx, rec):
    if isinstance(rec.get("input"), dict) and rec["input"].get("fsize_limit"):
        import fsize
        cfg = {k: v for k, v in rec["input"].items() if k not in ("fsize_limit", "dir", "mode")}
        (fsize.plugin_case if rec["input"]["fsize_limit"] == "plugin" else fsize.take_case)(ctx, cfg, "replay")
        for f_ in ctx.failures[:10]:
            print("FAIL", f_["sig"], f_["what"], f_["observed"])
        if not ctx.failures:
            print("no failure on replay")
        return
    """Re-run a recorded failing input on the implementation and the model."""
    from torchsnapshot.memoryview_stream import MemoryviewStream
    inp = rec["input"]
    if inp.get("op") == "stream":
        data = bytes(inp["data"])
        impl = _apply(MemoryviewStream(memoryview(data)), inp["calls"])
        ref = _apply(io.BytesIO(data), inp["calls"])
        print("impl  :", impl)
        print("bytesio:", ref)
        if ctx.driver:
            print("model :", ctx.driver.call(inp))
        if impl != ref:
            ctx.fail(rec.get("signature", "stream-differs-from-bytesio"), "replayed", inp, {"impl": impl, "ref": ref})
    elif "steps" in inp:
        import asyncio
        from torchsnapshot.io_types import ReadIO, WriteIO
        from torchsnapshot.storage_plugins.fs import FSStoragePlugin
        root = os.path.join(OUT_DIR, f"c20_replay_{os.getpid()}")
        shutil.rmtree(root, ignore_errors=True)
        loop = asyncio.new_event_loop()
        plugin = FSStoragePlugin(root=root)
        truth = {}
        try:
            for s in inp["steps"]:
                if s["k"] == "write":
                    loop.run_until_complete(plugin.write(WriteIO(path=s["path"], buf=bytes(s["data"]))))
                    truth[s["path"]] = bytes(s["data"])
                else:
                    rio = ReadIO(path=s["path"], byte_range=tuple(s["range"]) if s.get("range") else None)
                    try:
                        loop.run_until_complete(plugin.read(rio))
                        got = rio.buf.getvalue()
                        exp = truth.get(s["path"])
                        if exp is not None and s.get("range"):
                            exp = exp[s["range"][0]:s["range"][1]]
                        print("read", s["path"], s.get("range"), "->", list(got[:32]), "expected", None if exp is None else list(exp[:32]))
                        if exp is None or got != exp:
                            ctx.fail(rec.get("signature", "fs-read-mismatch"), "replayed", inp, None)
                    except FileNotFoundError:
                        print("read", s["path"], "-> FileNotFoundError")
        finally:
            loop.close()
            shutil.rmtree(root, ignore_errors=True)

LEVEL_TEXT = ("Lean 4 theorems (unbounded in byte strings, ranges, write sets, completion orders and call sequences): "
              "read-after-write, ranged read = exact slice, missing path raises, writes to distinct paths commute, and "
              "MemoryviewStream refines io.BytesIO for every call sequence. The model is tied to the real FSStoragePlugin / "
              "MemoryviewStream by differential runs on every check; the property oracle is also evaluated on the real code."
              ' The write path is modelled down to write(2): for every pattern of short writes and failures a write that returns has stored the whole buffer, and under a file-size limit an oversized write raises (C20_write_returns_complete, C20_write_under_size_limit).')
LEVEL_NOTE = ("Trusted: Lean kernel (+propext, Classical.choice, Quot.sound), the hand model lean/TsModel/Storage.lean, "
              "the harness; aiofiles/OS behaviour and CPython's BytesIO are assumed, sampled not proved.")
TECHNIQUE = "Lean 4 proof over executable model + differential correspondence with the real plugin/stream"
