"""C18 — read_object returns what restore would, under any memory budget."""
from __future__ import annotations

from common import Ctx
from props import c18_lib

PROP = "C18"
LEAN_MODULE = "TsProofs.Properties.C18"
THEOREMS = [
    "Ts.Snapshot.C18_value",
    "Ts.Snapshot.C18_tile_size_bound",
    "Ts.Snapshot.C18_budget",
    "Ts.Snapshot.readTiled_of_stored",
    "Ts.Snapshot.C01_dataplane_roundtrip",
    "Ts.C16.C16_tile_partition",
    "Ts.C16.C16_tile_bytes_concat",
]
BUDGET_S = (150, 900)
RULE = ("committed snapshots of random states (plain / chunked / slab-packed tensors of all dtypes incl. torch_save ones, objects, "
        "primitives; 1-2 ranks with replicated entries) taken by the real Snapshot.take on in-memory storage; for every non-container "
        "manifest path x obj_out in {None, matching tensor, mismatching tensor} x memory_budget_bytes in {None, 1, es-1, es, size/3, "
        "size, 10*size} x read batching on/off x io concurrency {1,2,16}: the real read_object value is compared bit-exactly with the "
        "saved value; with a budget, storage hand-outs and consumer completions (class-level probe on every BufferConsumer) give "
        "the in-flight buffer bytes, which must stay within the budget unless a single buffer is in flight; the byte ranges actually "
        "read must be the Lean model's tiles; four kinds of paths not in the manifest must raise. Non-trivial: every read; distinct by hash.")
TRUSTED = ["read pipeline admission (C10_bound_read) for the budget half; who-loads-what view (C07) for rank-qualified lookup",
           "in-place (obj_out) loads into non-contiguous tensors tile along dim 0 (model: flat tiling for fresh/contiguous outputs)"]
ASSUMPTIONS = ["sharded entries: the value theorem is C08_dense_full; here they are exercised through the real read_object on a 1-rank gloo group"]
LEVEL_TEXT = ("Lean 4 theorems on the data-plane model: for every committed take, every budget >= 1 and every consumer order, reading "
              "each entry through the tiled reader returns exactly the saved leaf and equals what restore returns (C18_value); every "
              "tile is smaller than budget + one element (C18_tile_size_bound). Tied to the real read_object by comparing values, the "
              "byte ranges actually read (= model tiles) and measured in-flight buffer bytes over the budget/obj_out/batching grid.")
LEVEL_NOTE = ("C18_budget is C10_bound_read instantiated with the tiles' costs (plus C18_tile_size_bound for how far a single tile can exceed the budget); torch_save "
              "pieces are not tiled and under-declare their cost (finding D15). Trusted: Lean kernel, hand models, harness probe.")
TECHNIQUE = "Lean 4 proof over data-plane model (tiled reader) + real read_object over the budget/obj_out/batching grid"


def run(ctx: Ctx):
    n = ctx.n(45, 500)
    for i in range(n):
        if ctx.time_left() < 15:
            ctx.notes.append(f"stopped early at snapshot {i}")
            break
        c18_lib.read_cases(ctx, c18_lib.gen_case(ctx.rng), "read_object")
    c18_lib.sharded_cases(ctx, ctx.n(30, 300))
    c18_lib.real_fs_many_pieces(ctx, ctx.n(3, 30))


def replay(ctx: Ctx, rec):
    inp = rec["input"]
    c18_lib.read_cases(ctx, inp["case"], "replay")
    for f in ctx.failures[:10]:
        print("FAIL", f["sig"], f["what"], {k: v for k, v in f["input"].items() if k != "case"}, f["observed"])
    if not ctx.failures:
        print("no failure on replay")
