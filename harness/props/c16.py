"""C16 — chunking, subdivision, batching and tiling never change logical content.

Real code (in-process, from VERIF_REPO):
  ChunkedTensorIOPreparer.chunk_tensor / prepare_write / prepare_read, io_preparer.prepare_write / prepare_read,
  TensorIOPreparer.prepare_read(_tiled), batch_write_requests (+ BatchedBufferStager.stage_buffer),
  batch_read_requests (+ BatchedBufferConsumer.consume_buffer), over an in-memory dict storage.
Model: lean/TsModel/{Chunk,Slab,BatchRead}.lean through the tsdriver ops of lean/Driver/ChunkOps.lean.
(Shard subdivision is C08's; its theorem is re-exported there.)
"""
from __future__ import annotations

import asyncio
import itertools
import os
import random
import re
from typing import Any, Dict, List, Optional, Tuple

from common import Ctx

PROP = "C16"
LEAN_MODULE = "TsProofs.Properties.C16"
THEOREMS = [
    "Ts.C16.C16_subdivide_partition",
    "Ts.C16.C16_torch_chunk_partition",
    "Ts.C16.C16_chunk_partition",
    "Ts.C16.C16_chunk_bytes_concat",
    "Ts.C16.C16_chunk_size_bound",
    "Ts.C16.C16_plan_tensor_write_total",
    "Ts.C16.C16_tile_partition",
    "Ts.C16.C16_tile_bytes_concat",
    "Ts.C16.C16_slab_ranges",
    "Ts.C16.C16_slab_relocation",
    "Ts.C16.C16_slab_build_ok",
    "Ts.C16.C16_slab_stage",
    "Ts.C16.C16_batchread_slices",
    "Ts.C16.C16_write_plan_store",
    "Ts.C16.C16_plan_roundtrip",
]
BUDGET_S = (120, 840)
RULE = ("chunk: (shape 0-4 dims incl. 0-d and zero-length dims) x 12 dtypes x 6 layouts x thresholds 1..bytes+1 "
        "(bounded-exhaustive on small shapes, random above), explicit argument and knob env override; "
        "tile: entry shape x dtype x out-layout (view(-1) possible or not) x limit x optional base range; "
        "batch_write: request lists built by the real prepare_write from tensors (all serializers, prepare-func, "
        "chunked, hand-built sharded entries), objects and primitives, shuffled orders, duplicate / missing "
        "locations (adversarial), thresholds 1..above the total; byte level: real stage_buffer -> dict storage -> "
        "real prepare_read (tiled or not) -> optional batch_read_requests -> real consume_buffer, compared with the "
        "model's slab bytes / deliveries and with the source tensors bit for bit; batch_read: synthetic request "
        "lists with duplicate, overlapping, empty and whole-object ranges. A case is non-trivial if it has >= 2 "
        "pieces / members / tiles / requests; distinct by canonical input.")
TRUSTED = [
    "torch: layout -> contiguous row-major bytes (contiguous/numpy/frombuffer/narrow/view/copy_), torch.chunk itself "
    "is modelled (Chunk.torchChunk) and compared on every run",
    "uuid4 slab names are distinct from each other and from every request path (Loc.slab k in the model)",
    "float ceil(a/b) equals exact integer ceiling for operands < 2^53",
]
ASSUMPTIONS = [
    "CPU tensors only (GPU slabs / GPUBatchedBufferStager not modelled)",
    "chunking_dim = 0 (the only value the library passes)",
    "thresholds / limits >= 1 for the theorems; 0 is modelled as the error the code raises",
    "subdivide_shard is C08's (theorem re-exported as C16_subdivide_partition there)",
]

BP = ["float64", "float32", "float16", "bfloat16", "int64", "int32", "int16", "int8", "uint8", "bool"]
NON_BP = ["complex128", "complex64"]
ES = {"float64": 8, "float32": 4, "float16": 2, "bfloat16": 2, "int64": 8, "int32": 4, "int16": 2, "int8": 1,
      "uint8": 1, "bool": 1, "complex128": 16, "complex64": 8}
LAYOUTS = ["contig", "transpose", "stride2", "offset", "expand", "lastslice"]
CHUNK_ENV = "TORCHSNAPSHOT_MAX_CHUNK_SIZE_BYTES_OVERRIDE"
SLAB_ENV = "TORCHSNAPSHOT_SLAB_SIZE_THRESHOLD_BYTES_OVERRIDE"

_loop = None


def _run(coro):
    global _loop
    if _loop is None or _loop.is_closed():
        _loop = asyncio.new_event_loop()
    return _loop.run_until_complete(coro)


class _Env:
    def __init__(self, **kv):
        self.kv = {k: v for k, v in kv.items()}

    def __enter__(self):
        self.old = {k: os.environ.get(k) for k in self.kv}
        for k, v in self.kv.items():
            if v is None:
                os.environ.pop(k, None)
            else:
                os.environ[k] = str(v)

    def __exit__(self, *a):
        for k, v in self.old.items():
            if v is None:
                os.environ.pop(k, None)
            else:
                os.environ[k] = v


def _numel(shape):
    n = 1
    for d in shape:
        n *= d
    return n


# --------------------------------------------------------------------------------------------------
# tensors
# --------------------------------------------------------------------------------------------------

def make_tensor(spec: Dict[str, Any]):
    """Deterministic tensor of logical shape spec['shape'], dtype, memory layout; random bit patterns."""
    import torch
    shape = list(spec["shape"])
    dt = getattr(torch, spec["dtype"])
    es = ES[spec["dtype"]]
    layout = spec.get("layout", "contig")
    rng = random.Random(spec.get("dseed", 0))

    def base(bshape):
        n = _numel(bshape) * es
        if spec["dtype"] == "bool":
            raw = bytearray(rng.getrandbits(1) for _ in range(n))
        else:
            raw = bytearray(rng.getrandbits(8) for _ in range(n))
        if n == 0:
            return torch.empty(bshape, dtype=dt)
        return torch.frombuffer(raw, dtype=torch.uint8).clone().view(dt).reshape(bshape)

    nd = len(shape)
    if nd == 0:
        if layout == "offset":
            return base([3])[1]
        return base([])
    if layout == "transpose" and nd >= 2:
        perm = list(range(nd))[::-1]
        b = base([shape[p] for p in perm])
        return b.permute(perm)
    if layout == "stride2":
        return base([shape[0] * 2] + shape[1:])[::2]
    if layout == "offset":
        return base([shape[0] + 1] + shape[1:])[1:]
    if layout == "expand":
        return base([1] + shape[1:]).expand(shape)
    if layout == "lastslice":
        return base(shape[:-1] + [shape[-1] + 1])[..., 1:]
    return base(shape)


def tbytes(t) -> bytes:
    """Row-major bytes of the logical contents (independent of torchsnapshot's serializer)."""
    import torch
    if t.numel() == 0:
        return b""
    fresh = torch.empty(list(t.shape), dtype=t.dtype)  # standard strides whatever t's layout is
    fresh.copy_(t.detach())
    return fresh.reshape(-1).view(torch.uint8).numpy().tobytes()


def fs_read(data: bytes, byte_range) -> bytes:
    """What FSStoragePlugin.read returns (seek(lo); read(hi - lo): a negative count reads to EOF) — tied to the
    model by C20."""
    if byte_range is None:
        return data
    lo, hi = byte_range
    return data[lo:] if hi - lo < 0 else data[lo:lo + (hi - lo)]


def _err(e: BaseException) -> Dict[str, str]:
    return {"err": type(e).__name__}


# --------------------------------------------------------------------------------------------------
# suite 1: torch.chunk
# --------------------------------------------------------------------------------------------------

def check_torch_chunk(ctx: Ctx, inp, verbose=False):
    import torch
    d, n = inp["d"], inp["n"]
    try:
        impl = {"sizes": [c.shape[0] for c in torch.chunk(torch.empty(d, 2, dtype=torch.uint8), n, 0)]}
    except Exception as e:
        impl = _err(e)
    model = None
    if ctx.driver:
        model = ctx.driver.call({"op": "torch_chunk", "d": d, "n": n})
        if model != impl:
            ctx.disagree("torch_chunk", inp, impl, model)
    if verbose:
        print("impl :", impl, "\nmodel:", model)
    if "sizes" in impl and sum(impl["sizes"]) != d:
        ctx.fail("torch-chunk-sum", "torch.chunk sizes do not sum to the dim", inp, impl, suite="torch_chunk")


# --------------------------------------------------------------------------------------------------
# suite 2: chunk_tensor / chunked prepare_write (+ bytes) / io_preparer decision
# --------------------------------------------------------------------------------------------------

def _partition_oracle(chunks, shape1) -> Optional[str]:
    """chunks: list of (offsets, sizes). Exact partition of dim 0 of shape1 (already 1-d for 0-d tensors)."""
    d, rest = shape1[0], list(shape1[1:])
    if not chunks:
        return "no chunks"
    pos = 0
    for offs, sizes in chunks:
        if len(offs) != len(shape1) or len(sizes) != len(shape1):
            return "rank mismatch"
        if list(offs[1:]) != [0] * len(rest) or list(sizes[1:]) != rest:
            return "other dims not whole"
        if offs[0] != pos:
            return "gap-or-overlap"
        pos += sizes[0]
    if pos != d:
        return "does not cover dim 0"
    return None


def check_chunk(ctx: Ctx, inp, verbose=False):
    """inp: {t: tensor spec, thr: int, via: 'arg'|'env'}"""
    from torchsnapshot.io_preparers.chunked_tensor import ChunkedTensorIOPreparer as CP
    from torchsnapshot.io_preparers.tensor import TensorBufferStager
    spec, thr, via = inp["t"], inp["thr"], inp.get("via", "arg")
    t = make_tensor(spec)
    shape, dtype, es = list(spec["shape"]), spec["dtype"], ES[spec["dtype"]]
    shape1 = shape if shape else [1]
    total = _numel(shape) * es
    row = _numel(shape1[1:]) * es
    # --- chunk_tensor
    try:
        if via == "env":
            with _Env(**{CHUNK_ENV: thr}):
                instr = CP.chunk_tensor(t)
        else:
            instr = CP.chunk_tensor(t, chunk_sz_bytes=thr)
        impl = {"chunks": [{"offsets": list(c.offsets), "sizes": list(c.sizes)} for c in instr]}
    except Exception as e:
        instr = None
        impl = _err(e)
    model = model_w = None
    if ctx.driver:
        # `chunk_sz_bytes or knob`: an explicit 0 falls back to the knob; the harness never sets both
        model = ctx.driver.call({"op": "chunk_tensor", "shape": shape, "dtype": dtype, "max_bytes": thr})
        if model != impl:
            ctx.disagree("chunk_tensor", inp, impl, model)
    if verbose:
        print("chunk_tensor impl :", impl, "\nchunk_tensor model:", model)
    ctx.count("chunk.ndim%d" % len(shape))
    ctx.count("chunk.layout." + spec.get("layout", "contig"))
    ctx.count("chunk.thr<es" if thr < es else ("chunk.thr>total" if thr > total else "chunk.thr.mid"))
    if instr is None:
        ctx.count("chunk.err." + impl["err"])
        if total > 0 and thr >= 1:
            ctx.fail("chunk-raises", "chunk_tensor raised on a non-empty tensor with threshold >= 1", inp, impl, suite="chunk_tensor")
        ctx.case("chunk_tensor", inp, nontrivial=False)
        return
    # --- oracle: exact partition of dim 0
    why = _partition_oracle([(c.offsets, c.sizes) for c in instr], shape1)
    if why:
        ctx.fail("chunk-partition", f"chunks are not an exact partition of dim 0: {why}", inp, impl, suite="chunk_tensor")
    if any(c.dtype != str(t.dtype) for c in instr):
        ctx.fail("chunk-dtype", "chunk dtype differs from the tensor's", inp, impl, suite="chunk_tensor")
    if total > 0 and thr >= 1:
        big = [c.sizes for c in instr if _numel(c.sizes) * es >= thr + row]
        if big:
            ctx.fail("chunk-exceeds-threshold", "a chunk is a whole row or more above the threshold", inp, {"chunks": big, "row_bytes": row}, suite="chunk_tensor")
        if any(c.sizes[0] == 0 for c in instr):
            ctx.fail("chunk-empty", "empty chunk of a non-empty tensor", inp, impl, suite="chunk_tensor")
    # --- chunked prepare_write: entry, locations, staged bytes
    path = inp.get("path", "0/m/w")
    whole = tbytes(t)
    try:
        entry, wrs = CP.prepare_write(path, t, instr)
        staged = [bytes(_run(wr.buffer_stager.stage_buffer())) if entry.chunks[i].tensor.serializer == "buffer_protocol" else None
                  for i, wr in enumerate(wrs)]
        impl_w = {"dtype": entry.dtype, "shape": list(entry.shape), "chunks": [
            {"offsets": list(sh.offsets), "sizes": list(sh.sizes), "location": sh.tensor.location,
             "shape": list(sh.tensor.shape), "serializer": sh.tensor.serializer,
             "nbytes": _numel(sh.tensor.shape) * es,
             "slice": [sh.offsets[0] * row, (sh.offsets[0] + sh.sizes[0]) * row],
             "bytes": list(staged[i]) if staged[i] is not None else None}
            for i, sh in enumerate(entry.chunks)]}
        ok_w = True
    except Exception as e:
        impl_w = _err(e)
        ok_w = False
    if ok_w:
        # oracle on the real output
        if [wr.path for wr in wrs] != [sh.tensor.location for sh in entry.chunks] or len(set(wr.path for wr in wrs)) != len(wrs):
            ctx.fail("chunk-write-paths", "write request paths differ from chunk locations / not distinct", inp, impl_w, suite="chunked_write")
        if any(sh.tensor.dtype != entry.dtype or sh.tensor.byte_range is not None for sh in entry.chunks):
            ctx.fail("chunk-entry-fields", "chunk tensor entry dtype/byte_range unexpected", inp, impl_w, suite="chunked_write")
        if all(s is not None for s in staged):
            if b"".join(staged) != whole:
                ctx.fail("chunk-bytes-concat", "staged chunk bytes do not concatenate to the tensor's bytes", inp,
                         {"lens": [len(s) for s in staged], "total": len(whole)}, suite="chunked_write")
            if any(len(s) != _numel(sh.tensor.shape) * es for s, sh in zip(staged, entry.chunks)):
                ctx.fail("chunk-bytes-len", "staged chunk length differs from its recorded shape", inp,
                         {"lens": [len(s) for s in staged]}, suite="chunked_write")
    if ctx.driver:
        q = {"op": "chunked_write", "path": path, "shape": shape, "dtype": dtype, "max_bytes": thr}
        if ok_w and all(c["bytes"] is not None for c in impl_w["chunks"]):
            q["data"] = list(whole)
        model_w = ctx.driver.call(q)
        if ok_w and "chunks" in model_w and "data" not in q:
            for c in model_w["chunks"]:
                c["bytes"] = None
        if model_w != impl_w:
            ctx.disagree("chunked_write", inp, impl_w, model_w)
    if verbose:
        print("prepare_write impl :", impl_w, "\nprepare_write model:", model_w)
    ctx.count("chunk.pieces.%s" % ("1" if len(instr) == 1 else ("2-4" if len(instr) <= 4 else "5+")))
    ctx.case("chunk_tensor", inp, nontrivial=len(instr) >= 2)


def check_plan_write(ctx: Ctx, inp, verbose=False):
    """io_preparer.prepare_write's chunk-or-not decision under the knob. inp: {t, thr}"""
    from torchsnapshot.io_preparer import prepare_write
    from torchsnapshot.manifest import ChunkedTensorEntry, TensorEntry
    spec, thr = inp["t"], inp["thr"]
    t = make_tensor(spec)
    es = ES[spec["dtype"]]
    try:
        with _Env(**{CHUNK_ENV: thr}):
            entry, wrs = prepare_write(t, "m/w", rank=0, replicated=False)
        if isinstance(entry, ChunkedTensorEntry):
            impl = {"chunked": True, "chunks": [{"offsets": list(c.offsets), "sizes": list(c.sizes)} for c in entry.chunks]}
        else:
            impl = {"chunked": False}
    except Exception as e:
        entry = None
        impl = _err(e)
    model = None
    if ctx.driver:
        model = ctx.driver.call({"op": "plan_tensor_write", "shape": list(spec["shape"]), "dtype": spec["dtype"], "max_bytes": thr})
        if model != impl:
            ctx.disagree("plan_tensor_write", inp, impl, model)
    if verbose:
        print("impl :", impl, "\nmodel:", model)
    if entry is None:
        if thr >= 1:
            ctx.fail("plan-write-raises", "prepare_write raised for a tensor with chunk knob >= 1", inp, impl, suite="plan_tensor_write")
    elif impl["chunked"]:
        why = _partition_oracle([(c["offsets"], c["sizes"]) for c in impl["chunks"]], list(spec["shape"]) or [1])
        if why:
            ctx.fail("chunk-partition", f"chunks are not an exact partition of dim 0: {why}", inp, impl, suite="plan_tensor_write")
        try:
            got = b"".join(bytes(_run(wr.buffer_stager.stage_buffer())) for wr in wrs) if spec["dtype"] in BP else None
        except Exception as e:
            got = None
            ctx.fail("stage-raises", "stage_buffer raised", inp, _err(e), suite="plan_tensor_write")
        if got is not None and got != tbytes(t):
            ctx.fail("chunk-bytes-concat", "staged chunk bytes do not concatenate to the tensor's bytes", inp, None, suite="plan_tensor_write")
    ctx.count("plan.chunked" if impl.get("chunked") else "plan.plain")
    ctx.case("plan_tensor_write", inp, nontrivial=bool(impl.get("chunked")))


# --------------------------------------------------------------------------------------------------
# suite 3: tiled reads
# --------------------------------------------------------------------------------------------------

def _tile_oracle(ranges, shapes, base, size, numel) -> Optional[str]:
    if not ranges:
        return "no tiles"
    pos = base
    for lo, hi in ranges:
        if lo != pos:
            return "gap-or-overlap"
        if hi < lo:
            return "inverted range"
        pos = hi
    if pos != base + size:
        return "does not end at base+size"
    if sum(_numel(s) for s in shapes) != numel:
        return "element counts do not sum to numel"
    return None


def check_tile(ctx: Ctx, inp, verbose=False):
    """inp: {shape, dtype, out: layout|None, limit, base: [lo,hi]|None, via: 'tiled'|'prepare_read', dseed}"""
    import torch
    from torchsnapshot.io_preparers.tensor import TensorIOPreparer as TP
    from torchsnapshot.manifest import TensorEntry
    from torchsnapshot.serialization import dtype_to_string
    shape, dtype, limit, base = list(inp["shape"]), inp["dtype"], inp["limit"], inp.get("base")
    es = ES[dtype]
    size = _numel(shape) * es
    entry = TensorEntry(location="0/x", serializer="buffer_protocol", dtype=dtype_to_string(getattr(torch, dtype)),
                        shape=shape, replicated=False, byte_range=list(base) if base else None)
    src = make_tensor({"shape": shape, "dtype": dtype, "dseed": inp.get("dseed", 1)})
    out = None
    if inp.get("out"):
        out = make_tensor({"shape": shape, "dtype": dtype, "layout": inp["out"], "dseed": 7})
    t_out = out if out is not None else TP.empty_tensor_from_entry(entry)
    try:
        t_out.view(-1)
        flat = True
    except RuntimeError:
        flat = False
    try:
        if inp.get("via") == "prepare_read":
            rrs, fut = TP.prepare_read(entry, t_out, buffer_size_limit_bytes=limit)
        else:
            rrs, fut = TP.prepare_read_tiled(entry, t_out, buffer_size_limit_bytes=limit)
        impl = {"tiles": [{"range": list(rr.byte_range), "shape": list(rr.buffer_consumer.entry.shape)} for rr in rrs]}
    except Exception as e:
        rrs = None
        impl = _err(e)
    model = None
    if ctx.driver:
        model = ctx.driver.call({"op": "tile", "shape": shape, "flat": flat, "dtype": dtype, "limit": limit, "base": base})
        if model != impl:
            ctx.disagree("tile", inp, impl, model)
    if verbose:
        print("flat:", flat, "\nimpl :", impl, "\nmodel:", model)
    ctx.count("tile.flat" if flat else "tile.nonflat")
    ctx.count("tile.limit<es" if limit < es else ("tile.limit>=size" if limit >= size else "tile.limit.mid"))
    if rrs is None:
        ctx.count("tile.err." + impl["err"])
        if limit >= 1:
            ctx.fail("tile-raises", "prepare_read_tiled raised with limit >= 1", inp, impl, suite="tile")
        ctx.case("tile", inp, nontrivial=False)
        return
    b0 = base[0] if base else 0
    why = _tile_oracle([t["range"] for t in impl["tiles"]], [t["shape"] for t in impl["tiles"]], b0, size, _numel(shape))
    if why:
        ctx.fail("tile-partition", f"tile ranges are not an exact cover of [base, base+size): {why}", inp, impl, suite="tile")
    if any(rr.path != entry.location for rr in rrs) or list(fut.obj.shape) != shape:
        ctx.fail("tile-fields", "tile request path / result shape wrong", inp, impl, suite="tile")
    # byte level: feed file[lo:hi] of a file holding the source bytes at `base` to the real consumers
    file = bytes((i * 31 + 5) % 256 for i in range(b0)) + tbytes(src) + b"\xaa\xbb"
    try:
        for rr in rrs:
            _run(rr.buffer_consumer.consume_buffer(fs_read(file, rr.byte_range)))
        if tbytes(fut.obj) != tbytes(src) or (out is not None and fut.obj is not out):
            ctx.fail("tile-readback", "tiled read-back differs from the stored tensor", inp, None, suite="tile")
    except Exception as e:
        ctx.fail("tile-consume-raises", "a tile consumer raised on its exact byte range", inp, _err(e), suite="tile")
    ctx.case("tile", inp, nontrivial=len(rrs) >= 2)


# --------------------------------------------------------------------------------------------------
# suite 4: batch_write_requests (+ staging, read-back through prepare_read / batch_read_requests)
# --------------------------------------------------------------------------------------------------

_SLAB_RE = re.compile(r"^batched/[0-9a-f-]{36}$")


def _identity_prepare(t, tracing):
    return t


def build_plan(inp):
    """Build entries + write requests with the real preparers. inp['objs']: list of object specs.
    Returns (entries, write_reqs, sources) where sources[i] = (kind, value) of the i-th *object*."""
    import torch
    from torchsnapshot.io_preparer import prepare_write
    from torchsnapshot.io_preparers.tensor import TensorIOPreparer as TP
    from torchsnapshot.manifest import Shard, ShardedTensorEntry
    entries, wrs, sources = [], [], []
    with _Env(**{CHUNK_ENV: inp.get("chunk_knob")}):
        for o in inp["objs"]:
            k = o["k"]
            if k == "tensor":
                t = make_tensor(o["t"])
                e, w = prepare_write(t, o["path"], rank=0, replicated=False,
                                     _tensor_prepare_func=_identity_prepare if o.get("prep") else None)
                sources.append(("tensor", t))
            elif k == "object":
                val = {"a": o.get("val", 1), "b": [1, 2, 3]}
                e, w = prepare_write(val, o["path"], rank=0, replicated=False)
                sources.append(("object", val))
            elif k == "prim":
                e, w = prepare_write(o.get("val", 5), o["path"], rank=0, replicated=False)
                sources.append(("prim", o.get("val", 5)))
            elif k == "sharded":  # hand-built ShardedTensorEntry over row blocks of a dense tensor
                t = make_tensor(o["t"])
                shards, w = [], []
                off = 0
                for rows in o["rows"]:
                    view = t.narrow(0, off, rows)
                    offs = [off] + [0] * (t.ndim - 1)
                    se, sw = TP.prepare_write("sharded/" + o["path"] + "_" + "_".join(map(str, offs)), view)
                    shards.append(Shard(offsets=offs, sizes=list(view.shape), tensor=se))
                    w += sw
                    off += rows
                e = ShardedTensorEntry(shards=shards)
                sources.append(("sharded", t))
            else:
                raise ValueError(k)
            entries.append(e)
            wrs += w
    return entries, wrs, sources


def _entry_json(e, names=None):
    from torchsnapshot.manifest import ChunkedTensorEntry, DTensorEntry, ShardedTensorEntry, TensorEntry

    def loc(s):
        return names.get(s, s) if names is not None else s

    def te(t):
        return {"loc": loc(t.location), "range": list(t.byte_range) if t.byte_range is not None else None}
    if isinstance(e, TensorEntry):
        return dict(k="tensor", **te(e))
    if isinstance(e, ChunkedTensorEntry):
        return {"k": "chunked", "chunks": [te(c.tensor) for c in e.chunks]}
    if isinstance(e, (ShardedTensorEntry, DTensorEntry)):
        return {"k": "sharded", "shards": [te(s.tensor) for s in e.shards]}
    return {"k": "other"}


def _tensor_entries(e):
    from torchsnapshot.manifest import ChunkedTensorEntry, ShardedTensorEntry, TensorEntry
    if isinstance(e, TensorEntry):
        return [e]
    if isinstance(e, ChunkedTensorEntry):
        return [c.tensor for c in e.chunks]
    if isinstance(e, ShardedTensorEntry):
        return [s.tensor for s in e.shards]
    return []


class _Recorder:
    """Wraps a real BufferConsumer: records the bytes it is handed, then forwards."""

    def __init__(self, inner, log, cid):
        self.inner, self.log, self.cid = inner, log, cid

    async def consume_buffer(self, buf, executor=None):
        self.log.append((self.cid, bytes(buf)))
        await self.inner.consume_buffer(buf, executor=executor)

    def get_consuming_cost_bytes(self):
        return self.inner.get_consuming_cost_bytes()


def check_batch_write(ctx: Ctx, inp, verbose=False):
    """inp: {objs, chunk_knob, order: permutation seed|None, thr, via, drop_entries: [i], dup: bool, read: {...}}"""
    import torch
    from torchsnapshot.batcher import BatchedBufferStager, batch_read_requests, batch_write_requests
    from torchsnapshot.io_preparer import prepare_read
    from torchsnapshot.io_preparers.tensor import TensorBufferStager
    from torchsnapshot.io_types import ReadReq

    try:
        entries, wrs, sources = build_plan(inp)
    except Exception as e:
        ctx.fail("plan-build-raises", "the real prepare_write raised while building the plan", inp, _err(e), suite="batch_write")
        ctx.case("batch_write", inp, nontrivial=False)
        return
    prng = random.Random(inp.get("order", 0))
    if inp.get("order") is not None:
        prng.shuffle(wrs)
    if inp.get("drop_entries"):
        entries = [e for i, e in enumerate(entries) if i not in set(inp["drop_entries"])]
    if inp.get("dup_req") is not None and wrs:
        import copy
        from torchsnapshot.io_types import WriteReq
        src_wr = wrs[inp["dup_req"] % len(wrs)]  # same path, distinct stager object (a D13-style location alias)
        wrs.insert(min(inp["dup_req"], len(wrs)), WriteReq(path=src_wr.path, buffer_stager=copy.copy(src_wr.buffer_stager)))
    thr = inp["thr"]

    def size_of(wr):
        t = getattr(wr.buffer_stager, "tensor", None)
        return t.nelement() * t.element_size() if t is not None else 0
    m_entries = [_entry_json(e) for e in entries]
    m_reqs = [{"path": wr.path, "is_tensor": isinstance(wr.buffer_stager, TensorBufferStager),
               "buf_proto": getattr(getattr(wr.buffer_stager, "entry", None), "serializer", None) == "buffer_protocol",
               "prep_func": getattr(wr.buffer_stager, "_tensor_prepare_func", None) is not None,
               "size": size_of(wr)} for wr in wrs]
    idx_of = {id(wr.buffer_stager): i for i, wr in reversed(list(enumerate(wrs)))}
    before = {id(te): (te.location, te.byte_range) for e in entries for te in _tensor_entries(e)}
    # bytes each stager exports (independent of the batcher): logical row-major bytes of its tensor
    member_bytes = {i: (tbytes(wr.buffer_stager.tensor) if m_reqs[i]["is_tensor"] and m_reqs[i]["buf_proto"] else None)
                    for i, wr in enumerate(wrs)}
    try:
        if inp.get("via") == "env":
            with _Env(**{SLAB_ENV: thr}):
                out_entries, out_wrs = batch_write_requests(entries, list(wrs))
        else:
            out_entries, out_wrs = batch_write_requests(entries, list(wrs), slab_size_threshold_bytes=thr)
        names: Dict[str, str] = {}
        reqs_json = []
        for wr in out_wrs:
            st = wr.buffer_stager
            if isinstance(st, BatchedBufferStager):
                names.setdefault(wr.path, "batched/#%d" % len(names))
                reqs_json.append({"slab": names[wr.path], "size": st.slab_sz_bytes,
                                  "members": [[r[0], r[1], idx_of[id(s)]] for r, s in st.byte_range_to_buffer_stager.items()]})
            else:
                reqs_json.append({"pass": idx_of[id(st)], "path": wr.path})
        impl = {"entries": [_entry_json(e, names) for e in out_entries], "reqs": reqs_json}
    except Exception as e:
        out_wrs = None
        impl = _err(e)
    model = None
    q = {"op": "batch_write", "entries": m_entries, "reqs": m_reqs, "thr": thr}
    if ctx.driver:
        model = ctx.driver.call(q)
        if model != impl:
            ctx.disagree("batch_write", inp, impl, model)
    if verbose:
        print("model input:", q, "\nimpl :", impl, "\nmodel:", model)
    wellformed = not inp.get("malformed")
    ctx.count("bw.thr." + ("1" if thr == 1 else "small" if thr < 64 else "large"))
    if out_wrs is None:
        ctx.count("bw.err." + impl["err"])
        if wellformed:
            ctx.fail("batch-write-raises", "batch_write_requests raised on a well-formed plan", inp, impl, suite="batch_write")
        ctx.case("batch_write", inp, nontrivial=False)
        return
    # ---- oracle on the real output: slab ranges / relocation
    n_slabs = n_members = 0
    placed: Dict[int, Tuple[str, int, int]] = {}
    for wr in out_wrs:
        st = wr.buffer_stager
        if not isinstance(st, BatchedBufferStager):
            continue
        n_slabs += 1
        if not _SLAB_RE.match(wr.path):
            ctx.fail("slab-name", "slab location is not batched/<uuid4>", inp, wr.path, suite="batch_write")
        pos = 0
        for (lo, hi), sub in st.byte_range_to_buffer_stager.items():
            i = idx_of[id(sub)]
            if lo != pos or hi < lo:
                ctx.fail("slab-ranges", "slab byte ranges are not consecutive from 0", inp, impl, suite="batch_write")
                break
            if hi - lo != m_reqs[i]["size"]:
                ctx.fail("slab-range-size", "a slab member's range length differs from its tensor's byte size", inp, impl, suite="batch_write")
            pos = hi
            if hi > lo or i not in placed:
                placed[i] = (wr.path, lo, hi)
            n_members += 1
        if pos != st.slab_sz_bytes:
            ctx.fail("slab-size", "slab size differs from the sum of its members", inp, impl, suite="batch_write")
    if wellformed:
        passed = [idx_of[id(wr.buffer_stager)] for wr in out_wrs if not isinstance(wr.buffer_stager, BatchedBufferStager)]
        for i, r in enumerate(m_reqs):
            should = r["is_tensor"] and r["buf_proto"] and not r["prep_func"] and r["size"] < thr
            te = next((te for e in entries for te in _tensor_entries(e) if before[id(te)][0] == r["path"]), None)
            if should:
                if passed.count(i) != 0 or (i not in placed and r["size"] > 0):
                    ctx.fail("slab-relocation", "a batchable request below the threshold was not relocated exactly once", inp, {"req": i}, suite="batch_write")
                elif te is None or not _SLAB_RE.match(te.location) or te.byte_range is None or \
                        te.byte_range[1] - te.byte_range[0] != r["size"] or \
                        (i in placed and r["size"] > 0 and (te.location, te.byte_range[0], te.byte_range[1]) != placed[i]):
                    ctx.fail("slab-entry", "relocated entry does not record its slab and byte range", inp, {"req": i}, suite="batch_write")
            else:
                if passed.count(i) != 1 or i in placed:
                    ctx.fail("slab-passthrough", "a non-batchable / large request did not pass through exactly once", inp, {"req": i}, suite="batch_write")
                elif te is not None and (te.location, te.byte_range) != before[id(te)]:
                    ctx.fail("slab-passthrough-entry", "entry of a passed-through request was modified", inp, {"req": i}, suite="batch_write")
    ctx.count("bw.slabs", n_slabs)
    ctx.count("bw.members", n_members)
    ctx.count("bw.passthrough", len(out_wrs) - n_slabs)
    nontrivial = n_members >= 2
    if not wellformed:
        ctx.case("batch_write", inp, nontrivial=nontrivial)
        return

    # ---- byte level: stage everything into a dict storage
    # The sub-stagers of a slab complete in a random order (k event-loop turns each): C16_slab_stage quantifies
    # over every completion order, and a stager that pairs buffers with ranges by completion order only shows then.
    for wr in out_wrs:
        st = wr.buffer_stager
        if isinstance(st, BatchedBufferStager):
            subs = list(st.byte_range_to_buffer_stager.values())
            delays = list(range(len(subs)))
            ctx.rng.shuffle(delays)
            for sub, k in zip(subs, delays):
                async def delayed(executor=None, _o=sub.stage_buffer, _k=k):
                    for _ in range(_k):
                        await asyncio.sleep(0)
                    return await _o(executor=executor)
                sub.stage_buffer = delayed
            if len(subs) >= 2 and delays != sorted(delays):
                ctx.count("bw.slab_out_of_order_completion")
    store: Dict[str, bytes] = {}
    for wr in out_wrs:
        try:
            store[wr.path] = bytes(_run(wr.buffer_stager.stage_buffer()))
        except Exception as e:
            ctx.fail("stage-raises", "stage_buffer raised", inp, _err(e), suite="batch_bytes")
            ctx.case("batch_write", inp, nontrivial=nontrivial)
            return
    for wr in out_wrs:
        st = wr.buffer_stager
        if not isinstance(st, BatchedBufferStager):
            continue
        slab = store[wr.path]
        mem = [(r, idx_of[id(s)]) for r, s in st.byte_range_to_buffer_stager.items()]
        if slab != b"".join(member_bytes[i] for _, i in mem):
            ctx.fail("slab-bytes-concat", "staged slab is not the concatenation of its members' bytes", inp, {"slab": names[wr.path]}, suite="batch_bytes")
        if any(slab[lo:hi] != member_bytes[i] for (lo, hi), i in mem):
            ctx.fail("slab-bytes-slice", "slab[lo:hi] differs from the member's bytes", inp, {"slab": names[wr.path]}, suite="batch_bytes")
        if ctx.driver:
            ms = ctx.driver.call({"op": "slab_stage", "size": st.slab_sz_bytes,
                                  "done": [{"lo": lo, "hi": hi, "data": list(member_bytes[i])} for (lo, hi), i in mem]})
            if ms != {"bytes": list(slab)}:
                ctx.disagree("stage", inp, {"bytes": list(slab)}, ms, note=names[wr.path])
    # ---- read back through prepare_read (tiled or not) and optionally batch_read_requests
    rd = inp.get("read") or {}
    limit = rd.get("limit")
    rrs_all: List[Any] = []
    futs = []
    log: List[Tuple[int, bytes]] = []
    plan = []
    expect_q: List[Dict[str, Any]] = []   # model's expectation of the read plan (fresh outputs only)
    try:
        for ei, e in enumerate(out_entries):
            kind, srcv = sources[ei]
            if kind == "sharded":
                # C08's read path; read each shard's tensor entry directly here
                outs = []
                for sh in e.shards:
                    r, f = prepare_read(sh.tensor, None, buffer_size_limit_bytes=limit)
                    rrs_all += r
                    outs.append((sh, f))
                futs.append((kind, srcv, outs))
                continue
            obj_out = None
            if kind == "tensor" and rd.get("inplace") and srcv.dtype not in (torch.complex64, torch.complex128):
                odt = str(srcv.dtype)[6:]
                if rd.get("wrong_dtype"):
                    # a destination of the right shape but another dtype cannot be loaded in place: the saved dtype must
                    # come back, for a chunked entry exactly as for a plain one
                    odt = "int32" if odt != "int32" else "float32"
                obj_out = make_tensor({"shape": list(srcv.shape), "dtype": odt, "layout": rd["inplace"], "dseed": 99})
            r, f = prepare_read(e, obj_out, buffer_size_limit_bytes=limit)
            rrs_all += r
            futs.append((kind, srcv, f))
    except Exception as e:
        ctx.fail("readback-raises", "prepare_read raised on the relocated entries", inp, _err(e), suite="batch_bytes")
        ctx.case("batch_write", inp, nontrivial=nontrivial)
        return
    if ctx.driver and not rd.get("inplace"):
        # entries -> read requests: one per tensor entry, or the model's tiles of its stored range
        exp, qs = [], []
        for ei, e in enumerate(out_entries):
            if sources[ei][0] == "object":
                exp.append([names.get(e.location, e.location), None])
                continue
            for te in _tensor_entries(e):
                loc = names.get(te.location, te.location)
                if limit is not None and te.serializer == "buffer_protocol":
                    qs.append((len(exp), {"op": "tile", "shape": list(te.shape), "flat": True, "dtype": te.dtype[6:], "limit": limit,
                                          "base": list(te.byte_range) if te.byte_range is not None else None}))
                    exp.append(loc)
                else:
                    exp.append([loc, list(te.byte_range) if te.byte_range is not None else None])
        reps = ctx.driver.call_many([q for _, q in qs])
        flat_exp = []
        tiles_at = {pos: rep for (pos, _), rep in zip(qs, reps)}
        for pos, x in enumerate(exp):
            if pos in tiles_at:
                flat_exp += [[x, t["range"]] for t in tiles_at[pos].get("tiles", [{"range": "model-error"}])]
            else:
                flat_exp.append(x)
        impl_plan = [[names.get(rr.path, rr.path), list(rr.byte_range) if rr.byte_range is not None else None] for rr in rrs_all]
        ctx.count("rb.read_plan_compared")
        if impl_plan != flat_exp:
            ctx.disagree("read_plan", inp, impl_plan, flat_exp)
    for cid, rr in enumerate(rrs_all):
        plan.append({"path": names.get(rr.path, rr.path), "range": list(rr.byte_range) if rr.byte_range is not None else None, "consumer": cid})
        rr.buffer_consumer = _Recorder(rr.buffer_consumer, log, cid)
    do_merge = bool(rd.get("merge"))
    if rd.get("rorder") is not None:
        z = list(zip(rrs_all, plan))
        random.Random(rd["rorder"]).shuffle(z)
        rrs_all, plan = [a for a, _ in z], [b for _, b in z]
    try:
        exec_rrs = batch_read_requests(list(rrs_all)) if do_merge else rrs_all
        for rr in exec_rrs:
            _run(rr.buffer_consumer.consume_buffer(fs_read(store[rr.path], rr.byte_range)))
    except Exception as e:
        ctx.fail("readback-raises", "reading back through the plan raised", inp, _err(e), suite="batch_bytes")
        ctx.case("batch_write", inp, nontrivial=nontrivial)
        return
    for kind, srcv, f in futs:
        if kind == "tensor":
            got = f.obj
            if got.dtype != srcv.dtype or list(got.shape) != list(srcv.shape) or tbytes(got) != tbytes(srcv):
                ctx.fail("roundtrip-tensor", "tensor read back through the plan is not bit-identical", inp, {"shape": list(srcv.shape)}, suite="batch_bytes")
        elif kind == "sharded":
            for sh, sf in f:
                exp = srcv.narrow(0, sh.offsets[0], sh.sizes[0])
                if tbytes(sf.obj) != tbytes(exp) or list(sf.obj.shape) != list(exp.shape):
                    ctx.fail("roundtrip-tensor", "shard read back through the plan is not bit-identical", inp, {"offsets": sh.offsets}, suite="batch_bytes")
        elif kind == "object":
            if f.obj != srcv:
                ctx.fail("roundtrip-object", "object read back differs", inp, None, suite="batch_bytes")
    if ctx.driver:
        files = [{"path": names.get(p, p), "data": list(b)} for p, b in store.items()]
        md = ctx.driver.call({"op": "exec_read", "merge": do_merge, "files": files, "reqs": plan})
        impl_d = {"deliveries": sorted([[c, list(b)] for c, b in log])}
        if "deliveries" in md:
            md["deliveries"] = sorted(md["deliveries"])
        if md != impl_d:
            ctx.disagree("exec_read", inp, impl_d, md)
        if do_merge:
            _compare_batch_read(ctx, inp, plan, exec_rrs, names, "batch_read_plan")
    ctx.count("rb.merge" if do_merge else "rb.plain")
    ctx.count("rb.tiled" if limit is not None else "rb.untiled")
    ctx.count("rb.read_reqs", len(rrs_all))
    ctx.case("batch_write", inp, nontrivial=nontrivial)


def _canon_merged(out_rrs, names, cid_of):
    from torchsnapshot.batcher import BatchedBufferConsumer
    res = []
    for rr in out_rrs:
        bc = rr.buffer_consumer
        if isinstance(bc, BatchedBufferConsumer):
            res.append({"path": names.get(rr.path, rr.path), "range": list(rr.byte_range), "buf_sz": bc.buf_sz_bytes,
                        "subs": [[k[0], k[1], cid_of(c)] for k, c in bc.byte_range_to_buffer_consumer.items()]})
        else:
            res.append({"path": names.get(rr.path, rr.path), "range": list(rr.byte_range) if rr.byte_range is not None else None,
                        "consumer": cid_of(bc)})
    return res


def _compare_batch_read(ctx, inp, plan, out_rrs, names, suite):
    impl = {"reqs": _canon_merged(out_rrs, names, lambda c: c.cid)}
    model = ctx.driver.call({"op": "batch_read", "reqs": plan})
    if model != impl:
        ctx.disagree(suite, inp, impl, model)


# --------------------------------------------------------------------------------------------------
# suite 5: batch_read_requests on synthetic request lists
# --------------------------------------------------------------------------------------------------

class _Sink:
    def __init__(self, cid, log):
        self.cid, self.log = cid, log

    async def consume_buffer(self, buf, executor=None):
        self.log.append((self.cid, bytes(buf)))

    def get_consuming_cost_bytes(self):
        return 0


def check_batch_read(ctx: Ctx, inp, verbose=False):
    """inp: {files: {path: len}, reqs: [{path, range}]}"""
    from torchsnapshot.batcher import batch_read_requests
    from torchsnapshot.io_types import ReadReq
    files = {p: bytes((i * 13 + 7 * (k + 1)) % 256 for i in range(n)) for k, (p, n) in enumerate(sorted(inp["files"].items()))}
    log: List[Tuple[int, bytes]] = []
    plan = [{"path": r["path"], "range": r["range"], "consumer": i} for i, r in enumerate(inp["reqs"])]
    rrs = [ReadReq(path=r["path"], buffer_consumer=_Sink(i, log), byte_range=tuple(r["range"]) if r["range"] is not None else None)
           for i, r in enumerate(inp["reqs"])]
    try:
        out = batch_read_requests(list(rrs))
        impl = {"reqs": _canon_merged(out, {}, lambda c: c.cid)}
    except Exception as e:
        out = None
        impl = _err(e)
    model = None
    if ctx.driver:
        model = ctx.driver.call({"op": "batch_read", "reqs": plan})
        if model != impl:
            ctx.disagree("batch_read", inp, impl, model)
    if verbose:
        print("impl :", impl, "\nmodel:", model)
    if out is None:
        ctx.fail("batch-read-raises", "batch_read_requests raised", inp, impl, suite="batch_read")
        ctx.case("batch_read", inp, nontrivial=False)
        return
    # execute against the files (FS plugin semantics: seek + read(hi - lo))
    for rr in out:
        _run(rr.buffer_consumer.consume_buffer(fs_read(files[rr.path], rr.byte_range)))
    impl_d = {"deliveries": sorted([[c, list(b)] for c, b in log])}
    if ctx.driver:
        md = ctx.driver.call({"op": "exec_read", "merge": True, "reqs": plan,
                              "files": [{"path": p, "data": list(b)} for p, b in files.items()]})
        if "deliveries" in md:
            md["deliveries"] = sorted(md["deliveries"])
        if md != impl_d:
            ctx.disagree("batch_read_exec", inp, impl_d, md)
    # oracle: with pairwise distinct (location, range), lo <= hi and long-enough files, consumer i gets file[lo:hi]
    keys = [(r["path"], tuple(r["range"])) for r in inp["reqs"] if r["range"] is not None]
    domain = len(set(keys)) == len(keys) and all(r["range"] is None or (r["range"][0] <= r["range"][1] <= len(files[r["path"]])) for r in inp["reqs"])
    ctx.count("br.in-domain" if domain else "br.out-of-domain")
    if domain:
        got: Dict[int, List[bytes]] = {}
        for c, b in log:
            got.setdefault(c, []).append(b)
        for i, r in enumerate(inp["reqs"]):
            exp = files[r["path"]] if r["range"] is None else files[r["path"]][r["range"][0]:r["range"][1]]
            if got.get(i) != [exp]:
                ctx.fail("batchread-slice", "a consumer of a merged read did not receive exactly file[lo:hi] once", inp,
                         {"consumer": i, "got": [list(x) for x in got.get(i, [])], "expected": list(exp)}, suite="batch_read")
                break
    nloc = len({r["path"] for r in inp["reqs"] if r["range"] is not None})
    ctx.case("batch_read", inp, nontrivial=len(keys) >= 2 and nloc < len(keys))


# --------------------------------------------------------------------------------------------------
# generators
# --------------------------------------------------------------------------------------------------

def _rand_shape(rng, max_numel=64):
    nd = rng.choice([0, 1, 1, 2, 2, 2, 3, 3, 4])
    while True:
        shape = [rng.choice([0, 1, 1, 2, 3, 4, 5, 7, 8, 16]) if rng.random() < 0.93 else rng.randint(9, 40) for _ in range(nd)]
        if _numel(shape) <= max_numel:
            return shape


def _rand_layout(rng, shape):
    if not shape:
        return rng.choice(["contig", "offset"])
    l = rng.choice(LAYOUTS)
    if l == "transpose" and len(shape) < 2:
        l = "stride2"
    return l


def _thresholds(rng, es, row, total):
    c = {1, 2, max(es - 1, 1), es, es + 1, max(row - 1, 1), max(row, 1), row + 1, max(total // 2, 1), max(total // 3, 1),
         max(total - 1, 1), max(total, 1), total + 1, 2 * total + 3}
    c.add(rng.randint(1, max(total + 2, 2)))
    return sorted(c)


def _gen_chunk_random(ctx: Ctx):
    rng = ctx.rng
    shape = _rand_shape(rng)
    dtype = rng.choice(BP + BP + NON_BP)
    es = ES[dtype]
    total = _numel(shape) * es
    row = _numel((shape or [1])[1:]) * es
    thr = rng.choice(_thresholds(rng, es, row, total))
    return {"t": {"shape": shape, "dtype": dtype, "layout": _rand_layout(rng, shape), "dseed": rng.randrange(1 << 30)},
            "thr": thr, "via": rng.choice(["arg", "arg", "env"])}


def _small_shapes(max_numel, max_dim=4, dims=(0, 1, 2, 3, 4, 5, 6, 7, 8)):
    yield []
    for nd in range(1, max_dim + 1):
        for shape in itertools.product(dims, repeat=nd):
            if _numel(shape) <= max_numel and sum(1 for d in shape if d > 3) <= 1:
                yield list(shape)


def _gen_plan_random(ctx: Ctx, adversarial=False):
    rng = ctx.rng
    nobj = rng.choice([1, 2, 3, 4, 6, 8, 12])
    objs = []
    for i in range(nobj):
        r = rng.random()
        path = "m/%s%d" % (rng.choice(["w", "b", "opt/state", "x_0"]), i)
        if r < 0.66:
            shape = _rand_shape(rng, 48)
            dtype = rng.choice(BP + BP + BP + NON_BP)
            objs.append({"k": "tensor", "path": path, "prep": rng.random() < 0.08,
                         "t": {"shape": shape, "dtype": dtype, "layout": _rand_layout(rng, shape), "dseed": rng.randrange(1 << 30)}})
        elif r < 0.76:
            objs.append({"k": "object", "path": path, "val": rng.randrange(100)})
        elif r < 0.82:
            objs.append({"k": "prim", "path": path, "val": rng.randrange(100)})
        else:
            rows = [rng.choice([1, 2, 3]) for _ in range(rng.randint(1, 4))]
            shape = [sum(rows)] + [rng.choice([1, 2, 3]) for _ in range(rng.choice([0, 1, 2]))]
            objs.append({"k": "sharded", "path": path, "rows": rows,
                         "t": {"shape": shape, "dtype": rng.choice(BP), "layout": "contig", "dseed": rng.randrange(1 << 30)}})
    sizes = [_numel(o["t"]["shape"]) * ES[o["t"]["dtype"]] for o in objs if "t" in o] or [1]
    total = sum(sizes)
    thr = rng.choice([1, 2, 3, 4, 5, 8, 9, 16, 17, 33, max(sizes), max(sizes) + 1, min(sizes) + 1, total, total + 1, 2 * total + 1,
                      rng.randint(1, total + 2)])
    inp = {"objs": objs, "thr": max(thr, 1), "via": rng.choice(["arg", "arg", "env"]),
           "chunk_knob": rng.choice([None, None, 1, 4, 7, 16, 64]),
           "order": rng.choice([None, rng.randrange(1 << 20)]),
           "read": {"limit": rng.choice([None, None, 1, 2, 3, 5, 8, 16, 1000]), "merge": rng.random() < 0.6,
                    "rorder": rng.choice([None, rng.randrange(1 << 20)]),
                    "inplace": rng.choice([None, None, "contig", "transpose", "stride2", "offset", "lastslice"]),
                    "wrong_dtype": rng.random() < 0.25}}
    if adversarial:
        inp["malformed"] = True
        k = rng.randrange(3)
        if k == 0:
            inp["drop_entries"] = [rng.randrange(nobj)]
        elif k == 1:
            inp["dup_req"] = rng.randrange(8)
        else:
            objs.append(dict(objs[0]))  # two objects with the same logical path -> same locations
    return inp


def _gen_batch_read(ctx: Ctx):
    rng = ctx.rng
    paths = ["batched/s%d" % i for i in range(rng.randint(1, 3))] + ["0/w"]
    files = {p: rng.choice([0, 1, 5, 16, 40]) for p in paths}
    reqs = []
    mode = rng.random()
    for _ in range(rng.randint(1, 9)):
        p = rng.choice(paths)
        L = files[p]
        r = rng.random()
        if r < 0.15:
            reqs.append({"path": p, "range": None})
        else:
            lo = rng.randint(0, L)
            hi = rng.randint(lo, L)
            if mode < 0.12:  # outside the domain: past the end / inverted
                hi = rng.randint(0, L + 6)
            reqs.append({"path": p, "range": [lo, hi]})
    if mode > 0.5:  # force the in-domain case: distinct (path, range)
        seen, out = set(), []
        for r in reqs:
            k = (r["path"], tuple(r["range"]) if r["range"] else None)
            if r["range"] is None or k not in seen:
                out.append(r)
            seen.add(k)
        reqs = out
    return {"files": files, "reqs": reqs}


CORPUS = [
    ("chunk", {"t": {"shape": [], "dtype": "float32"}, "thr": 1}),
    ("chunk", {"t": {"shape": [], "dtype": "float64"}, "thr": 100}),
    ("chunk", {"t": {"shape": [0, 3], "dtype": "int16"}, "thr": 4}),
    ("chunk", {"t": {"shape": [3, 0], "dtype": "int16"}, "thr": 4}),
    ("chunk", {"t": {"shape": [5, 2], "dtype": "int8", "layout": "transpose"}, "thr": 3}),
    ("chunk", {"t": {"shape": [7], "dtype": "bfloat16"}, "thr": 1}),
    ("chunk", {"t": {"shape": [7, 3], "dtype": "complex64"}, "thr": 50}),
    ("chunk", {"t": {"shape": [4, 4], "dtype": "float32"}, "thr": 0, "via": "env"}),
    ("tile", {"shape": [0], "dtype": "float32", "limit": 4, "base": None}),
    ("tile", {"shape": [2, 0], "dtype": "float32", "limit": 1, "base": [8, 8]}),
    ("tile", {"shape": [], "dtype": "int64", "limit": 1, "base": [16, 24]}),
    ("tile", {"shape": [3, 4], "dtype": "int16", "limit": 7, "base": [10, 34], "out": "transpose"}),
    ("tile", {"shape": [3, 4], "dtype": "int16", "limit": 24, "base": None, "via": "prepare_read"}),
    ("tile", {"shape": [5], "dtype": "uint8", "limit": 0, "base": None}),
    ("batch_write", {"objs": [{"k": "tensor", "path": "m/a", "t": {"shape": [0], "dtype": "float32"}},
                              {"k": "tensor", "path": "m/b", "t": {"shape": [2, 0], "dtype": "int8"}},
                              {"k": "tensor", "path": "m/c", "t": {"shape": [3], "dtype": "int8"}}], "thr": 4,
                     "read": {"limit": 1, "merge": True}}),
    ("batch_write", {"objs": [{"k": "tensor", "path": "m/a", "t": {"shape": [4], "dtype": "int8"}},
                              {"k": "tensor", "path": "m/b", "t": {"shape": [4], "dtype": "int8"}},
                              {"k": "tensor", "path": "m/c", "t": {"shape": [3], "dtype": "int8"}}], "thr": 8,
                     "read": {"limit": None, "merge": True}}),
    ("batch_read", {"files": {"s": 12}, "reqs": [{"path": "s", "range": [4, 8]}, {"path": "s", "range": [4, 8]}, {"path": "s", "range": [0, 4]}]}),
    ("batch_read", {"files": {"s": 12, "t": 3}, "reqs": [{"path": "s", "range": [8, 12]}, {"path": "t", "range": None}, {"path": "s", "range": [2, 2]}, {"path": "s", "range": [0, 4]}]}),
]

CHECKS = {"torch_chunk": check_torch_chunk, "chunk": check_chunk, "plan_write": check_plan_write, "tile": check_tile,
          "batch_write": check_batch_write, "batch_read": check_batch_read}


def _do(ctx: Ctx, suite: str, inp: Dict[str, Any]):
    inp = dict(inp)
    inp["suite"] = suite
    CHECKS[suite](ctx, inp)


def _sharded_in_slab_suite(ctx: Ctx):
    """Subdivided shards of one sharded tensor packed into one slab by the write batcher, read back through the sharded
    read plan (merged or not) into another partition: C08's reshard case with slab batching forced on."""
    from props import c08
    c08._setup()
    for _ in range(ctx.n(60, 600)):
        inp = c08._rand_reshard_input(ctx.rng)
        numel = 1
        for x in inp.get("shape", [1]):
            numel *= x
        inp["batch"] = ctx.rng.choice([10 ** 9, 10 ** 9, numel * 8 + 1])
        c08._case_reshard(ctx, inp, suite="shards_in_slab")
    # subdivision of a local shard along its sharding dim, the dim also spelled from the end (dim=-1, -2)
    rng = ctx.rng
    for _ in range(ctx.n(150, 1500)):
        nd = rng.choice([1, 2, 2, 3])
        offsets, sizes = c08._rand_box(rng, nd)
        dim = rng.randrange(nd)
        dtype = rng.choice(c08.DTYPES)
        mx = rng.choice(c08._thresholds(rng, sizes, dim, c08.ELEM[dtype]))
        c08._case_subdivide(ctx, {"kind": "subdivide", "offsets": offsets, "sizes": sizes, "dim": dim, "max": mx, "dtype": dtype,
                                  "neg": rng.random() < 0.5}, "subdivide_negdim")


def run(ctx: Ctx):
    rng = ctx.rng
    for suite, inp in CORPUS:
        _do(ctx, suite, inp)
    _sharded_in_slab_suite(ctx)
    # torch.chunk itself: exhaustive small
    N = ctx.n(14, 40)
    for d in range(N + 1):
        for n in range(N + 2):
            check_torch_chunk(ctx, {"suite": "torch_chunk", "d": d, "n": n})
    ctx.case("torch_chunk", {"d": "0..%d" % N, "n": "0..%d" % (N + 1)}, nontrivial=True)
    # bounded-exhaustive chunking: every small shape x element size x threshold 1..bytes+1
    ex_shapes = list(_small_shapes(ctx.n(6, 8), max_dim=ctx.n(3, 4)))
    rng.shuffle(ex_shapes)
    # emergency cut-off only: the quick scope normally completes (~25 s); thorough spends about half its budget here
    t_end_ex = ctx.time_left() * (0.3 if ctx.quick else 0.5)
    done_ex = 0
    for shape in ex_shapes:
        if ctx.time_left() < t_end_ex:
            ctx.notes.append(f"exhaustive chunk scope stopped after {done_ex}/{len(ex_shapes)} shapes")
            break
        for dtype in (["uint8", "bfloat16", "float32", "int64", "complex128"] if ctx.quick else BP + NON_BP):
            es = ES[dtype]
            total = _numel(shape) * es
            lay = _rand_layout(rng, shape)
            row = _numel((shape or [1])[1:]) * es
            thrs = range(1, total + 2) if (total <= 24 or not ctx.quick) else _thresholds(rng, es, row, total)
            for thr in thrs:
                _do(ctx, "chunk", {"t": {"shape": shape, "dtype": dtype, "layout": lay, "dseed": 3}, "thr": thr})
            if dtype in BP:
                for limit in sorted({1, es, es + 1, max(total // 2, 1), max(total - 1, 1), max(total, 1), total + 1}):
                    _do(ctx, "tile", {"shape": shape, "dtype": dtype, "limit": limit, "base": rng.choice([None, [5, 5 + total]]),
                                      "out": rng.choice([None, lay if lay != "expand" else None])})
        done_ex += 1
    ctx.count("exhaustive.shapes", done_ex)
    # random streams
    n_rand = ctx.n(1000, 12000)
    for i in range(n_rand):
        if ctx.time_left() < 12:
            ctx.notes.append(f"random stream stopped early at {i}/{n_rand}")
            break
        k = i % 10
        if k < 3:
            _do(ctx, "chunk", _gen_chunk_random(ctx))
        elif k == 3:
            g = _gen_chunk_random(ctx)
            _do(ctx, "plan_write", {"t": g["t"], "thr": g["thr"]})
        elif k < 6:
            shape = _rand_shape(rng)
            dtype = rng.choice(BP)
            es, total = ES[dtype], _numel(shape) * ES[dtype]
            base = rng.choice([None, None, [rng.randint(0, 40)] * 2])
            if base:
                base = [base[0], base[0] + total]
            lay = _rand_layout(rng, shape)
            if len(shape) >= 2 and rng.random() < 0.5:
                lay = rng.choice(["transpose", "lastslice", "stride2"])
            _do(ctx, "tile", {"shape": shape, "dtype": dtype, "out": rng.choice([None, lay, lay]) if lay != "expand" else None,
                              "limit": rng.choice(_thresholds(rng, es, es, total)), "base": base,
                              "via": rng.choice(["tiled", "prepare_read"]), "dseed": rng.randrange(1 << 30)})
        elif k < 9:
            _do(ctx, "batch_write", _gen_plan_random(ctx, adversarial=(i % 50 == 7)))
        else:
            _do(ctx, "batch_read", _gen_batch_read(ctx))
    if _loop is not None and not _loop.is_closed():
        _loop.close()


def replay(ctx: Ctx, rec):
    inp = rec["input"]
    suite = inp.get("suite")
    if inp.get("kind") == "subdivide":
        from props import c08
        c08._setup()
        c08._case_subdivide(ctx, inp, "replay")
        for f in ctx.failures:
            print("FAIL", f["sig"], f["what"], f["observed"])
        return
    if rec.get("suite") == "shards_in_slab" or (suite is None and "batch" in inp):
        from props import c08
        c08._setup()
        c08._case_reshard(ctx, inp, suite="replay", verbose=True)
        for f in ctx.failures:
            print("FAIL", f["sig"], f["what"], f["observed"])
        return
    if suite not in CHECKS:
        print("cannot replay: no suite in input")
        return
    print("replaying suite", suite, "input", inp)
    CHECKS[suite](ctx, inp, verbose=True)
    for f in ctx.failures:
        print("FAIL", f["sig"], f["what"], f["observed"])
    for d in ctx.disagreements:
        print("DISAGREE", d["suite"], "\n impl :", d["impl"], "\n model:", d["model"])


LEVEL_TEXT = ("Lean 4 theorems, unbounded in shape, element size, threshold, limit and request count: torch.chunk sizes and "
              "chunk_tensor offsets/sizes exactly partition dim 0 (every threshold >= 1, below one element and above the "
              "tensor), chunk byte slices concatenate to the tensor's bytes; tile ranges exactly cover [base, base+size) and "
              "element counts sum to numel; slab ranges are consecutive from 0, disjoint, sum to the slab size, every "
              "batchable request below the threshold is relocated exactly once, the staged slab is the concatenation of "
              "its members for every completion order and slab[lo:hi] returns the member; merged reads hand each consumer "
              "exactly file[lo:hi]; write plan then read plan (tiled or not, merged or not, any request order) returns the "
              "staged bytes. The model is tied to the real planners and to real stage_buffer/consume_buffer on every run.")
LEVEL_NOTE = ("Trusted: Lean kernel (+propext, Classical.choice, Quot.sound), the hand model lean/TsModel/{Chunk,Slab,BatchRead}.lean, "
              "the harness; torch's layout-to-bytes code and uuid4 freshness are assumed, sampled not proved; GPU slabs not modelled; "
              "subdivide_shard is covered by C08.")
TECHNIQUE = "Lean 4 proof over executable model + differential correspondence with the real planners, stagers and consumers"
