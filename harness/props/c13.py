"""C13 — Async commit barrier: commit after all arrive; errors reach every rank."""
from __future__ import annotations

import itertools
import random

import commitlib as cl
import detsim
from common import Ctx

PROP = "C13"
LEAN_MODULE = "TsProofs.Properties.C13Concurrent"   # imports TsProofs.Properties.C13
THEOREMS = [
    "Ts.Commit.C13_commit_after_all_arrive",
    "Ts.Commit.C13_commit_after_all_arrive_before",
    "Ts.Commit.C13_no_early_completion",
    "Ts.Commit.C13_error_reaches_all",
    "Ts.Commit.C13_bounded_executions",
    "Ts.Commit.C13_histories",
    "Ts.Commit.C13_witness_stale_success",
    "Ts.Commit.C13_witness_stale_error",
    # overlapping pending snapshots (TsModel/Concurrent.lean)
    "Ts.Commit.C13_concurrent_independent",
    "Ts.Commit.C13_concurrent_commit_last",
    "Ts.Commit.astep_frame",
]
BUDGET_S = (150, 900)
RULE = ("The real Snapshot.async_take + PendingSnapshot._complete_snapshot threads run for W in {1,2,3,4} ranks under the "
        "deterministic scheduler (harness/detsim.py: gated in-memory storage, gated fake process group, gated fake store; one "
        "gate released per global quiescence; seeded, adversarial rank-priority and DFS schedules), with a fault at a payload "
        "write of any rank or at the metadata write, in histories of 1-3 successive attempts of one job on the same or on "
        "different paths (after a failed attempt, or after a successful one that was deleted). Correspondence: every observed "
        "linearised history (storage begin/end, sync_complete return/raise, store set/wait/get with key and value class, "
        "thread exit) is replayed in the Lean model by the driver: every event must be the model's step for that rank, the "
        "final per-rank outcomes must agree and the model must have no enabled control step left; barrier prefixes of the "
        "attempts must be pairwise distinct (hypothesis of C13_histories). Oracle on the real history: metadata write begins "
        "after sync_complete returned on every rank; wait() success only after the metadata write returned; after any failure "
        "every wait() raises, nothing is committed and nothing deadlocks; without failure nobody raises. A case is non-trivial "
        "if it has >= 2 ranks; distinct by (workload, faults, schedule choices).")
TRUSTED = ["harness/detsim.py: the deterministic scheduler and its gated storage / process group / store (a scheduling "
           "restriction: a storage gate is released only while its event loop is running)",
           "the store is linearizable and never drops keys; collectives are atomic rendezvous"]
ASSUMPTIONS = ["barrier ids of different attempts are distinct (63-bit random id broadcast by rank 0); checked on every observed history",
               "wall-clock timeouts (1800 s barrier, 600 s store) are not modelled: 'raises' is shown as absence of deadlock",
               "a write that already fails while async_take is still staging in the foreground makes async_take itself raise on "
               "that rank; that case is outside _complete_snapshot and outside the model (counted, not compared)"]
LEVEL_TEXT = ("Lean 4 theorems for every world size n, workload, fault plan, schedule and history of attempts: metadata begins only "
              "after sync_complete returned on every rank; wait() succeeds only after the commit; any failure (payload on any rank, "
              "or the leader's metadata write) leaves no rank with success, nothing committed, no deadlock, and every finished rank "
              "raising; all of it for every history of rounds with pairwise distinct barrier prefixes sharing one store, whatever "
              "earlier rounds did; plus two decide-checked witnesses that with a reused prefix the statements fail (why the D7 "
              "repair is needed). The model is tied to the real code on every run by replaying deterministic-scheduler histories of "
              "the real threads in the Lean driver, and the property oracle is evaluated on the same histories."
              ' Two overlapping pending snapshots with different barrier prefixes, interleaved in any way, each behave exactly as if run alone (C13_concurrent_independent), so the single-attempt theorems apply to each.')
LEVEL_NOTE = ("Trusted: Lean kernel (+propext, Classical.choice, Quot.sound), the hand model lean/TsModel/{Barrier,Commit}.lean, "
              "harness/detsim.py. Not modelled: timeouts, failures surfacing in the foreground part of async_take.")
TECHNIQUE = "Lean 4 invariant proof over an executable transition system + trace-acceptance correspondence under a deterministic scheduler"

PATHS = ["/snap/A", "/snap/B"]

# minimized scenarios that exposed defects (D7) or model errors; run first
CORPUS = [
    # D7: second attempt to the same path (after deletion) with the leader eager and rank 1 lazy
    {"W": 2, "rounds": [
        {"mode": "async", "path": "/snap/A", "spec": {"tensors": [[2], [2]], "seed": 1, "nobatch": True}, "faults": [],
         "chooser": {"kind": "seed", "seed": 1}},
        {"mode": "async", "path": "/snap/A", "delete_before": True,
         "spec": {"tensors": [[2], [2]], "seed": 2, "nobatch": True}, "faults": [], "chooser": {"kind": "prio", "order": [0, 1]}}]},
    # D7: a failed attempt, then a fault-free one to the same path
    {"W": 2, "rounds": [
        {"mode": "async", "path": "/snap/A", "spec": {"tensors": [[2], [2]], "seed": 1, "nobatch": True}, "faults": [[1, 0]],
         "chooser": {"kind": "seed", "seed": 3}},
        {"mode": "async", "path": "/snap/A", "spec": {"tensors": [[2], [2]], "seed": 2, "nobatch": True}, "faults": [],
         "chooser": {"kind": "prio", "order": [0, 1]}}]},
    # leader's own payload fails, 3 ranks, leader last
    {"W": 3, "rounds": [
        {"mode": "async", "path": "/snap/A", "spec": {"tensors": [[2], [2, 1], [1]], "seed": 4, "nobatch": True}, "faults": [[0, 0]],
         "chooser": {"kind": "prio", "order": [2, 1, 0]}}]},
    # metadata write fails, leader first
    {"W": 3, "rounds": [
        {"mode": "async", "path": "/snap/A", "spec": {"tensors": [[2], [2], [1]], "seed": 4, "nobatch": True}, "faults": [[0, "meta"]],
         "chooser": {"kind": "prio", "order": [0, 2, 1]}}]},
]


def rand_chooser(rng: random.Random, W: int):
    x = rng.random()
    if x < 0.6:
        return {"kind": "seed", "seed": rng.randrange(10 ** 6)}
    order = list(range(W))
    rng.shuffle(order)
    return {"kind": "prio", "order": order}


def rand_fault(rng: random.Random, W: int, spec, p_none=0.4):
    """None, a payload write of some rank, or the metadata write (write index = #payload writes on rank 0)."""
    x = rng.random()
    if x < p_none:
        return []
    if x < p_none + 0.15:
        return [[0, "meta"]]
    r = rng.randrange(W)
    return [[r, rng.randrange(len(spec["tensors"][r])) if spec.get("nobatch", True) else 0]]


def gen_history(rng: random.Random, W: int, length: int):
    rounds = []
    for _ in range(length):
        path = rng.choice(PATHS) if rng.random() < 0.5 else PATHS[0]
        spec = cl.rand_workload(rng, W)
        if rounds and rng.random() < 0.5:
            # a retry / periodic re-save of the *same* state to the *same* path (identical manifest when nothing is
            # slab-batched): barrier keys must still be fresh per attempt, not per content
            path = rounds[-1]["path"]
            spec = dict(rounds[-1]["spec"], nobatch=True)
            rounds[-1]["spec"] = dict(rounds[-1]["spec"], nobatch=True)
        faults = rand_fault(rng, W, spec)
        rd = {"mode": "async", "path": path, "spec": spec, "faults": faults, "chooser": rand_chooser(rng, W)}
        rounds.append(rd)       # (a committed snapshot at `path` is deleted first: see run_case)
    return {"W": W, "rounds": rounds}


def _account(ctx: Ctx, case, summ, suite):
    for rd, rs in zip(case["rounds"], summ["rounds"]):
        ctx.count(f"W={case['W']}")
        ctx.count("fault." + ("none" if not rd.get("faults") else
                              ("meta" if rd["faults"][0][1] == "meta" else "payload")))
        ctx.count("schedule." + rd["chooser"]["kind"])
        ctx.count("outcome." + "/".join(sorted(set(rs["outcomes"]))))
        ctx.count("steps", rs["steps"])
    key = [[rd["spec"], rd.get("faults"), [c[0] for c in rs["choices"]]] for rd, rs in zip(case["rounds"], summ["rounds"])]
    sample = {"W": case["W"], "rounds": [{"path": rd["path"], "faults": rd.get("faults"), "chooser": rd["chooser"],
                                          "outcomes": rs["outcomes"], "steps": rs["steps"]}
                                         for rd, rs in zip(case["rounds"], summ["rounds"])]}
    ctx.case(suite, sample, nontrivial=case["W"] >= 2, key=key)


def run(ctx: Ctx):
    detsim.install()
    for case in CORPUS:
        _account(ctx, case, cl.run_case(ctx, case, "corpus"), "corpus")
    if not ctx.quick:
        _dfs(ctx, [2])
    # single attempts: every fault position x several schedules
    n_single = ctx.n(120, 600)
    for i in range(n_single):
        if ctx.time_left() < (20 if ctx.quick else 400):
            ctx.notes.append(f"async_single stopped early at {i}")
            break
        W = ctx.rng.choice([1, 2, 2, 3, 3, 4])
        spec = cl.rand_workload(ctx.rng, W)
        case = {"W": W, "rounds": [{"mode": "async", "path": "/snap/A", "spec": spec,
                                    "faults": rand_fault(ctx.rng, W, spec, p_none=0.3), "chooser": rand_chooser(ctx.rng, W)}]}
        _account(ctx, case, cl.run_case(ctx, case, "async_single"), "async_single")
    # histories of 2..3 attempts sharing the job's store
    n_hist = ctx.n(100, 500)
    for i in range(n_hist):
        if ctx.time_left() < (15 if ctx.quick else 200):
            ctx.notes.append(f"async_history stopped early at {i}")
            break
        W = ctx.rng.choice([2, 2, 3, 4])
        case = gen_history(ctx.rng, W, ctx.rng.choice([2, 3, 3]))
        _account(ctx, case, cl.run_case(ctx, case, "async_history"), "async_history")
    if not ctx.quick:
        _dfs(ctx, [3])


def _dfs(ctx: Ctx, worlds):
    """Thorough: exhaustive interleavings by stateless DFS (collectives of the foreground part released
    in a fixed order; a storage gate is schedulable while its event loop runs): W=2 every fault
    position, W=3 fault-free and with one fault, and histories of two attempts on the same path."""
    scen = [(2, {"tensors": [[2], [1]], "seed": 5, "nobatch": True}, f, 400)
            for f in ([], [[0, 0]], [[1, 0]], [[0, "meta"]])]
    scen += [(2, {"tensors": [[1, 1], [1]], "seed": 5, "nobatch": True}, f, 400) for f in ([], [[0, 1]], [[1, 0]])]
    scen += [(3, {"tensors": [[1], [1], [1]], "seed": 6, "nobatch": True}, f, 700) for f in ([], [[2, 0]], [[0, "meta"]])]
    for W, spec, faults, budget in scen:
        if W not in worlds:
            continue
        if ctx.time_left() < (200 if W == 2 else 30):
            ctx.notes.append("dfs stopped early (time)")
            return

        def run_prefix(prefix, W=W, spec=spec, faults=faults):
            case = {"W": W, "rounds": [{"mode": "async", "path": "/snap/A", "spec": spec, "faults": faults,
                                        "chooser": {"kind": "prefix", "prefix": prefix}, "boring_first": True,
                                        "fresh_read": False}]}
            summ = cl.run_case(ctx, case, "async_dfs")
            _account(ctx, case, summ, "async_dfs")
            return summ["rounds"][0]["result"]

        st = detsim.dfs(run_prefix, budget, rng=random.Random(ctx.seed))
        ctx.notes.append(f"dfs W={W} writes={spec['tensors']} faults={faults}: {st}")
    if 2 not in worlds:
        return
    # histories of length 2 on the same path: every schedule of round 1 x every schedule of round 2
    spec = {"tensors": [[1], [1]], "seed": 7, "nobatch": True}
    for f1 in ([], [[1, 0]], [[0, "meta"]]):
        firsts = []

        def run1(prefix, f1=f1):
            job = detsim.Job(2)
            res = cl.run_round(job, "async", "/snap/A", spec, {"kind": "prefix", "prefix": prefix}, faults=f1,
                               fresh_read=False, boring_first=True)
            firsts.append(res.choice_indices())
            return res

        detsim.dfs(run1, 60)
        n2 = 0
        for p1 in firsts:
            if ctx.time_left() < 150:
                break

            def run2(prefix, p1=p1, f1=f1):
                case = {"W": 2, "rounds": [
                    {"mode": "async", "path": "/snap/A", "spec": spec, "faults": f1,
                     "chooser": {"kind": "prefix", "prefix": p1}, "boring_first": True, "fresh_read": False},
                    {"mode": "async", "path": "/snap/A", "spec": spec, "faults": [],
                     "chooser": {"kind": "prefix", "prefix": prefix}, "boring_first": True, "fresh_read": False}]}
                summ = cl.run_case(ctx, case, "async_dfs_history")
                _account(ctx, case, summ, "async_dfs_history")
                return summ["rounds"][1]["result"]

            n2 += detsim.dfs(run2, 60)["runs"]
        ctx.notes.append(f"dfs histories W=2 first-round faults={f1}: {len(firsts)} x second-round schedules = {n2} runs")


def replay(ctx: Ctx, rec):
    detsim.install()
    case = rec["input"]
    for rd in case["rounds"]:
        rd.pop("observed_keys", None)
    summ = cl.run_case(ctx, case, "replay")
    for i, rs in enumerate(summ["rounds"]):
        print(f"round {i}: outcomes={rs['outcomes']} deadlock={rs['deadlock']}")
        print("  impl :", " ".join(cl.compact(rs["result"].history)))
        m = rs.get("model")
        if m:
            print("  model: accepted", m.get("accepted"), "/", m.get("total"), "rejected:", m.get("rejected"), "outcomes:", m.get("outcomes"))
    print("oracle failures:", [(s, t) for s, t, _ in summ["failures"]])
    print("disagreements:", summ["disagreements"])
