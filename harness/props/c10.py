"""C10 — I/O pipelines respect the memory budget and the concurrency cap."""
from __future__ import annotations

import os
import random
import sys

from common import Ctx
import schedsim as S

PROP = "C10"
LEAN_MODULE = "TsProofs.Properties.C10"
THEOREMS = [
    "Ts.Sched.C10_conservation",
    "Ts.Sched.C10_bound_write",
    "Ts.Sched.C10_bound_read",
    "Ts.Sched.C10_concurrency",
    "Ts.Sched.C10_returned",
    "Ts.Sched.C10_auto_budget",
    "Ts.Sched.C10_override",
    "Ts.Sched.C10_witness_underdeclared",
]
BUDGET_S = (100, 900)
RULE = ("The REAL execute_write_reqs + PendingIOWork.complete and execute_read_reqs run in one asyncio loop on fake "
        "requests (declared cost, produced buffer size) and a fake storage whose operations block on gates; a driver "
        "coroutine waits for quiescence and releases the gate(s) chosen by the schedule (seeded PRNG; exhaustive DFS "
        "over all completion orders for every request multiset over the cost alphabet {0,1,B-1,B,B+1,2B}: all orders "
        "for n<=3 (quick) / n<=4 (thorough), state-deduplicated DFS for n<=4 (quick) / n<=5 (thorough)). "
        "Correspondence = the Lean driver accepts the observed scheduler-level trace (every event enabled, dispatch "
        "loops run to their end before every wait), reports the same running budget at every _WriteReporter.report / "
        "hand-over point and the same final budget/outcome. Oracle on the real trace = bound with the single-oversized "
        "exception, storage concurrency <= cap, budget returned, reported budget + accounted = total, no admissible "
        "request left waiting. get_process_memory_budget_bytes under patched psutil / hostnames / env vs Budget.auto. "
        "A case is non-trivial if it has >= 2 requests and admission control or the cap was binding.")
TRUSTED = ["asyncio (a created task runs; asyncio.wait returns the completed tasks)",
           "the fake stagers/consumers/storage and the quiescence detector of harness/schedsim.py",
           "float product int(available*0.6) equals floor(3*available/5) for available < 2^50 (sampled)"]
ASSUMPTIONS = ["buf <= cost for every request in C10_bound_write/read (false for real stagers: known finding D15, "
               "witness C10_witness_underdeclared)",
               "budget >= 0 in the bound theorems; conservation / concurrency / returned need no hypothesis"]
LEVEL_TEXT = ("Lean 4 theorems over the write/read pipeline transition systems, unbounded in the request list, budget, "
              "cap and event order (inductions over the event list): budget + accounted = total in every reachable "
              "state; accounted <= total or a single request in flight that was admitted from the empty pipeline; "
              "storage operations in flight <= cap; budget fully returned at termination; automatic budgets of the ranks "
              "of one host sum to <= 3/5 of the available memory and each is <= 32 GiB; a parseable override is returned "
              "verbatim. The model is tied to the real scheduler on every run by trace acceptance + running-budget "
              "comparison, and the property oracle is evaluated on the real traces.")
LEVEL_NOTE = ("Trusted: Lean kernel (+propext, Classical.choice, Quot.sound), the hand model lean/TsModel/Sched.lean, the "
              "harness. Partial: the bound needs buf <= cost (D15 stays a known finding, reproduced on every run).")
TECHNIQUE = "Lean 4 invariant proofs over an executable scheduler model + trace-acceptance correspondence with the real pipelines"

MY_SIGS = set(S.C10_SIGS)

# minimized past failures / pre-design findings; every schedule of each entry is explored
CORPUS = [
    # D5 (fixed by deebcfe): budget 10, costs [6, 20] -> 26 bytes in flight with two requests on the read side
    {"mode": "read", "reqs": [{"cost": 6, "buf": 6}, {"cost": 20, "buf": 20}], "budget": 10, "cap": 2},
    {"mode": "read", "reqs": [{"cost": 20, "buf": 20}, {"cost": 6, "buf": 6}], "budget": 10, "cap": 1},
    # boundary of the strict comparison: cost == remaining budget must wait
    {"mode": "write", "reqs": [{"cost": 1, "buf": 1}, {"cost": 3, "buf": 3}, {"cost": 2, "buf": 2}], "budget": 4, "cap": 2},
    {"mode": "read", "reqs": [{"cost": 1, "buf": 1}, {"cost": 3, "buf": 3}, {"cost": 2, "buf": 2}], "budget": 4, "cap": 2},
    # oversized request alone, then small ones; buffer smaller than the declared cost
    {"mode": "write", "reqs": [{"cost": 9, "buf": 4}, {"cost": 1, "buf": 0}, {"cost": 1, "buf": 1}], "budget": 4, "cap": 1},
    # zero-cost requests with budget 1
    {"mode": "write", "reqs": [{"cost": 0, "buf": 0}, {"cost": 1, "buf": 1}, {"cost": 0, "buf": 0}], "budget": 1, "cap": 1},
    {"mode": "read", "reqs": [{"cost": 0, "buf": 0}, {"cost": 1, "buf": 1}, {"cost": 0, "buf": 0}], "budget": 1, "cap": 3},
]


def _check(ctx: Ctx, suite: str, sim: S.Sim, do_case=True):
    """Correspondence + the C10 part of the oracle for one finished run."""
    inp = S.case_input(sim.mode, sim.reqs, sim.budget, sim.cap, S.released_labels(sim), sim.fail, sim.order_salt)
    S.correspond(ctx, suite, sim, inp)
    for sig, what, detail in S.judge(sim):
        if sig in MY_SIGS:
            ctx.fail(sig, what, inp, detail, suite=suite)
        elif sim.fail is None and sig in ("pipeline-hang", "unexpected-exception"):
            # not C10's subject, but a run that does not finish cannot show "budget returned" either
            ctx.fail("budget-not-returned", "pipeline did not finish, so the budget was never returned (" + sig + ")",
                     inp, detail, suite=suite)
    if do_case:
        st = S.stats(sim)
        for k, v in st.items():
            if v:
                ctx.count(f"{suite}.{k}")
        ctx.count(f"{suite}.{sim.mode}")
        ctx.count(f"{suite}.n={len(sim.reqs)}")
        ctx.case(suite, {"mode": sim.mode, "reqs": sim.reqs, "budget": sim.budget, "cap": sim.cap,
                         "released": [list(map(list, x)) for x in S.released_labels(sim)][:12]},
                 nontrivial=len(sim.reqs) >= 2 and (st["budget_binding"] or st["cap_reached"] or st["oversized_alone"]),
                 key=inp)


def _explore(ctx: Ctx, suite: str, mode, reqs, B, cap, dedup: bool, reserve: float) -> int:
    k = 0
    for sim in S.explore(lambda script: S.run_case(mode, reqs, B, cap, S.scripted_chooser(script)), dedup):
        _check(ctx, suite, sim)
        k += 1
        if ctx.time_left() < reserve:
            ctx.notes.append(f"{suite}: exploration of {mode} {reqs} B={B} cap={cap} stopped early after {k} schedules")
            break
    return k


def _corpus(ctx: Ctx):
    for c in CORPUS:
        _explore(ctx, "corpus", c["mode"], c["reqs"], c["budget"], c["cap"], dedup=False, reserve=30)


def _random(ctx: Ctx, n_cases: int, reserve: float):
    for i in range(n_cases):
        if ctx.time_left() < reserve:
            ctx.notes.append(f"random stream stopped early at {i}")
            break
        seed = ctx.rng.getrandbits(48)
        rng = random.Random(seed)
        B = rng.choice([1, 2, 3, 4, 4, 7, 16, 64])
        n = rng.choice([0, 1, 2, 3, 4, 5, 6, 7, 9, 12])
        mode = rng.choice(["write", "read"])
        cap = rng.choice([1, 1, 2, 2, 3, 4, 16])
        reqs = S.gen_reqs(rng, B, n, batched_prob=0.15 if rng.random() < 0.3 else 0.0)
        batch = 0.35 if rng.random() < 0.35 else 0.0
        chooser = S.random_chooser(rng, batch)
        if rng.random() < 0.12:
            # many small requests under a roomy budget, completed in waves: a long backlog behind the concurrency cap and
            # several storage operations finishing in the same event-loop tick
            n = rng.randint(4, 12)
            reqs = [{"cost": 1, "buf": 1} for _ in range(n)] if rng.random() < 0.6 else S.gen_reqs(rng, 1, n)
            B = rng.choice([16, 64])
            chooser = S.waves_chooser() if rng.random() < 0.7 else S.random_chooser(rng, 0.5)
            cap = rng.choice([1, 2, 2, 3])
        sim = S.run_case(mode, reqs, B, cap, chooser, order_salt=seed & 0xFFFF)
        _check(ctx, "random", sim)


def _exhaustive(ctx: Ctx, reserve: float):
    B = 4
    al = S.alphabet(B)
    full_n, dedup_n = (3, 4) if ctx.quick else (4, 5)
    plan = []
    for n in range(1, dedup_n + 1):
        for ms in S.multisets(al, n):
            for cap in ((1, 2, 3) if n <= 3 or not ctx.quick else (1, 2)):
                for mode in ("write", "read"):
                    plan.append((n, ms, cap, mode))
    done_ms = 0
    for n, ms, cap, mode in plan:
        if ctx.time_left() < reserve:
            ctx.notes.append(f"exhaustive scope stopped early: {done_ms}/{len(plan)} (multiset, cap, pipeline) combinations")
            break
        reqs = [{"cost": c, "buf": c} for c in ms]
        suite = f"exhaustive_n{n}" + ("" if n <= full_n else "_dedup")
        _explore(ctx, suite, mode, reqs, B, cap, dedup=n > full_n, reserve=reserve)
        done_ms += 1
    ctx.count("exhaustive.combinations_done", done_ms)
    ctx.count("exhaustive.combinations_planned", len(plan))


def _underdeclared(ctx: Ctx, n_cases: int):
    """D15: declared cost below the produced buffer size (separate stream; known finding)."""
    fixed = [("write", [{"cost": 1, "buf": 5}, {"cost": 1, "buf": 5}], 4, 2),     # = C10_witness_underdeclared
             ("read", [{"cost": 1, "buf": 5}, {"cost": 1, "buf": 5}], 4, 2)]
    for mode, reqs, B, cap in fixed:
        _explore(ctx, "underdeclared", mode, reqs, B, cap, dedup=False, reserve=20)
    for i in range(n_cases):
        if ctx.time_left() < 20:
            break
        rng = random.Random(ctx.rng.getrandbits(48))
        B = rng.choice([2, 4, 7, 16])
        reqs = S.gen_reqs(rng, B, rng.randint(2, 6), under=True)
        sim = S.run_case(rng.choice(["write", "read"]), reqs, B, rng.choice([1, 2, 4]), S.random_chooser(rng))
        _check(ctx, "underdeclared", sim)


def _real_stagers(ctx: Ctx):
    """D15 made concrete: declared staging cost vs produced buffer size of the repo's own stagers, and the real
    pipeline over them (fake storage) exceeding the budget with two requests in flight."""
    import asyncio
    import torch
    from torchsnapshot.io_preparers.object import ObjectBufferStager
    from torchsnapshot.io_preparers.tensor import TensorIOPreparer
    from torchsnapshot.io_types import ReadReq
    from torchsnapshot.batcher import batch_read_requests

    loop = S.get_loop()
    cases = []
    objs = {"dict_with_long_str": {"a": "x" * 5000}, "list_of_lists": [[1, 2, 3] * 50 for _ in range(20)],
            "small_int": 7, "nested_tuple": ((1, 2), "y" * 300)}
    for name, o in objs.items():
        st = ObjectBufferStager(o)
        produced = len(loop.run_until_complete(st.stage_buffer(S.InlineExecutor())))
        cases.append(("object:" + name, st.get_staging_cost_bytes(), produced))
    tensors = {"complex64[2] (torch_save)": torch.zeros(2, dtype=torch.complex64),
               "complex128[1] (torch_save)": torch.zeros(1, dtype=torch.complex128),
               "float32[4] (buffer protocol)": torch.zeros(4), "int64[1000]": torch.zeros(1000, dtype=torch.int64)}
    for name, t in tensors.items():
        _, wrs = TensorIOPreparer.prepare_write("p", t)
        st = wrs[0].buffer_stager
        produced = len(loop.run_until_complete(st.stage_buffer(S.InlineExecutor())))
        cases.append(("tensor:" + name, st.get_staging_cost_bytes(), produced))
    # merged read requests: buf_sz_bytes is computed from the LAST byte range only
    sim = S.Sim("read", [], 1, 1, lambda l: [0])
    rrs = [ReadReq(path="slab", buffer_consumer=sim._leaf_consumer(0, j, 0, hi - lo, top=False), byte_range=(lo, hi))
           for j, (lo, hi) in enumerate([(0, 90), (90, 100)])]
    merged = batch_read_requests(rrs)
    if len(merged) == 1 and merged[0].byte_range is not None:
        lo, hi = merged[0].byte_range
        cases.append(("merged-read:[0,90)+[90,100) zero-cost consumers",
                      merged[0].buffer_consumer.get_consuming_cost_bytes(), hi - lo))
    for name, declared, produced in cases:
        ctx.count("real_stagers.under" if produced > declared else "real_stagers.ok")
        ctx.case("real_stagers", {"stager": name, "declared_cost": declared, "produced_bytes": produced},
                 nontrivial=True, key=name)
        if produced > declared:
            ctx.fail("underdeclared-cost", "a real stager/consumer declares a cost below the size of the buffer it produces",
                     {"stager": name}, {"declared_cost": declared, "produced_bytes": produced}, suite="real_stagers")
    # the real pipeline over two real ObjectBufferStagers: budget between declared and produced sizes
    from torchsnapshot.io_types import WriteReq
    import torchsnapshot.scheduler as sched

    o = {"a": "x" * 5000}
    declared = ObjectBufferStager(o).get_staging_cost_bytes()
    B = 3 * declared
    sim = S.Sim("write", [{"cost": declared, "buf": 0}, {"cost": declared, "buf": 0}], B, 2, lambda l: [0])
    seen = {"max": 0, "cur": 0, "n": 0}

    class Store(sim._storage().__class__):
        async def write(self_, write_io):
            seen["cur"] += len(write_io.buf); seen["n"] += 1
            seen["max"] = max(seen["max"], seen["cur"])
            await sim.gate(("write", int(write_io.path)))
            seen["cur"] -= len(write_io.buf)

    async def main():
        p = await sched.execute_write_reqs(
            write_reqs=[WriteReq(path=str(i), buffer_stager=ObjectBufferStager(o)) for i in range(2)],
            storage=Store(), memory_budget_bytes=B, rank=0)
        await p.complete()

    sim._main_write = lambda _s: main()
    sim.run(loop)
    ctx.case("real_stagers", {"pipeline": "2 x ObjectBufferStager", "budget": B, "declared_each": declared,
                              "max_bytes_in_flight": seen["max"]}, nontrivial=True, key="pipeline-object")
    if seen["max"] > B and seen["n"] >= 2:
        ctx.fail("underdeclared-cost", "real pipeline over real ObjectBufferStagers: buffers in flight exceed the budget",
                 {"stager": "pipeline:2xObjectBufferStager", "budget": B}, {"max_bytes_in_flight": seen["max"]},
                 suite="real_stagers")


def _auto_budget(ctx: Ctx, n_cases: int, replay_inp=None):
    import psutil
    import socket
    from collections import namedtuple
    import torchsnapshot.scheduler as sched

    VM = namedtuple("VM", "available")
    ENV = "TORCHSNAPSHOT_PER_RANK_MEMORY_BUDGET_BYTES"

    class FakePG:
        def __init__(self, names):
            self.names = names

        def get_world_size(self):
            return len(self.names)

        def all_gather_object(self, obj_list, obj):
            for i, nm in enumerate(self.names):
                obj_list[i] = nm

    saved = (psutil.virtual_memory, socket.gethostname, os.environ.get(ENV))
    pool = ["hostA", "hostB", "node-17.cluster", "h", "ünï"]

    def one(avail, names, mine, ov_raw, suite="auto_budget"):
        psutil.virtual_memory = lambda a=avail: VM(a)
        socket.gethostname = lambda m=mine: m
        if ov_raw is None:
            os.environ.pop(ENV, None)
        else:
            os.environ[ENV] = ov_raw
        try:
            impl = {"budget": sched.get_process_memory_budget_bytes(FakePG(names))}
        except ZeroDivisionError:
            impl = {"err": "ZeroDivisionError"}
        # how Python's int() sees the override (the model takes the parse result as an input)
        ov = None
        if ov_raw is not None:
            try:
                ov = {"value": int(ov_raw)}
            except ValueError:
                ov = {"unparseable": True}
        inp = {"op": "auto_budget", "avail": avail, "hostnames": names, "mine": mine, "override": ov,
               "override_raw": ov_raw}
        lws = names.count(mine)
        # oracle: override honoured; else at most floor(3*avail/5)//lws and at most 32 GiB
        if ov and "value" in ov:
            if impl.get("budget") != ov["value"]:
                ctx.fail("override-not-honoured", "explicit memory-budget override was not returned verbatim", inp, impl,
                         suite=suite)
        elif lws > 0:
            cap32 = 32 * 1024 ** 3
            b = impl.get("budget")
            if b is None or b > cap32 or b * lws > (3 * avail) // 5 or b < 0:
                ctx.fail("auto-budget-too-large", "automatic budget exceeds the per-rank cap or the host's 60% share",
                         inp, impl, suite=suite)
        if ctx.driver:
            rep = ctx.driver.call({k: v for k, v in inp.items() if k != "override_raw"})
            model = {"budget": rep["budget"]} if "budget" in rep else {"err": rep.get("err", rep.get("error"))}
            if model != impl:
                ctx.disagree(suite, inp, impl, rep)
        ctx.count("auto_budget." + ("override" if ov and "value" in ov else "unparseable" if ov else "auto"))
        if lws == 0 and not (ov and "value" in ov):
            ctx.count("auto_budget.zero_lws")
        ctx.case(suite, inp, nontrivial=True, key=inp)

    def host_sum(names, host, samples, suite="auto_budget_host"):
        """All ranks of `host` (one available-memory sample each): budgets sum to <= 3/5 of the largest sample."""
        os.environ.pop(ENV, None)
        socket.gethostname = lambda: host
        total = 0
        for a in samples:
            psutil.virtual_memory = lambda a=a: VM(a)
            total += sched.get_process_memory_budget_bytes(FakePG(names))
        inp = {"hostnames": names, "host": host, "samples": samples}
        if total > (3 * max(samples)) // 5:
            ctx.fail("auto-budget-sum", "budgets of the ranks of one host sum to more than 60% of available memory",
                     inp, {"sum": total, "limit": (3 * max(samples)) // 5}, suite=suite)
        ctx.case(suite, inp, nontrivial=len(samples) > 1, key=inp)

    try:
        if replay_inp is not None:
            if "samples" in replay_inp:
                host_sum(replay_inp["hostnames"], replay_inp.get("host", "h0"), replay_inp["samples"], suite="replay")
            else:
                one(replay_inp["avail"], replay_inp["hostnames"], replay_inp["mine"], replay_inp.get("override_raw"),
                    suite="replay")
            return
        # corpus first: D19 (fixed by b590eb5) -- get_local_world_size counted the LAST gathered hostname
        host_sum(["h0", "o0", "h0", "o1", "o2", "o3"], "h0", [892316, 891866], suite="auto_budget_corpus")
        one(10, ["hostB", "hostA", "hostB", "hostB", "hostA", "node-17.cluster", "hostA", "hostA"], "hostB", None,
            suite="auto_budget_corpus")
        one(1000000000, ["hostB", "hostA", "node-17.cluster", "hostA", "hostB", "hostA", "node-17.cluster"], "hostA",
            None, suite="auto_budget_corpus")
        for i in range(n_cases):
            rng = ctx.rng
            avail = rng.choice([0, 1, 4, 5, 7, 10, 10 ** 9, 64 * 2 ** 30, 2 ** 40, 2 ** 50 - 1,
                                rng.randrange(0, 2 ** 20), rng.randrange(0, 2 ** 36), rng.randrange(0, 2 ** 50),
                                5 * rng.randrange(0, 2 ** 45), 5 * rng.randrange(0, 2 ** 45) + rng.randrange(5)])
            W = rng.randint(1, 9)
            names = [rng.choice(pool[:rng.randint(1, len(pool))]) for _ in range(W)]
            mine = rng.choice(names) if rng.random() < 0.93 else "elsewhere"
            r = rng.random()
            if r < 0.55:
                ov_raw = None
            elif r < 0.85:
                ov_raw = rng.choice(["0", "1", "123456789", "-5", " 42 ", "1_000", "+7", str(2 ** 70), "007"])
            else:
                ov_raw = rng.choice(["", "abc", "1.5", "0x10", "1e9", "12 34", "--1"])
            one(avail, names, mine, ov_raw)
        for _ in range(max(n_cases // 10, 5)):
            rng = ctx.rng
            lws = rng.randint(1, 8)
            names = ["h0"] * lws + [f"o{j % 3}" for j in range(rng.randint(0, 5))]
            rng.shuffle(names)
            A = rng.choice([rng.randrange(1, 2 ** 20), rng.randrange(1, 2 ** 44)])
            samples = [A - rng.randrange(0, min(A, 1000) + 1) for _ in range(lws)]
            host_sum(names, "h0", samples)
    finally:
        psutil.virtual_memory, socket.gethostname = saved[0], saved[1]
        if saved[2] is None:
            os.environ.pop(ENV, None)
        else:
            os.environ[ENV] = saved[2]


def run(ctx: Ctx):
    _corpus(ctx)
    _auto_budget(ctx, ctx.n(400, 4000))
    _real_stagers(ctx)
    _underdeclared(ctx, ctx.n(40, 400))
    total = ctx.time_left()
    _random(ctx, ctx.n(3000, 30000), reserve=total * 0.45)
    _exhaustive(ctx, reserve=8)
    ctx.notes.append(f"hooks used: ThreadPoolExecutor->inline, _WriteReporter.report capture "
                     f"(both optional; absent hooks only reduce what is compared)")


def replay(ctx: Ctx, rec):
    inp = rec["input"]
    if inp.get("op") == "auto_budget" or "samples" in inp:
        print("input   :", inp)
        print("recorded:", rec.get("observed"))
        _auto_budget(ctx, 0, replay_inp=inp)
        print("now     :", [(f["sig"], f["observed"]) for f in ctx.failures] or "no failure",
              "| model disagreements:", [(d["impl"], d["model"]) for d in ctx.disagreements] or "none")
        return
    if "stager" in inp:
        print("input   :", inp, "recorded:", rec.get("observed"))
        _real_stagers(ctx)
        ctx.failures[:] = [f for f in ctx.failures if f["input"] == inp]
        print("now     :", [(f["sig"], f["observed"]) for f in ctx.failures] or "no failure")
        return
    sim = S.rerun_input(inp)
    print("input   :", {k: inp[k] for k in ("mode", "reqs", "budget", "cap", "fail")})
    print("schedule:", inp["schedule"])
    print("impl    : outcome", sim.outcome, sim.exc, "final budget", sim.final_budget)
    print("log     :", [e for e in S.compact_log(sim)])
    rep = S.correspond(ctx, "replay", sim, inp)
    if rep is not None:
        print("model   :", {k: rep.get(k) for k in ("accepted", "rejected_at", "final")})
    for sig, what, detail in S.judge(sim):
        print("oracle  :", sig, what, detail)
        if sig in MY_SIGS:
            ctx.fail(sig, what, inp, detail, suite="replay")
