"""C04 — restore never silently returns wrong data when stored payload is damaged."""
from __future__ import annotations

import math
import os
from typing import Any, Dict, List, Optional, Tuple

from common import Ctx

PROP = "C04"
LEAN_MODULE = "TsProofs.Properties.C04"
THEOREMS = [
    "Ts.Damage.C04_deleted_raises",
    "Ts.Damage.C04_deleted_raises_batched",
    "Ts.Damage.C04_truncated_ranged_raw",
    "Ts.Damage.C04_truncated_whole_raw",
    "Ts.Damage.C04_truncated_whole_codec",
    "Ts.Damage.C04_truncated_ranged_codec",
    "Ts.Damage.C04_undamaged_ok",
    "Ts.Damage.C04_batched_truncated",
    "Ts.Damage.C04_witness_swallowed",
]
BUDGET_S = (150, 900)
RULE = ("committed snapshots of random states (raw/chunked tensors, slabs, objects, complex tensors via torch_save) taken by the real "
        "Snapshot.take on in-memory storage; then for every payload object x damage in {deleted, truncated to 0, size-1, each "
        "range boundary and boundary+-1, random length} x {restore into None targets, restore in place, read_object per affected "
        "path without budget, read_object with a small budget (tiled)} x read batching on/off: the real outcome class "
        "(raises / returns saved values / returns something else) is compared with the property (needed byte range reaches into "
        "the missing part <=> must raise; otherwise must return the saved values) and with the Lean model's verdict for the same "
        "request plan. Non-trivial = the call touches the damaged object; distinct by (snapshot, object, damage, call).")
TRUSTED = ["torch.load rejects every strict prefix of a torch.save stream (sampled on every generated object)",
           "torch.frombuffer/reshape reject a buffer whose length is not element_size*numel (C17)",
           "sharded entries share the raw-tensor consumer (exercised in C08's suite)"]
ASSUMPTIONS = ["damage = deletion or truncation of one payload object (the property's fault model); metadata intact"]
LEVEL_TEXT = ("Lean 4 theorems over the damage model, for every object, truncation length, byte range, consumer kind and batched plan of "
              "any size/order: a deleted object always raises; a truncated object raises exactly when a needed range reaches past the "
              "surviving prefix and otherwise delivers the saved bytes; the merged (batched) reader raises iff any member does (and "
              "a proved witness shows the pre-fix reader swallowed it). Tied to the real restore/read_object by injecting every damage "
              "into real committed snapshots and comparing outcome classes; the oracle checks returned values bit-exactly.")
LEVEL_NOTE = ("Trusted: Lean kernel, hand model TsModel/Damage.lean, harness; the codec assumption (torch.load rejects strict prefixes) "
              "and torch's buffer-length check are assumed and sampled, not proved.")
TECHNIQUE = "Lean 4 proof over damage/read model + exhaustive damage injection into real committed snapshots"

ROOT = "/snap/c04"


def _plan(manifest, path_filter=None, budget: Optional[int] = None) -> List[Dict[str, Any]]:
    """The read requests a call needs, recomputed from the manifest alone (model-independent)."""
    import torch
    from torchsnapshot.manifest import ChunkedTensorEntry, ObjectEntry, TensorEntry
    from torchsnapshot.serialization import Serializer, string_to_dtype
    reqs = []

    def tensor_reqs(te, key):
        es = torch.empty((), dtype=string_to_dtype(te.dtype)).element_size() if te.serializer == Serializer.BUFFER_PROTOCOL.value else None
        n = 1
        for s in te.shape:
            n *= s
        if te.serializer != Serializer.BUFFER_PROTOCOL.value:
            reqs.append({"loc": te.location, "range": list(te.byte_range) if te.byte_range else None, "consumer": "codec", "len": 0, "key": key})
            return
        size = es * n
        if budget is None:
            reqs.append({"loc": te.location, "range": list(te.byte_range) if te.byte_range else None, "consumer": "raw", "len": size, "key": key})
            return
        # prepare_read_tiled: torch.chunk of the flattened tensor into max(ceil(size/budget),1) chunks
        num = max(math.ceil(size / budget), 1)
        per = math.ceil(n / num) if n else 0
        base = te.byte_range[0] if te.byte_range else 0
        off = 0
        left = n
        if n == 0:
            reqs.append({"loc": te.location, "range": [base, base], "consumer": "raw", "len": 0, "key": key})
            return
        while left > 0:
            c = min(per, left)
            reqs.append({"loc": te.location, "range": [base + off, base + off + c * es], "consumer": "raw", "len": c * es, "key": key})
            off += c * es
            left -= c

    for k, e in manifest.items():
        if path_filter is not None and k != path_filter:
            continue
        if isinstance(e, ChunkedTensorEntry):
            for ch in e.chunks:
                tensor_reqs(ch.tensor, k)
        elif isinstance(e, TensorEntry):
            tensor_reqs(e, k)
        elif isinstance(e, ObjectEntry):
            reqs.append({"loc": e.location, "range": None, "consumer": "codec", "len": 0, "key": k})
    return reqs


def _expected_raise(reqs, dloc, kind, n, sizes) -> bool:
    """The property, stated directly: does some needed byte range reach into the missing part?"""
    for r in reqs:
        if r["loc"] != dloc:
            continue
        if kind == "deleted":
            return True
        if r["range"] is None:
            if n < sizes[dloc]:
                return True
        else:
            lo, hi = r["range"]
            if hi > lo and hi > n:
                return True
    return False


def _one_snapshot(ctx: Ctx, case: Dict[str, Any], suite: str):
    import gen
    import shutil
    import sim
    import torch
    from common import OUT_DIR
    from torchsnapshot import Snapshot

    world = sim.World(1)
    fs_dir = None
    if case.get("real_fs"):
        # the REAL FSStoragePlugin in a private directory (keys of this suite are plain): its short-read behaviour on
        # truncated files is what the consumers' length checks rely on
        fs_dir = os.path.join(OUT_DIR, f"c04_fs_{os.getpid()}")
        shutil.rmtree(fs_dir, ignore_errors=True)
        world.storage = sim.FsStore(fs_dir)
    try:
        _one_snapshot_in(ctx, case, suite, world)
    finally:
        if fs_dir:
            shutil.rmtree(fs_dir, ignore_errors=True)


def _one_snapshot_in(ctx: Ctx, case: Dict[str, Any], suite: str, world):
    import gen
    import sim
    import torch
    from torchsnapshot import Snapshot

    tree = gen.build_tree(case["state"])
    saved = gen.deep_clone(tree)
    with sim.knobs(**case["knobs"]):
        try:
            world.run1(lambda: Snapshot.take(ROOT, {"s": gen.RecStateful(tree)}))
        except Exception as e:  # noqa
            ctx.notes.append(f"take raised {type(e).__name__}")
            return
    manifest = world.run1(lambda: Snapshot(ROOT).get_manifest())
    files = {p: b for p, b in world.storage.snapshot_files().items() if not p.endswith(".snapshot_metadata")}
    rel = {os.path.relpath(p, ROOT): p for p in files}
    sizes = {r: len(files[p]) for r, p in rel.items()}
    full_plan = _plan(manifest)
    leaf_keys = sorted({r["key"] for r in full_plan})
    if not leaf_keys:
        return

    def damages(loc) -> List[Tuple[str, int]]:
        size = sizes[loc]
        cuts = {0, size - 1, size // 2}
        for r in full_plan:
            if r["loc"] == loc and r["range"]:
                for b in r["range"]:
                    cuts.update({b - 1, b, b + 1})
        cuts = sorted(c for c in cuts if 0 <= c < size)
        if ctx.quick and len(cuts) > 5:
            cuts = sorted(set(ctx.rng.sample(cuts, 5)) | {cuts[0], cuts[-1]})
        return [("deleted", 0)] + [("truncated", c) for c in cuts]

    def classify(fn, expect_value) -> Tuple[str, Any]:
        try:
            got = fn()
        except Exception as e:  # noqa
            # a failed restore abandons its other read coroutines; finalise them now, at a safe point (with the real FS
            # plugin their aiofiles __aexit__ would otherwise run from a GC pass inside ThreadPoolExecutor.submit and deadlock)
            if isinstance(world.storage, sim.FsStore):
                import gc
                gc.collect()
            return "raise", type(e).__name__
        if isinstance(world.storage, sim.FsStore):
            # a call that swallowed a read failure also leaves abandoned coroutines behind: same precaution
            import gc
            gc.collect()
        d = gen.deep_eq(expect_value, got)
        return ("ok-correct", None) if d is None else ("ok-wrong", d)

    locs = sorted(rel)
    if ctx.quick and len(locs) > 4:
        locs = sorted(ctx.rng.sample(locs, 4))
    for loc in locs:
        for (kind, n) in damages(loc):
            p = rel[loc]
            orig = world.storage.files[p]
            try:
                if kind == "deleted":
                    del world.storage.files[p]
                else:
                    world.storage.files[p] = orig[:n]
                calls = []
                for nobatch in (False, True):
                    calls.append(("restore-fresh", nobatch, None, None))
                    if ctx.rng.random() < 0.5 or not ctx.quick:
                        calls.append(("restore-inplace", nobatch, None, None))
                touched = sorted({r["key"] for r in full_plan if r["loc"] == loc})
                others = [k for k in leaf_keys if k not in touched]
                ro_paths = touched[:3] + (others[:1] if others else [])
                for k in ro_paths:
                    calls.append(("read_object", ctx.rng.random() < 0.5, k, None))
                    if max(sizes.values()) <= 4096:      # tiny budgets on MB-sized objects mean millions of tiles
                        calls.append(("read_object", ctx.rng.random() < 0.5, k, ctx.rng.choice([1, 3, 8, 17])))
                    else:
                        calls.append(("read_object", ctx.rng.random() < 0.5, k, 400000))
                for (mode, nobatch, key, budget) in calls:
                    if ctx.time_left() < 5:
                        return
                    if mode.startswith("restore"):
                        reqs = full_plan
                        if mode == "restore-fresh":
                            target = {k: None for k in saved} if isinstance(saved, dict) else None
                        else:
                            target = _zero_like(saved)
                        dst = gen.RecStateful(target)

                        def call():
                            Snapshot(ROOT).restore({"s": dst})
                            return dst.loaded
                        expect_value = saved
                    else:
                        reqs = _plan(manifest, path_filter=key, budget=budget)
                        expect_value = _lookup(saved, key)

                        def call():
                            return Snapshot(ROOT).read_object(key, memory_budget_bytes=budget)
                    # a quarter of the calls are made from code running inside an asyncio event loop (asyncio.run(main()),
                    # a notebook cell, an async service handler)
                    in_loop = ctx.rng.random() < 0.25

                    def call_maybe_in_loop():
                        if not in_loop:
                            return call()
                        import asyncio as _aio

                        async def _main():
                            return call()
                        return _aio.run(_main())
                    with sim.knobs(nobatch=nobatch, budget=case["knobs"].get("budget"), conc=case["knobs"].get("conc")):
                        outcome, detail = classify(lambda: world.run1(call_maybe_in_loop), expect_value)
                    ctx.count("call.in_event_loop" if in_loop else "call.plain")
                    exp_raise = _expected_raise(reqs, loc, kind, n, sizes)
                    inp = {"state": case["state"], "knobs": case["knobs"], "real_fs": bool(case.get("real_fs")), "object": loc,
                           "size": sizes[loc], "damage": kind, "n": n,
                           "call": mode, "read_batching": not nobatch, "path": key, "budget": budget, "in_loop": in_loop}
                    if outcome == "ok-wrong":
                        ctx.fail("silent-wrong-data", "call returned normally with contents different from the saved ones", inp, detail, suite=suite)
                    elif outcome == "ok-correct" and exp_raise:
                        ctx.fail("damage-not-detected", "a needed byte range is missing but the call returned (values happen to match)", inp, None, suite=suite)
                    elif outcome == "raise" and not exp_raise:
                        ctx.fail("undamaged-call-raised", "no needed range is damaged but the call raised", inp, detail, suite=suite)
                    if ctx.driver:
                        eff_batch = (not nobatch) and not (mode == "read_object" and budget is not None)
                        rep = ctx.driver.call({"op": "damage_call", "files": [{"loc": l, "size": s} for l, s in sizes.items()],
                                               "damaged": loc, "kind": kind, "n": n, "batching": eff_batch,
                                               "reqs": [{k2: v for k2, v in r.items() if k2 != "key"} for r in reqs]})
                        m = rep.get("outcome")
                        real = "error" if outcome == "raise" else "ok"
                        if m != real:
                            ctx.disagree("damage_call", inp, {"outcome": outcome, "detail": detail}, rep)
                    ctx.count(f"outcome.{outcome}")
                    ctx.count(f"call.{mode}")
                    ctx.count(f"damage.{kind}")
                    ctx.count("batching.on" if not nobatch else "batching.off")
                    ctx.case(suite, {k2: v for k2, v in inp.items() if k2 != "state"} | {"outcome": outcome},
                             nontrivial=any(r["loc"] == loc for r in reqs), key=[case["state"], case["knobs"], loc, kind, n, mode, nobatch, key, budget])
            finally:
                world.storage.files[p] = orig


def _zero_like(x):
    import torch
    from collections import OrderedDict
    if isinstance(x, torch.Tensor):
        return torch.zeros_like(x) if x.dtype != torch.bool else torch.zeros(x.shape, dtype=torch.bool)
    if type(x) is OrderedDict:
        return OrderedDict((k, _zero_like(v)) for k, v in x.items())
    if type(x) is dict:
        return {k: _zero_like(v) for k, v in x.items()}
    if type(x) is list:
        return [_zero_like(v) for v in x]
    return None


def _lookup(saved, manifest_key: str):
    """Value saved at manifest key '0/s/<comp>/<comp>...' (components are percent-encoded dict keys / list indices)."""
    from urllib.parse import unquote
    comps = manifest_key.split("/")[2:]
    cur = saved
    for c in comps:
        if isinstance(cur, list):
            cur = cur[int(c)]
        else:
            d = unquote(c)
            hit = [k for k in cur if str(k) == d]
            cur = cur[hit[0]]
    return cur


def _gen_case(rng) -> Dict[str, Any]:
    import gen
    import sim
    keys = ["a", "b", "w", 1, "x y", "c/d"]
    items = []
    for k in rng.sample(keys, rng.randint(1, 4)):
        r = rng.random()
        if r < 0.7:
            leaf = gen.rand_tensor_desc(rng, 16)
        elif r < 0.85:
            leaf = {"t": "obj", "kind": rng.choice(["set", "floatkeydict", "tuple"])}
        else:
            leaf = {"t": "list", "items": [gen.rand_tensor_desc(rng, 8), gen.rand_leaf_desc(rng, 0.3, 8)]}
        items.append([gen.key_desc(k), leaf])
    kn = {"chunk": rng.choice([None, 1, 8, 16, 64]), "slab": rng.choice([None, None, 1, 16, 64]),
          "nobatch": rng.choice([False, False, True]), "budget": rng.choice([10 ** 9, 50, 1]),
          # I/O concurrency cap: with 1 or 2 the read scheduler's throttle branch (in-flight reads at the cap) is taken
          # with a handful of requests; the default (16) needs more requests than these small states have
          "conc": rng.choice([None, None, 1, 2])}
    return {"state": {"t": "dict", "items": items}, "knobs": kn, "real_fs": rng.random() < 0.15}


CORPUS = [
    # D1 replay: two tensors in one slab, truncate the slab to half, batched restore
    {"state": {"t": "dict", "items": [
        [{"k": "str", "v": [97]}, {"t": "tensor", "dtype": "float32", "shape": [2], "data": [1, 2, 3, 4, 5, 6, 7, 8], "layout": "contig"}],
        [{"k": "str", "v": [98]}, {"t": "tensor", "dtype": "float32", "shape": [2], "data": [9, 10, 11, 12, 13, 14, 15, 16], "layout": "contig"}]]},
     "knobs": {"nobatch": False, "budget": 10 ** 9}},
    # real FS plugin, a slab member larger than 1 MiB: ranged reads of that size must still come back short on a truncated file
    {"state": {"t": "dict", "items": [
        [{"k": "str", "v": [97]}, {"t": "tensor_big", "dtype": "float32", "n": 300000, "seed": 3}],
        [{"k": "str", "v": [98]}, {"t": "tensor", "dtype": "uint8", "shape": [3], "data": [1, 2, 3], "layout": "contig"}]]},
     "knobs": {"nobatch": False, "budget": 10 ** 9}, "real_fs": True},
]


def run(ctx: Ctx):
    for c in CORPUS:
        _one_snapshot(ctx, c, "corpus")
    for i in range(ctx.n(30, 800)):
        if ctx.time_left() < 15:
            ctx.notes.append(f"stopped early at snapshot {i}")
            break
        _one_snapshot(ctx, _gen_case(ctx.rng), "damage")


def replay(ctx: Ctx, rec):
    inp = rec["input"]
    _one_snapshot(ctx, {"state": inp["state"], "knobs": inp["knobs"], "real_fs": inp.get("real_fs")}, "replay")
    for f in ctx.failures[:10]:
        print("FAIL", f["sig"], f["what"], {k: v for k, v in f["input"].items() if k != "state"}, f["observed"])
    if not ctx.failures:
        print("no failure on replay")
